#!/bin/bash
# Offline setup: optional contract library beside the repository's interpreter (git-ignored .deps).
cd "$(dirname "$0")"
mkdir -p evidence replays
if [ ! -d .deps/icontract ]; then
  /venv/bin/pip install --quiet --no-index --find-links /opt/veriftools/wheels --target .deps icontract >/dev/null 2>&1 \
    || echo "icontract not installable offline; rvmon.wrap fallback is used"
fi
/venv/bin/python -c "import numpy, scipy, sqlalchemy; print('setup ok')"
