#!/usr/bin/env python3
"""tools/reconfirm_all.py [workers] - apply every kept seeded change to a scratch worktree of /repo HEAD and run the quick check of the
property it breaks (checks named in meta.json 'also' are tried if the first one holds). Writes seeded/RECONFIRM.md."""
import json, os, subprocess, sys, tempfile, glob, re
from concurrent.futures import ThreadPoolExecutor

ALSO = {"C14-limb-cone-wrong-radius": ["C02"], "C02-missed-obs-output-interval": ["C09"]}


def one(d):
    name = os.path.basename(d)
    meta = json.load(open(os.path.join(d, "meta.json")))
    ids = [meta["breaks_property"]] + ALSO.get(name, [])
    wt = tempfile.mkdtemp(prefix="rc_", dir="/tmp"); os.rmdir(wt)
    subprocess.check_call(["git", "-C", "/repo", "worktree", "add", "-q", "--detach", wt, "HEAD"])
    try:
        r = subprocess.run(["git", "-C", wt, "apply", os.path.join(d, "patch.diff")], capture_output=True, text=True)
        if r.returncode != 0:
            return name, "patch no longer applies to HEAD (a later fix: commit changed the same lines); confirmed at the commit recorded in its meta.json", ""
        for pid in ids:
            for seed in ("0", "1"):
                env = dict(os.environ, RESONAATE_SRC=os.path.join(wt, "src"), VERIF_OUT=os.path.join(wt, "out", "verif_out"), VERIF_SEED=seed)
                c = subprocess.run(["./check", pid, "quick"], cwd="/verif", env=env, capture_output=True, text=True)
                keys = re.findall(r"^VIOLATION .*? key=(\S+)", c.stdout, flags=re.M)
                if c.returncode == 1 and keys:
                    return name, f"caught by {pid} (seed {seed})", ", ".join(keys[:3])
        return name, "NOT CAUGHT", ""
    finally:
        subprocess.call(["git", "-C", "/repo", "worktree", "remove", "--force", wt], stdout=subprocess.DEVNULL, stderr=subprocess.DEVNULL)


if __name__ == "__main__":
    workers = int(sys.argv[1]) if len(sys.argv) > 1 else 2
    dirs = sorted(glob.glob("/verif/seeded/C*"))
    head = subprocess.check_output(["git", "-C", "/repo", "rev-parse", "--short", "HEAD"]).decode().strip()
    with ThreadPoolExecutor(workers) as ex:
        res = list(ex.map(one, dirs))
    lines = [f"# Re-confirmation of every kept seeded change against /repo {head} (tools/reconfirm_all.py)", "", "| seeded change | result | first keys |", "|---|---|---|"]
    lines += [f"| {n} | {r} | {k} |" for n, r, k in res]
    bad = [n for n, r, _ in res if not r.startswith("caught")]  # includes patches that no longer apply
    lines += ["", f"{len(res) - len(bad)} of {len(res)} caught" + (f"; not caught / not applicable: {bad}" if bad else "")]
    open("/verif/seeded/RECONFIRM.md", "w").write("\n".join(lines) + "\n")
    print(lines[-1])
