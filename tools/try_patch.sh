#!/bin/bash
# tools/try_patch.sh <patch.diff> <ID> [tier] [seed]  - run a check against a scratch worktree of /repo HEAD with the patch applied
set -e
PATCH=$(readlink -f "$1"); ID=$2; TIER=${3:-quick}; SEED=${4:-0}
WT=$(mktemp -d /tmp/tp_XXXXXX)
git -C /repo worktree add -q --detach "$WT" HEAD
trap 'git -C /repo worktree remove --force "$WT" >/dev/null 2>&1' EXIT
git -C "$WT" apply "$PATCH"
cd /verif && RESONAATE_SRC="$WT/src" VERIF_SEED=$SEED ./check "$ID" "$TIER" 2>&1 | cut -c1-400 | grep -v "^  \|^    \|\^\^\^" | tail -${LINES_OUT:-8}
