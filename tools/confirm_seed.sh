#!/bin/bash
# tools/confirm_seed.sh <dir-with-patch.diff-and-demo.py> <ID[,ID...]> : confirm demo passes without / fails with the patch, then run my checks against it
D=$(readlink -f "$1"); IDS=$2
WT=$(mktemp -d /tmp/cs_XXXXXX); rmdir $WT
git -C /repo worktree add -q --detach "$WT" HEAD
trap 'git -C /repo worktree remove --force "$WT" >/dev/null 2>&1; rm -f $WT.demo.log $WT.check.log' EXIT
# the demo is run from <scratch worktree>/out/seed/ so that demos which locate the sources relative to their own path use the scratch tree
mkdir -p "$WT/out/seed" && cp "$D"/demo.py "$WT/out/seed/demo.py"
run_demo() { (cd "$WT" && if grep -q "def test_" "$WT/out/seed/demo.py"; then PYTHONPATH="$WT/src" timeout 900 /venv/bin/python -m pytest -q -p no:cacheprovider "$WT/out/seed/demo.py" >$WT.demo.log 2>&1; else PYTHONPATH="$WT/src" timeout 900 /venv/bin/python "$WT/out/seed/demo.py" >$WT.demo.log 2>&1; fi; echo $?); }
echo "demo WITHOUT patch: exit $(run_demo)"
if ! git -C "$WT" apply "$D/patch.diff"; then echo "PATCH DOES NOT APPLY to HEAD"; exit 2; fi
echo "demo WITH patch:    exit $(run_demo)"; tail -3 $WT.demo.log | cut -c1-200
for ID in ${IDS//,/ }; do
  (cd /verif && VERIF_OUT="$WT/out/verif_out" RESONAATE_SRC="$WT/src" VERIF_SEED=${SEED:-0} ./check "$ID" ${TIER:-quick} > $WT.check.log 2>&1; echo "== check $ID exit=$?"; grep "^VIOLATION\|^\[" $WT.check.log | cut -c1-330 | tail -4)
done
