#!/bin/bash
# tools/confirm_seed.sh <dir-with-patch.diff-and-demo.py> <ID[,ID...]> : confirm demo passes without / fails with the patch, then run my checks against it
D=$(readlink -f "$1"); IDS=$2
WT=$(mktemp -d /tmp/cs_XXXXXX); rmdir $WT
git -C /repo worktree add -q --detach "$WT" HEAD
trap 'git -C /repo worktree remove --force "$WT" >/dev/null 2>&1' EXIT
run_demo() { (cd "$WT" && if grep -q "def test_" "$D/demo.py"; then PYTHONPATH="$WT/src" timeout 900 /venv/bin/python -m pytest -q -p no:cacheprovider "$D/demo.py" >/tmp/cs_demo.log 2>&1; else PYTHONPATH="$WT/src" timeout 900 /venv/bin/python "$D/demo.py" >/tmp/cs_demo.log 2>&1; fi; echo $?); }
echo "demo WITHOUT patch: exit $(run_demo)"
if ! git -C "$WT" apply "$D/patch.diff"; then echo "PATCH DOES NOT APPLY to HEAD"; exit 2; fi
echo "demo WITH patch:    exit $(run_demo)"; tail -3 /tmp/cs_demo.log | cut -c1-200
for ID in ${IDS//,/ }; do
  (cd /verif && RESONAATE_SRC="$WT/src" VERIF_SEED=${SEED:-0} ./check "$ID" ${TIER:-quick} > /tmp/cs_check.log 2>&1; echo "== check $ID exit=$?"; grep "^VIOLATION\|^\[" /tmp/cs_check.log | cut -c1-330 | tail -4)
done
