#!/usr/bin/env python3
"""tools/reach_report.py [ID ...] - run the quick tier of the given checks (default: all) with the reach recorder on and list, per
property, the functions defined in its anchor files that no workload of ANY check entered.  Development aid; writes tools/REACH.md."""
import ast, json, os, subprocess, sys, tempfile
from pathlib import Path

V = Path("/verif"); SRC = Path(os.environ.get("RESONAATE_SRC", "/repo/src")).resolve()
props = {json.loads(l)["id"]: json.loads(l) for l in open(V / "properties.jsonl")}
ids = sys.argv[1:] or sorted(props)
out = Path(tempfile.mkdtemp(prefix="reach-"))
procs = []
for i in ids:
    env = dict(os.environ, VERIF_REACH=str(out / f"{i}.txt"), VERIF_OUT=str(out / "out"))
    procs.append((i, subprocess.Popen([str(V / "check"), i, "quick"], env=env, stdout=subprocess.DEVNULL, stderr=subprocess.DEVNULL)))
    if len(procs) % 4 == 0:
        for _, p in procs[-4:]:
            p.wait()
for _, p in procs:
    p.wait()
hit_by = {}
for i in ids:
    f = out / f"{i}.txt"
    for line in (f.read_text().splitlines() if f.exists() else []):
        hit_by.setdefault(line, set()).add(i)
lines = ["# Functions of each property's anchor files that no quick workload entered", ""]
for i in sorted(props):
    miss = []
    for rel in props[i]["anchors"]["files"]:
        path = SRC.parent / rel
        if not path.exists():
            continue
        tree = ast.parse(path.read_text())
        relsrc = str(path.resolve().relative_to(SRC))

        def walk(node, prefix=""):
            for n in ast.iter_child_nodes(node):
                if isinstance(n, (ast.FunctionDef, ast.AsyncFunctionDef)):
                    q = prefix + n.name
                    first = min([n.lineno] + [d.lineno for d in n.decorator_list])
                    keys = [f"{relsrc}::{q}::{ln}" for ln in {n.lineno, first}]
                    if not any(k in hit_by for k in keys):
                        miss.append(f"{relsrc}:{n.lineno} {q}")
                    walk(n, q + ".<locals>.")
                elif isinstance(n, ast.ClassDef):
                    walk(n, prefix + n.name + ".")
        walk(tree)
    lines.append(f"## {i} ({len(miss)} not entered)")
    lines += [f"- {m}" for m in miss] + [""]
(V / "tools" / "REACH.md").write_text("\n".join(lines))
print("\n".join(lines))
import shutil; shutil.rmtree(out, ignore_errors=True)
