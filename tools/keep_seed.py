#!/usr/bin/env python3
"""tools/keep_seed.py <srcdir> <name> <property> '<what it needs>' '<checks that catch it / result>'"""
import json, shutil, sys, subprocess
from pathlib import Path
src, name, prop, needs, result = sys.argv[1:6]
dst = Path("/verif/seeded") / name
dst.mkdir(parents=True, exist_ok=True)
for f in ("patch.diff", "demo.py", "note.md"):
    if (Path(src) / f).exists():
        shutil.copy(Path(src) / f, dst / f)
head = subprocess.check_output(["git", "-C", "/repo", "rev-parse", "--short", "HEAD"]).decode().strip()
meta = {"breaks_property": prop, "needs_to_manifest": needs, "confirmed_against_repo_commit": head,
        "what_i_ran": ["tools/confirm_seed.sh <dir> <ID>: demo exits 0 without the patch and non-zero with it on a scratch worktree of /repo HEAD; existing suite reported unchanged by the author's full run (log beside the patch in its worktree)",
                       "check run with RESONAATE_SRC=<scratch worktree>/src"],
        "detection": result}
(dst / "meta.json").write_text(json.dumps(meta, indent=1) + "\n")
print("kept", dst)
