#!/bin/bash
# Runs the repository's pinned suite with the guard OFF and compares against /root/.vp/BASELINE.json
unset RESONAATE_VERIF
OUT=$(mktemp -d)
cd /repo && /venv/bin/python -m pytest -ra -q -p no:cacheprovider --timeout=900 --continue-on-collection-errors --junitxml=$OUT/j.xml "$@" > $OUT/log.txt 2>&1
tail -3 $OUT/log.txt
/venv/bin/python - "$OUT/j.xml" <<'PY'
import json, sys, xml.etree.ElementTree as ET
base = json.load(open('/root/.vp/BASELINE.json'))
want = set(base['stable_pass'])
got = set()
for tc in ET.parse(sys.argv[1]).getroot().iter('testcase'):
    if not any(ch.tag in ('failure', 'error', 'skipped') for ch in tc):
        got.add(f"{tc.get('classname')}::{tc.get('name')}")
missing = sorted(want - got)
print(f"baseline stable_pass={len(want)} passed_now={len(got)} missing={len(missing)}")
for m in missing[:40]:
    print("  MISSING", m)
sys.exit(1 if missing else 0)
PY
rc=$?
rm -rf $OUT
exit $rc
