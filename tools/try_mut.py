#!/usr/bin/env python3
"""tools/try_mut.py ID[,ID2] relpath 'old' 'new' [tier] - run check(s) against a scratch worktree of /repo HEAD with one textual mutation."""
import os, subprocess, sys, tempfile
ids, rel, old, new = sys.argv[1].split(","), sys.argv[2], sys.argv[3], sys.argv[4]
tier = sys.argv[5] if len(sys.argv) > 5 else "quick"
wt = tempfile.mkdtemp(prefix="tm_", dir="/tmp")
os.rmdir(wt)
subprocess.check_call(["git", "-C", "/repo", "worktree", "add", "-q", "--detach", wt, "HEAD"])
try:
    p = os.path.join(wt, rel)
    s = open(p).read()
    old = old.encode().decode("unicode_escape"); new = new.encode().decode("unicode_escape")
    if s.count(old) != 1:
        print(f"MUTATION NOT APPLICABLE: {s.count(old)} occurrences of the old text"); sys.exit(3)
    open(p, "w").write(s.replace(old, new))
    for i in ids:
        env = dict(os.environ, RESONAATE_SRC=os.path.join(wt, "src"), VERIF_OUT=os.path.join(wt, "out", "verif_out"))
        r = subprocess.run(["./check", i, tier], cwd="/verif", env=env, capture_output=True, text=True)
        lines = [l[:260] for l in r.stdout.splitlines() if l.startswith(("VIOLATION", "[", "INCONCLUSIVE", "KNOWN"))]
        print(f"== {i} exit={r.returncode}")
        print("\n".join(lines[-6:]))
finally:
    subprocess.call(["git", "-C", "/repo", "worktree", "remove", "--force", wt])
