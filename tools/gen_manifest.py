#!/usr/bin/env python3
"""Regenerate MANIFEST.json from the property modules that exist (keeps it valid at all times)."""
import ast, json, os, sys
from pathlib import Path

V = Path(__file__).resolve().parent.parent
props = [json.loads(l) for l in (V / "properties.jsonl").read_text().splitlines() if l.strip()]
NA = json.loads((V / "tools" / "not_applicable.json").read_text()) if (V / "tools" / "not_applicable.json").exists() else {}

def meta(pid):
    p = V / "rvmon" / "props" / f"{pid.lower()}.py"
    if not p.exists():
        return None
    tree = ast.parse(p.read_text())
    out = {}
    for node in tree.body:
        if isinstance(node, ast.Assign) and len(node.targets) == 1 and isinstance(node.targets[0], ast.Name):
            n = node.targets[0].id
            if n in ("LEVEL", "MANIFEST", "ASSUME"):
                out[n] = ast.literal_eval(node.value)
    return out

READY = set(json.loads((V / "tools" / "ready.json").read_text()))
checks, na = [], []
for pr in props:
    pid = pr["id"]
    m = meta(pid)
    if m is None or pid in NA or pid not in READY:
        na.append({"property_id": pid, "reason": NA.get(pid, "monitor not built yet in this session (work in progress)")})
        continue
    mf = m.get("MANIFEST", {})
    checks.append({
        "property_id": pid,
        "quick_cmd": f"./check {pid} quick",
        "thorough_cmd": f"./check {pid} thorough",
        "evidence_file": f"/verif/evidence/{pid}.json",
        "replay_cmd_template": f"./check {pid} --replay {{path}}",
        "engine": mf.get("engine", "rvmon"),
        "level_claimed": {"category": m.get("LEVEL", "exploration"),
                          "text": mf.get("level_text", "held on the executions observed; see evidence for counts"),
                          "design_ref": mf.get("design_ref", f"DESIGN.md section 4 {pid}")},
        "level_note": mf.get("level_note", "; ".join(m.get("ASSUME", [])) or "reference models in rvmon/refs are trusted"),
        "technique": mf.get("technique", "runtime monitoring: oracle over observed executions"),
    })
man = {
    "version": 1,
    "setup_cmd": "./setup.sh",
    "hooks": {"guard": "RESONAATE_VERIF", "enable": "harness-side wrappers only: ./check exports RESONAATE_VERIF=1 and installs its monitors/ray stand-in from /verif at import time; no guarded source hooks exist in /repo",
              "baseline_off_cmd": "/verif/tools/baseline_check.sh", "source_commits": [], "add_only": True},
    "engines": [
        {"name": "rvmon", "path": "/verif/rvmon", "serves_properties": [c["property_id"] for c in checks],
         "kind_free_text": "runtime monitors (pre/post wrappers, reference-model oracles, offline checkers over recorded event logs) driving the real code; deterministic ray stand-in with enumerated completion orders; SQL audit + fault injection"}],
    "checks": checks,
    "not_applicable": na,
    "notes": "All checks run /venv/bin/python against /repo/src as it is on disk (fresh process per shard). Exit 0 held, 1 VIOLATION, 2 INCONCLUSIVE. known_findings.json lists genuine defects (open => KNOWN-FINDING line, fixed => suppresses nothing).",
}
(V / "MANIFEST.json").write_text(json.dumps(man, indent=1) + "\n")
print(f"checks={len(checks)} not_applicable={len(na)}")
