"""Stubs that let the repository's real UnscentedKalmanFilter run on a fully known system.

Only the *environment* of the filter is stubbed (dynamics and observation objects); every filter
method executed is the repository's own.  The stubs expose exactly the attributes the filter reads:

    dynamics.propagate(t0, t1, X, scheduled_events=...)         (X is N x S, batch of sigma points)
    observation.julian_date / .sensor_eci / .measurement / .r_matrix / .measurement_states
    observation.measurement.calculateMeasurement(sensor_eci, x, utc, noisy=False) -> {label: value}
    observation.measurement.angular_values -> [IsAngle, ...]

Any other attribute access raises AttributeError (plain classes with __slots__), so a change of the
interface used by the filter shows up as a harness exception (inconclusive), never as a silent pass.
resonaate is imported lazily.
"""

from __future__ import annotations

import math

import numpy as np

TWOPI = 2.0 * math.pi
JD0 = 2458850.0  # 2020-01-01T12:00:00 UTC, inside every table the repository ships


# ---------------------------------------------------------------------------------------------
# dynamics
# ---------------------------------------------------------------------------------------------
_DYN_CLS = None


def linear_dynamics(f):
    """Instance of a (lazily defined) subclass of resonaate's Dynamics whose flow is x -> F @ x."""
    global _DYN_CLS
    if _DYN_CLS is None:
        from resonaate.dynamics.dynamics_base import Dynamics

        class LinearStubDynamics(Dynamics):
            def __init__(self, f_):
                self.F = np.array(f_, dtype=float)
                self.calls = 0
                self.last_in = None
                self.last_out = None

            def __reduce__(self):
                # picklable although the class is defined lazily: rebuilt through the module-level factory
                return (linear_dynamics, (self.F,))

            def propagate(self, initial_time, final_time, initial_state, station_keeping=None, scheduled_events=None, error_flags=None):
                self.calls += 1
                self.intervals = [*getattr(self, "intervals", []), (float(initial_time), float(final_time))][-8:]
                self.last_in = np.array(initial_state, dtype=float, copy=True)
                out = self.F @ initial_state  # works for (N,) and (N, S)
                self.last_out = out.copy()
                return out

        _DYN_CLS = LinearStubDynamics
    return _DYN_CLS(f)


# ---------------------------------------------------------------------------------------------
# measurements
# ---------------------------------------------------------------------------------------------
def wrap_at(theta: float, cut: float) -> float:
    """Representative of theta in [cut, cut + 2*pi)."""
    v = math.fmod(theta - cut, TWOPI)
    if v < 0.0:
        v += TWOPI
    if v >= TWOPI:
        v = 0.0
    return cut + v


def eval_component(spec: dict, x) -> float:
    """One measurement component.

    {"t": "lin", "h": [...], "h0": c}                                   ->  h.x + c
    {"t": "ang", "a": [...], "a0": ., "b": [...], "b0": ., "phi": ., "cut": ., "flag": 2|3}
                                                  ->  wrap_at(atan2(b.x + b0, a.x + a0) + phi, cut)
    """
    if spec["t"] == "lin":
        return float(np.dot(spec["h"], x)) + spec.get("h0", 0.0)
    th = math.atan2(float(np.dot(spec["b"], x)) + spec["b0"], float(np.dot(spec["a"], x)) + spec["a0"])
    return wrap_at(th + spec["phi"], spec["cut"])


class StubMeasurement:
    __slots__ = ("_specs", "_labels", "_angular", "n_calls")

    def __init__(self, specs, label_prefix="m"):
        from resonaate.physics.measurements import IsAngle

        self._specs = specs
        # component labels in declared order are deliberately NOT in alphabetical order (real label lists such as
        # ["range_km", "azimuth_rad"] are not either): nothing may re-order the components by name
        self._labels = [f"{label_prefix}{chr(122 - i % 26)}{i}" for i in range(len(specs))]
        self._angular = [IsAngle(s["flag"]) if s["t"] == "ang" else IsAngle.NOT_ANGLE for s in specs]
        self.n_calls = 0

    def calculateMeasurement(self, sen_eci_state, tgt_eci_state, utc_date, noisy=False):
        if noisy:
            raise AssertionError("the filter must request noise-free sigma measurements")
        self.n_calls += 1
        return {lab: eval_component(sp, tgt_eci_state) for lab, sp in zip(self._labels, self._specs)}

    @property
    def angular_values(self):
        return self._angular


class StubObservation:
    """Carries the public attributes of a real Observation (identity fields included, so that a filter which
    legitimately reads e.g. ``sensor_id`` does not trip over the stub); the stable per-observation identity is the
    measurement's label prefix."""

    __slots__ = ("julian_date", "sensor_eci", "measurement", "r_matrix", "measurement_states", "sensor_id", "target_id", "sensor_type")

    def __init__(self, measurement, r_matrix, measurement_states, julian_date=JD0, sensor_eci=None):
        import zlib

        labels = getattr(measurement, "_labels", None) or ["m0"]
        prefix = str(labels[0])
        self.sensor_id = 20000 + zlib.crc32(prefix.encode()) % 10000
        self.target_id = 10001
        self.sensor_type = "AdvRadar"
        self.julian_date = julian_date
        self.sensor_eci = np.zeros(6) if sensor_eci is None else np.asarray(sensor_eci, dtype=float)
        self.measurement = measurement
        self.r_matrix = np.asarray(r_matrix, dtype=float)
        self.measurement_states = np.asarray(measurement_states, dtype=float)


def linear_specs(h, h0=None):
    h = np.asarray(h, dtype=float)
    return [{"t": "lin", "h": [float(v) for v in row], "h0": 0.0 if h0 is None else float(h0[i])} for i, row in enumerate(h)]


def linear_observation(h, r, y, prefix="m"):
    return StubObservation(StubMeasurement(linear_specs(h), prefix), r, y)


def spec_observation(specs, r, y, prefix="m"):
    return StubObservation(StubMeasurement(specs, prefix), r, y)


# ---------------------------------------------------------------------------------------------
# filter construction
# ---------------------------------------------------------------------------------------------
def make_ukf(x, p, dyn, q, resample, alpha, beta, kappa, t0=0.0):
    from resonaate.estimation.kalman.unscented_kalman_filter import UnscentedKalmanFilter
    from resonaate.physics.time.stardate import ScenarioTime

    return UnscentedKalmanFilter(
        tgt_id=10001,
        time=ScenarioTime(t0),
        est_x=np.array(x) if getattr(x, "dtype", None) is not None and x.dtype.kind == "i" else np.array(x, dtype=float),
        est_p=np.array(p, dtype=float),
        dynamics=dyn,
        q_matrix=np.array(q, dtype=float),
        maneuver_detection=None,
        initial_orbit_determination=False,
        adaptive_estimation=False,
        resample=bool(resample),
        alpha=alpha,
        beta=beta,
        kappa=kappa,
    )


def scenario_time(t):
    from resonaate.physics.time.stardate import ScenarioTime

    return ScenarioTime(float(t))
