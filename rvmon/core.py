"""Core of the runtime-monitoring framework: verdicts, evidence, seeds, sharding, findings.

A property module ``rvmon.props.cNN`` exposes

    LEVEL      : evidence level string (default "exploration")
    RULE       : how cases are generated and what makes one non-trivial
    ASSUME     : list of assumptions
    SHARDS     : {"quick": n, "thorough": n}   (number of subprocesses)
    DECIDING   : names of monitors that must have been evaluated (>0) for a "held" verdict
    def run(ctx): ...        # drives the workload for ctx.shard of ctx.nshards
    def replay(ctx, case): ...  # optional, re-executes a recorded witness case

The module calls ``ctx.case(key, nontrivial=...)``, ``ctx.mon(name)``, ``ctx.sample(obj)`` and
``ctx.violation(key, what, witness)``.  Verdicts are three-valued (held / violated / inconclusive).
"""

from __future__ import annotations

import faulthandler
import hashlib
import importlib
import json
import os
import random
import subprocess
import sys
import time
import traceback
from pathlib import Path

VERIF = Path(__file__).resolve().parent.parent
GUARD = "RESONAATE_VERIF"
MAX_SAMPLES = 12
MAX_WITNESS_PER_KEY = 3


def repo_src() -> str:
    return os.environ.get("RESONAATE_SRC", "/repo/src")


def install_paths() -> None:
    """Make the repository under test importable from its *current working tree*."""
    src = repo_src()
    if src in sys.path:
        sys.path.remove(src)
    sys.path.insert(0, src)
    deps = VERIF / ".deps"
    if deps.is_dir() and str(deps) not in sys.path:
        sys.path.append(str(deps))


def _h64(obj) -> int:
    if not isinstance(obj, (bytes, bytearray)):
        obj = json.dumps(obj, sort_keys=True, default=_jd).encode()
    return int.from_bytes(hashlib.blake2b(obj, digest_size=8).digest(), "little")


def _jd(o):
    """JSON default: numpy and friends."""
    try:
        import numpy as np

        if isinstance(o, np.ndarray):
            return o.tolist()
        if isinstance(o, (np.floating,)):
            return float(o)
        if isinstance(o, (np.integer,)):
            return int(o)
        if isinstance(o, (np.bool_,)):
            return bool(o)
    except Exception:  # noqa: BLE001
        pass
    if isinstance(o, (set, frozenset)):
        return sorted(o, key=str)
    if isinstance(o, bytes):
        return o.hex()
    if isinstance(o, complex):
        return [o.real, o.imag]
    return repr(o)


def dumps(obj, **kw) -> str:
    return json.dumps(obj, default=_jd, **kw)


class Ctx:
    """Per-shard run context handed to the property module."""

    def __init__(self, pid: str, tier: str, seed: int, shard: int = 0, nshards: int = 1):
        self.pid, self.tier, self.seed = pid, tier, int(seed)
        self.shard, self.nshards = shard, nshards
        self.evaluations = 0
        self.nontrivial: set[int] = set()
        self.samples: list = []
        self.monitors: dict[str, int] = {}
        self.violations: list[dict] = []
        self._viol_per_key: dict[str, int] = {}
        self.viol_counts: dict[str, int] = {}
        self.inconclusive: list[str] = []
        self.extra: dict = {}
        self.t0 = time.time()
        self.deadline = None  # wall-clock budget for the workload (soft)
        self._sample_rng = random.Random(self.seed * 7919 + shard)

    # ---- seeds -----------------------------------------------------------------------------
    def rng(self, stream: str = ""):
        import numpy as np

        return np.random.default_rng([self.seed, self.shard, _h64(stream) & 0xFFFFFFFF])

    def pyrng(self, stream: str = "") -> random.Random:
        return random.Random(f"{self.seed}/{self.shard}/{stream}")

    @property
    def quick(self) -> bool:
        return self.tier == "quick"

    def scale(self, quick: int, thorough: int) -> int:
        """Number of cases for *this shard*."""
        n = quick if self.quick else thorough
        return max(1, -(-n // self.nshards))

    def time_left(self) -> float:
        if self.deadline is None:
            return 1e9
        return self.deadline - time.time()

    # ---- recording -------------------------------------------------------------------------
    def case(self, key=None, nontrivial: bool = True, sample=None) -> None:
        self.evaluations += 1
        if nontrivial:
            self.nontrivial.add(_h64(key if key is not None else (self.shard, self.evaluations)))
        if sample is not None:
            self.sample(sample)

    def sample(self, obj) -> None:
        if len(self.samples) < MAX_SAMPLES:
            self.samples.append(obj)
        elif self._sample_rng.random() < 0.002:
            self.samples[self._sample_rng.randrange(MAX_SAMPLES)] = obj

    def mon(self, name: str, n: int = 1) -> None:
        self.monitors[name] = self.monitors.get(name, 0) + n

    def note(self, name: str, value) -> None:
        self.extra[name] = value

    def count(self, name: str, n: int = 1) -> None:
        self.extra[name] = self.extra.get(name, 0) + n

    def add_to_set(self, name: str, item) -> None:
        s = self.extra.setdefault(name, [])
        if item not in s and len(s) < 5000:
            s.append(item)

    def violation(self, key: str, what: str, witness: dict | None = None) -> None:
        """Record a violation with mechanism key ``key`` (never derived from random values)."""
        self.viol_counts[key] = self.viol_counts.get(key, 0) + 1
        n = self._viol_per_key.get(key, 0)
        if n < MAX_WITNESS_PER_KEY:
            self._viol_per_key[key] = n + 1
            self.violations.append({"key": key, "what": what, "witness": witness or {}})

    def inconclusive_because(self, reason: str) -> None:
        if reason not in self.inconclusive:
            self.inconclusive.append(reason)

    def check(self, cond: bool, key: str, what: str, witness: dict | None = None, mon: str | None = None) -> bool:
        if mon:
            self.mon(mon)
        if not cond:
            self.violation(key, what, witness)
        return bool(cond)

    # ---- serialisation ---------------------------------------------------------------------
    def to_json(self) -> dict:
        return {
            "evaluations": self.evaluations,
            "nontrivial": sorted(self.nontrivial),
            "samples": self.samples,
            "monitors": self.monitors,
            "violations": self.violations,
            "viol_counts": self.viol_counts,
            "inconclusive": self.inconclusive,
            "extra": self.extra,
            "wall_s": time.time() - self.t0,
        }


def load_module(pid: str):
    return importlib.import_module(f"rvmon.props.{pid.lower()}")


def run_shard(pid: str, tier: str, seed: int, shard: int, nshards: int, out: str, budget: float) -> None:
    faulthandler.enable()
    install_paths()
    os.environ[GUARD] = "1"
    ctx = Ctx(pid, tier, seed, shard, nshards)
    ctx.deadline = time.time() + budget
    if os.environ.get("VERIF_REACH"):  # opt-in: record which repository functions the workload enters (tools/reach_report.py)
        from . import reach

        reach.install(os.environ["VERIF_REACH"], os.path.realpath(repo_src()))
    try:
        mod = load_module(pid)
        mod.run(ctx)
    except Exception:  # noqa: BLE001
        ctx.inconclusive_because("harness exception in shard %d: %s" % (shard, traceback.format_exc()[-1500:]))
    Path(out).write_text(dumps(ctx.to_json()))


# ---------------------------------------------------------------------------------------------
SHARD_TIME_ZONES = ("UTC", "EST5EDT,M3.2.0,M11.1.0", "UTC", "NZST-12NZDT,M9.5.0,M4.1.0/3")

# parent: shard fan-out, merge, findings, evidence, verdict
# ---------------------------------------------------------------------------------------------
def load_findings() -> list[dict]:
    p = VERIF / "known_findings.json"
    if not p.exists():
        return []
    return json.loads(p.read_text()).get("findings", [])


def _merge_extra(dst: dict, src: dict) -> None:
    for k, v in src.items():
        if k not in dst:
            dst[k] = v
        elif isinstance(v, bool) or isinstance(dst[k], bool):
            dst[k] = dst[k] and v
        elif isinstance(v, (int, float)) and isinstance(dst[k], (int, float)):
            dst[k] = dst[k] + v
        elif isinstance(v, list) and isinstance(dst[k], list):
            for it in v:
                if it not in dst[k] and len(dst[k]) < 5000:
                    dst[k].append(it)
        elif isinstance(v, dict) and isinstance(dst[k], dict):
            _merge_extra(dst[k], v)


def main_check(pid: str, tier: str, seed: int, replay: str | None = None) -> int:
    install_paths()
    os.environ[GUARD] = "1"
    pid = pid.upper()
    mod = load_module(pid)
    t0 = time.time()
    level = getattr(mod, "LEVEL", "exploration")
    shards_cfg = getattr(mod, "SHARDS", {"quick": 1, "thorough": 16})
    nshards = int(os.environ.get("VERIF_SHARDS", shards_cfg.get(tier, 1)))
    budget_cfg = getattr(mod, "BUDGET_S", {"quick": 120, "thorough": 1500})
    budget = float(os.environ.get("VERIF_BUDGET_S", budget_cfg.get(tier, 120)))
    scratch = VERIF / "scratch" / f"{pid}-{tier}-{os.getpid()}"
    scratch.mkdir(parents=True, exist_ok=True)

    merged = {"evaluations": 0, "nontrivial": set(), "samples": [], "monitors": {}, "violations": [],
              "viol_counts": {}, "inconclusive": [], "extra": {}}
    if replay is not None:
        ctx = Ctx(pid, tier, seed)
        case = json.loads(Path(replay).read_text())
        try:
            mod.replay(ctx, case.get("witness", case))
        except Exception:  # noqa: BLE001
            ctx.inconclusive_because("replay raised: " + traceback.format_exc()[-1500:])
        parts = [ctx.to_json()]
    else:
        procs = []
        for s in range(nshards):
            out = scratch / f"shard{s}.json"
            cmd = [sys.executable, "-m", "rvmon.core", "--shard", pid, tier, str(seed), str(s), str(nshards), str(out), str(budget)]
            env = dict(os.environ)
            env.setdefault("PYTHONHASHSEED", "0")
            env["PYTHONDONTWRITEBYTECODE"] = "1"
            env["OMP_NUM_THREADS"] = env["OPENBLAS_NUM_THREADS"] = env["MKL_NUM_THREADS"] = "1"
            env["PYTHONPATH"] = str(VERIF) + os.pathsep + env.get("PYTHONPATH", "")
            # the process time zone is environment, not input: every second shard runs in a daylight-saving zone (the library
            # works in naive UTC datetimes and must not care); an explicit TZ from the caller wins
            if "TZ" not in os.environ:
                env["TZ"] = SHARD_TIME_ZONES[s % len(SHARD_TIME_ZONES)]
            procs.append((s, out, subprocess.Popen(cmd, cwd=str(VERIF), env=env, stdout=subprocess.PIPE, stderr=subprocess.STDOUT)))
        parts = []
        watchdog = budget * 2.5 + 120
        for s, out, p in procs:
            try:
                so, _ = p.communicate(timeout=max(5.0, watchdog - (time.time() - t0)))
            except subprocess.TimeoutExpired:
                p.kill()
                so, _ = p.communicate()
                merged["inconclusive"].append(f"shard {s} exceeded the wall-clock watchdog ({watchdog:.0f}s)")
                continue
            if p.returncode != 0 or not out.exists():
                tail = (so or b"").decode(errors="replace")[-2000:]
                merged["inconclusive"].append(f"shard {s} died rc={p.returncode}: {tail}")
                continue
            if os.environ.get("VERIF_VERBOSE") and so:
                sys.stdout.write(so.decode(errors="replace"))
            parts.append(json.loads(out.read_text()))
    for part in parts:
        merged["evaluations"] += part["evaluations"]
        merged["nontrivial"].update(part["nontrivial"])
        for smp in part["samples"]:
            if len(merged["samples"]) < MAX_SAMPLES:
                merged["samples"].append(smp)
        for k, v in part["monitors"].items():
            merged["monitors"][k] = merged["monitors"].get(k, 0) + v
        for k, v in part["viol_counts"].items():
            merged["viol_counts"][k] = merged["viol_counts"].get(k, 0) + v
        merged["violations"].extend(part["violations"])
        for r in part["inconclusive"]:
            if r not in merged["inconclusive"]:
                merged["inconclusive"].append(r)
        _merge_extra(merged["extra"], part["extra"])
    import shutil

    shutil.rmtree(scratch, ignore_errors=True)
    try:
        (VERIF / "scratch").rmdir()
    except OSError:
        pass

    # ---- classify violations against known findings ----------------------------------------
    findings = [f for f in load_findings() if f.get("property") == pid]
    open_keys = {f["key"]: f for f in findings if f.get("status", "open") == "open"}
    real, known = [], {}
    for v in merged["violations"]:
        if v["key"] in open_keys:
            known.setdefault(v["key"], v)
        else:
            real.append(v)
    lines = []
    for k, v in known.items():
        lines.append(f"KNOWN-FINDING: property={pid} {open_keys[k].get('what', v['what'])} [key={k}, seen {merged['viol_counts'].get(k, 0)}x]")
    out_root = Path(os.environ.get("VERIF_OUT") or VERIF)  # scratch-tree runs (tools/confirm_seed.sh, tools/try_mut.py) keep their output out of /verif
    rdir = out_root / "replays" / pid
    seen_keys = {}
    for v in real:
        n = seen_keys.get(v["key"], 0)
        seen_keys[v["key"]] = n + 1
        if n >= 1:
            continue
        rdir.mkdir(parents=True, exist_ok=True)
        safe = "".join(c if c.isalnum() or c in "-_." else "_" for c in v["key"])[:80]
        path = rdir / f"{safe}-seed{seed}.json"
        path.write_text(dumps({"property": pid, "tier": tier, "seed": seed, **v}, indent=1))
        lines.append(f"VIOLATION property={pid} replay={path} key={v['key']} :: {v['what']}"[:1500])

    # ---- inconclusive: deciding monitors never reached --------------------------------------
    deciding = getattr(mod, "DECIDING", [])
    if replay is None:
        for name in deciding:
            if merged["monitors"].get(name, 0) == 0:
                merged["inconclusive"].append(f"deciding monitor '{name}' was never evaluated")
        if len(merged["nontrivial"]) < 2:
            merged["inconclusive"].append("fewer than two distinct non-trivial cases")

    wall = time.time() - t0
    n_real = sum(c for k, c in merged["viol_counts"].items() if k not in open_keys)
    verdict = "violated" if real else ("inconclusive" if merged["inconclusive"] else "held")
    coverage = {
        "evaluations": int(merged["evaluations"]),
        "distinct_nontrivial": len(merged["nontrivial"]),
        "rule": getattr(mod, "RULE", ""),
        "samples": merged["samples"] or ["<none>"],
        "monitor_evaluations": merged["monitors"],
        "shards": nshards,
        "verdict": verdict,
        "violation_keys": merged["viol_counts"],
        "known_findings_matched": sorted(known),
        "inconclusive_reasons": [r[:600] for r in merged["inconclusive"]],
        "repo_src": repo_src(),
    }
    coverage.update(merged["extra"])
    coverage["shard_process_time_zones"] = [os.environ["TZ"]] if "TZ" in os.environ else sorted(set(SHARD_TIME_ZONES[i % len(SHARD_TIME_ZONES)] for i in range(nshards)))
    evidence = {
        "property_id": pid,
        "tier": tier,
        "seed": int(seed),
        "level": level,
        "coverage": coverage,
        "assumptions": getattr(mod, "ASSUME", []),
        "wall_s": round(wall, 2),
        "violations": int(n_real),
    }
    if replay is None:
        (out_root / "evidence").mkdir(parents=True, exist_ok=True)
        (out_root / "evidence" / f"{pid}.json").write_text(dumps(evidence, indent=1) + "\n")
    for ln in lines:
        print(ln)
    mons = ", ".join(f"{k}={v}" for k, v in sorted(merged["monitors"].items()))
    print(f"[{pid} {tier} seed={seed}] verdict={verdict} evaluations={merged['evaluations']} "
          f"distinct_nontrivial={len(merged['nontrivial'])} wall={wall:.1f}s monitors: {mons}")
    for r in merged["inconclusive"]:
        print(f"INCONCLUSIVE property={pid} reason={r[:1500]}")
    if real:
        return 1
    if merged["inconclusive"]:
        return 2
    return 0


if __name__ == "__main__":
    if len(sys.argv) > 1 and sys.argv[1] == "--shard":
        _, _, pid, tier, seed, shard, nshards, out, budget = sys.argv
        run_shard(pid, tier, int(seed), int(shard), int(nshards), out, float(budget))
        sys.exit(0)
    import argparse

    ap = argparse.ArgumentParser()
    ap.add_argument("pid")
    ap.add_argument("tier", nargs="?", default=os.environ.get("VERIF_TIER", "quick"), choices=["quick", "thorough"])
    ap.add_argument("--seed", type=int, default=int(os.environ.get("VERIF_SEED", "0")))
    ap.add_argument("--replay", default=None)
    a = ap.parse_args()
    sys.exit(main_check(a.pid, a.tier, a.seed, a.replay))
