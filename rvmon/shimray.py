"""Deterministic in-process stand-in for the part of ``ray`` the repository uses.

Installed as ``sys.modules["ray"]`` *before* ``resonaate`` is imported (only under the guard).
Semantics reproduced (each measured against real Ray 2.43 in this sandbox):

* arguments / results / ``put`` values cross a pickle-protocol-5 boundary whose out-of-band
  buffers come back **read-only**; every ``get`` returns a fresh copy;
* ObjectRefs nested inside a submission stay refs and are resolved by ``get`` inside the job;
* a remote function is a pure function of its pickled submission.  It is executed eagerly at
  submission, in submission order, with numpy's global RNG seeded per job; only *completion
  order* is left open and is decided by the active scheduler inside ``wait``.

The real ``JobExecutor.join()`` loop runs unmodified on top of this.
"""

from __future__ import annotations

import itertools
import os
import pickle
import random as _pyrandom
import sys
import types

import numpy as _np

if not os.environ.get("RESONAATE_VERIF"):
    raise ImportError("rvmon.shimray may only be used under RESONAATE_VERIF=1")

_STORE: dict[int, "ObjectRef"] = {}
_COUNTER = itertools.count(1)


class _State:
    scheduler = None  # callable(list[ObjectRef]) -> index of the ref that "finishes first"
    exec_order = None  # None: a job runs at submission (submission order). callable(list[ObjectRef]) -> list of the same
    #                    refs in the order in which the not-yet-executed jobs of a batch are to be executed (lazy mode)
    job_log: list = []  # (func name, job serial)
    exec_log: list = []  # (func name, serials in execution order) per lazily executed batch
    wait_log: list = []  # (func name, tuple(pending serials), chosen serial)
    base_seed = 0
    job_serial = 0
    initialized = False
    actors: dict = {}
    fail_jobs = None  # optional set of (function name, n): the n-th executed job of that function raises on its "worker"
    func_calls: dict = {}
    on_job = None  # optional callback(func_name, serial, submission_args) before executing a job
    after_job = None


STATE = _State()


def _roundtrip(obj):
    bufs = []
    data = pickle.dumps(obj, protocol=5, buffer_callback=bufs.append)
    return data, [bytes(b.raw()) for b in bufs]


def _load(data, bufs):
    return pickle.loads(data, buffers=bufs)


def _lookup(ref_id):
    return _STORE[ref_id]


class ObjectRef:
    __slots__ = ("id", "data", "bufs", "func", "serial", "error", "pending", "__weakref__")

    def __init__(self, data=None, bufs=None, func=None, serial=None, error=None, pending=None):
        self.id = next(_COUNTER)
        self.data, self.bufs, self.func, self.serial, self.error = data, bufs, func, serial, error
        self.pending = pending  # (RemoteFunction, args, kwargs) of a job that has not been executed yet (lazy mode)
        _STORE[self.id] = self

    def __reduce__(self):
        return (_lookup, (self.id,))

    def __hash__(self):
        return hash(self.id)

    def __eq__(self, other):
        return isinstance(other, ObjectRef) and other.id == self.id

    def __repr__(self):
        return f"ObjectRef(shim:{self.id}:{self.func}:{self.serial})"


def put(value):
    data, bufs = _roundtrip(value)
    return ObjectRef(data, bufs, func="put")


def _ensure(ref):
    """Execute a lazily submitted job if it has not run yet."""
    if ref.pending is not None:
        rf, a, k = ref.pending
        ref.pending = None
        rf._execute(ref, a, k)  # noqa: SLF001


def _get_one(ref):
    if not isinstance(ref, ObjectRef):
        raise TypeError(f"ray.get expects ObjectRef, got {type(ref)}")
    _ensure(ref)
    if ref.error is not None:
        raise _as_task_error(ref.func, ref.error) from ref.error
    return _load(ref.data, ref.bufs)


def get(refs, timeout=None):
    if isinstance(refs, (list, tuple)):
        return [_get_one(r) for r in refs]
    return _get_one(refs)


def wait(refs, num_returns=1, timeout=None, fetch_local=True):
    refs = list(refs)
    if not refs:
        return [], []
    todo = [r for r in refs if r.pending is not None]
    if todo:
        order = list(STATE.exec_order(todo)) if STATE.exec_order is not None else todo
        STATE.exec_log.append((todo[0].func, tuple(r.serial for r in order)))
        for r in order:
            _ensure(r)
    sched = STATE.scheduler
    # like Ray: without a timeout the call blocks until `num_returns` objects are ready; with one it may come back with fewer
    # (here: a single one - the other jobs are "still running"). Which ones are ready first is the scheduler's choice.
    want = max(1, min(int(num_returns), len(refs))) if timeout is None else 1
    ready, rest = [], list(refs)
    while len(ready) < want:
        idx = 0 if sched is None else int(sched(rest))
        idx = max(0, min(idx, len(rest) - 1))
        done = rest.pop(idx)
        STATE.wait_log.append((done.func, tuple(r.serial for r in [done, *rest]), done.serial))
        ready.append(done)
    return ready, rest


class InjectedWorkerFault(RuntimeError):
    pass


class RemoteFunction:
    def __init__(self, func):
        self._function = func
        self.__name__ = getattr(func, "__name__", "remote")
        self.__doc__ = func.__doc__

    def remote(self, *args, **kwargs):
        STATE.job_serial += 1
        serial = STATE.job_serial
        data, bufs = _roundtrip((args, kwargs))
        a, k = _load(data, bufs)
        # top-level ObjectRef arguments are resolved by Ray; nested ones are not
        a = tuple(_get_one(x) if isinstance(x, ObjectRef) else x for x in a)
        STATE.job_log.append((self.__name__, serial))
        ref = ObjectRef(func=self.__name__, serial=serial)
        if STATE.exec_order is not None:
            ref.pending = (self, a, k)  # arguments were pickled at submission, like Ray does
            return ref
        self._execute(ref, a, k)
        return ref

    def _execute(self, ref, a, k):
        serial = ref.serial
        if STATE.on_job is not None:
            STATE.on_job(self.__name__, serial, a)
        st_np = _np.random.get_state()
        st_py = _pyrandom.getstate()
        _np.random.seed([STATE.base_seed & 0xFFFFFFFF, serial & 0xFFFFFFFF, 0xC0FFEE])
        nth = STATE.func_calls.get(self.__name__, 0) + 1
        STATE.func_calls[self.__name__] = nth
        try:
            if STATE.fail_jobs and (self.__name__, nth) in STATE.fail_jobs:
                raise InjectedWorkerFault(f"injected worker fault in job {nth} of {self.__name__}")
            result = self._function(*a, **k)
            ref.data, ref.bufs = _roundtrip(result)
        except Exception as err:  # noqa: BLE001 - surfaced on get(), like a RayTaskError
            ref.error = err
        finally:
            _np.random.set_state(st_np)
            _pyrandom.setstate(st_py)
        if STATE.after_job is not None:
            STATE.after_job(self.__name__, serial, ref)

    def options(self, **_kw):
        return self

    def __call__(self, *a, **k):
        raise TypeError("Remote functions cannot be called directly; use .remote()")


class _ActorMethod:
    def __init__(self, inst, name):
        self._inst, self._name = inst, name

    def remote(self, *args, **kwargs):
        data, bufs = _roundtrip((args, kwargs))
        a, k = _load(data, bufs)
        res = getattr(self._inst, self._name)(*a, **k)
        rdata, rbufs = _roundtrip(res)
        return ObjectRef(rdata, rbufs, func=f"actor.{self._name}")


class _ActorHandle:
    def __init__(self, inst):
        self._inst = inst

    def __getattr__(self, name):
        if name.startswith("__"):
            raise AttributeError(name)
        return _ActorMethod(self._inst, name)


class _ActorClass:
    def __init__(self, cls, opts=None):
        self._cls, self._opts = cls, opts or {}

    def options(self, **opts):
        return _ActorClass(self._cls, opts)

    def remote(self, *args, **kwargs):
        name = self._opts.get("name")
        if name is not None and self._opts.get("get_if_exists") and name in STATE.actors:
            return STATE.actors[name]
        handle = _ActorHandle(self._cls(*args, **kwargs))
        if name is not None:
            STATE.actors[name] = handle
        return handle


def remote(*args, **kwargs):
    def deco(obj):
        if isinstance(obj, type):
            return _ActorClass(obj)
        return RemoteFunction(obj)

    if len(args) == 1 and not kwargs and (callable(args[0])):
        return deco(args[0])
    return deco


def init(*_a, **_k):
    STATE.initialized = True


def is_initialized():
    return STATE.initialized


def shutdown():
    STATE.initialized = False


def timeline(*_a, **_k):
    return None


def reset(base_seed: int = 0, scheduler=None, keep_actors: bool = False, exec_order=None):
    """Start a fresh 'cluster': empty object store, job counter and logs."""
    _STORE.clear()
    STATE.job_log = []
    STATE.wait_log = []
    STATE.job_serial = 0
    STATE.base_seed = int(base_seed)
    STATE.scheduler = scheduler
    STATE.exec_order = exec_order
    STATE.exec_log = []
    STATE.on_job = None
    STATE.after_job = None
    STATE.fail_jobs = None
    STATE.func_calls = {}
    if not keep_actors:
        STATE.actors = {}


def gc_store():
    """Drop stored objects (called between steps by the harness to bound memory)."""
    _STORE.clear()


# ---- execution orders (lazy mode) ---------------------------------------------------------------
def exec_reverse(refs):
    return list(reversed(refs))


def make_exec_random(seed):
    rng = _pyrandom.Random(seed)

    def _e(refs):
        lst = list(refs)
        rng.shuffle(lst)
        return lst

    return _e


def exec_submission(refs):
    return list(refs)


# ---- schedulers -----------------------------------------------------------------------------
def sched_identity(refs):
    return 0


def sched_reverse(refs):
    return len(refs) - 1


def make_sched_random(seed):
    rng = _pyrandom.Random(seed)

    def _s(refs):
        return rng.randrange(len(refs))

    return _s


def make_sched_script(script: dict | None = None, default="identity", seed=0):
    """General scheduler.

    ``script`` maps ``(func_name, batch_index)`` or ``func_name`` (= every batch of matching size)
    to a permutation of submission positions 0..n-1: the jobs of that batch complete in that
    order.  Unscripted batches follow ``default``: "identity", "reverse" or "random".
    A *batch* is one ``join()``: a maximal run of ``wait`` calls on a shrinking set of refs.
    The scheduler records every batch it saw in ``.batches`` as (func, size, order-used).
    """
    script = dict(script or {})
    rng = _pyrandom.Random(seed)
    per_func: dict = {}
    batches: list = []

    def _s(refs):
        fn = refs[0].func
        st = per_func.setdefault(fn, {"batch": -1, "last": -1, "order": [], "plan": None, "pos": 0})
        serials = [r.serial for r in refs]
        if min(serials) > st["last"]:
            st["batch"] += 1
            st["order"] = sorted(serials)
            st["last"] = max(serials)
            st["pos"] = 0
            n = len(serials)
            plan = script.get((fn, st["batch"]), script.get(fn))
            if plan is not None and len(plan) != n:
                plan = None
            if plan is None:
                if default == "reverse":
                    plan = tuple(range(n - 1, -1, -1))
                elif default == "random":
                    lst = list(range(n))
                    rng.shuffle(lst)
                    plan = tuple(lst)
                else:
                    plan = tuple(range(n))
            st["plan"] = tuple(plan)
            batches.append((fn, n, st["plan"]))
        want = st["order"][st["plan"][st["pos"]]]
        st["pos"] += 1
        return serials.index(want)

    _s.batches = batches
    return _s


def install():
    """Register this module as ``ray`` (must run before resonaate is imported)."""
    if "ray" in sys.modules and sys.modules["ray"] is not sys.modules[__name__]:
        if "resonaate" in sys.modules:
            raise RuntimeError("resonaate was imported before the ray shim was installed")
    mod = sys.modules[__name__]
    sys.modules["ray"] = mod
    sys.modules["ray.exceptions"] = mod.exceptions
    return mod


ObjectID = ObjectRef
__version__ = "shim"


class RayTaskError(Exception):
    """What ``ray.get`` raises for a job that raised on its worker (``.cause`` is the original exception)."""

    def __init__(self, function_name="", traceback_str="", cause=None):
        super().__init__(f"{function_name}: {cause!r}")
        self.function_name, self.traceback_str, self.cause = function_name, traceback_str, cause


def _as_task_error(func_name, err):
    """Like Ray's ``as_instanceof_cause``: an exception that is both a RayTaskError and an instance of the cause's class."""
    base = type(err)
    try:
        # (named like its cause, so that mechanism keys built from exception names do not depend on which side of the job boundary raised)
        cls = type(base.__name__, (RayTaskError, base), {"__init__": lambda self: None, "__str__": lambda self: f"{func_name}: {err!r}"})
        out = cls()
        out.args = getattr(err, "args", ())
    except TypeError:
        out = RayTaskError(func_name, "", err)
        return out
    out.function_name, out.traceback_str, out.cause = func_name, "", err
    return out


exceptions = types.ModuleType("ray.exceptions")
exceptions.RayTaskError = RayTaskError
exceptions.RayError = Exception
exceptions.GetTimeoutError = TimeoutError
sys.modules.setdefault("ray.exceptions", exceptions) if False else None
