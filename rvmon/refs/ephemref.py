"""Independent ephemeris references (no ``resonaate`` import).

* ``sun_j2000`` / ``moon_j2000``: Vallado's low-precision analytic Sun (Alg. 29, ~0.01 deg) and Moon
  (Alg. 31, ~0.3 deg / 0.2 deg) referred to the mean equator and equinox *of date*, rotated to J2000
  with the IAU-1976 precession angles (22 years of precession are 0.3 deg - not negligible against
  the Sun tolerance).
* ``cheb_position``: own Clenshaw evaluation of a JPL Chebyshev segment file ``c-t-jd0-len.npy``
  (array layout (3, n_intervals, n_coefficients), natural coefficient order) and
  ``geocentric``: the chain SSB->body - SSB->EMB - EMB->Earth  (Moon: EMB->Moon - EMB->Earth).
"""

from __future__ import annotations

import math
import os

import numpy as np

RE_KM = 6378.1363
AU_KM = 149597870.7
DEG = math.pi / 180.0


def _rot2(a):
    c, s = math.cos(a), math.sin(a)
    return np.array([[c, 0.0, -s], [0.0, 1.0, 0.0], [s, 0.0, c]])


def _rot3(a):
    c, s = math.cos(a), math.sin(a)
    return np.array([[c, s, 0.0], [-s, c, 0.0], [0.0, 0.0, 1.0]])


def precession_mod_to_j2000(jd):
    """Matrix taking mean-of-date coordinates to mean-of-J2000 (IAU 1976, Lieske)."""
    t = (jd - 2451545.0) / 36525.0
    arc = DEG / 3600.0
    zeta = (2306.2181 * t + 0.30188 * t * t + 0.017998 * t**3) * arc
    theta = (2004.3109 * t - 0.42665 * t * t - 0.041833 * t**3) * arc
    z = (2306.2181 * t + 1.09468 * t * t + 0.018203 * t**3) * arc
    return _rot3(zeta) @ _rot2(-theta) @ _rot3(z)


def sun_mod(jd):
    t = (jd - 2451545.0) / 36525.0
    lam_m = (280.460 + 36000.771 * t) % 360.0
    m = ((357.5291092 + 35999.05034 * t) % 360.0) * DEG
    lam = (lam_m + 1.914666471 * math.sin(m) + 0.019994643 * math.sin(2 * m)) * DEG
    r = 1.000140612 - 0.016708617 * math.cos(m) - 0.000139589 * math.cos(2 * m)
    eps = (23.439291 - 0.0130042 * t) * DEG
    return r * AU_KM * np.array([math.cos(lam), math.cos(eps) * math.sin(lam), math.sin(eps) * math.sin(lam)])


def sun_j2000(jd):
    return precession_mod_to_j2000(jd) @ sun_mod(jd)


def moon_mod(jd):
    t = (jd - 2451545.0) / 36525.0

    def sd(x):
        return math.sin((x % 360.0) * DEG)

    def cd(x):
        return math.cos((x % 360.0) * DEG)

    lam = (218.32 + 481267.8813 * t + 6.29 * sd(134.9 + 477198.85 * t) - 1.27 * sd(259.2 - 413335.38 * t)
           + 0.66 * sd(235.7 + 890534.23 * t) + 0.21 * sd(269.9 + 954397.70 * t) - 0.19 * sd(357.5 + 35999.05 * t)
           - 0.11 * sd(186.6 + 966404.05 * t))
    phi = (5.13 * sd(93.3 + 483202.03 * t) + 0.28 * sd(228.2 + 960400.87 * t) - 0.28 * sd(318.3 + 6003.18 * t)
           - 0.17 * sd(217.6 - 407332.20 * t))
    par = (0.9508 + 0.0518 * cd(134.9 + 477198.85 * t) + 0.0095 * cd(259.2 - 413335.38 * t)
           + 0.0078 * cd(235.7 + 890534.23 * t) + 0.0028 * cd(269.9 + 954397.70 * t))
    eps = (23.439291 - 0.0130042 * t) * DEG
    lam, phi, par = (lam % 360.0) * DEG, phi * DEG, par * DEG
    r = RE_KM / math.sin(par)
    cl, sl, cp, sp_ = math.cos(lam), math.sin(lam), math.cos(phi), math.sin(phi)
    ce, se = math.cos(eps), math.sin(eps)
    return r * np.array([cp * cl, ce * cp * sl - se * sp_, se * cp * sl + ce * sp_])


def moon_j2000(jd):
    return precession_mod_to_j2000(jd) @ moon_mod(jd)


def angle_deg(a, b):
    a, b = np.asarray(a, dtype=float), np.asarray(b, dtype=float)
    return math.degrees(math.atan2(float(np.linalg.norm(np.cross(a, b))), float(np.dot(a, b))))


# ---------------------------------------------------------------------------------------------
# Chebyshev segment files
# ---------------------------------------------------------------------------------------------
_SEG: dict = {}

# (centre, target) chain per body: sum of +1 / -1 weighted segments gives the geocentric vector
CHAINS = {
    "sun": [((0, 10), 1), ((0, 3), -1), ((3, 399), -1)],
    "moon": [((3, 301), 1), ((3, 399), -1)],
    "venus": [((0, 2), 1), ((0, 3), -1), ((3, 399), -1)],
    "jupiter": [((0, 5), 1), ((0, 3), -1), ((3, 399), -1)],
    "saturn": [((0, 6), 1), ((0, 3), -1), ((3, 399), -1)],
}


def load_segments(directory):
    if directory in _SEG:
        return _SEG[directory]
    segs = {}
    for name in os.listdir(directory):
        if not name.endswith(".npy"):
            continue
        parts = name[:-4].split("-")
        c, t = int(parts[0]), int(parts[1])
        jd0, length = float(parts[2]), float(parts[3])
        segs[(c, t)] = (jd0, length, np.load(os.path.join(directory, name)))
    _SEG[directory] = segs
    return segs


def cheb_position(seg, jd):
    jd0, length, coef = seg
    x = (jd - jd0) / length
    k = int(math.floor(x))
    k = min(max(k, 0), coef.shape[1] - 1)
    tau = 2.0 * (x - k) - 1.0
    out = np.empty(3)
    for comp in range(3):
        c = coef[comp, k]
        b1 = b2 = 0.0
        for j in range(len(c) - 1, 0, -1):  # Clenshaw
            b1, b2 = 2.0 * tau * b1 - b2 + c[j], b1
        out[comp] = tau * b1 - b2 + c[0]
    return out


def geocentric(directory, body, jd):
    segs = load_segments(directory)
    out = np.zeros(3)
    for key, sign in CHAINS[body]:
        out = out + sign * cheb_position(segs[key], jd)
    return out


def interval_days(directory, body):
    segs = load_segments(directory)
    return sorted({segs[key][1] for key, _ in CHAINS[body]})
