"""Independent integer calendar arithmetic (no code shared with the repository).

Julian Day Number via the Fliegel-Van Flandern integer formula; exact rational Julian dates via
``fractions.Fraction``; expected step indices from integer (micro)seconds.
"""

from __future__ import annotations

from datetime import datetime, timedelta
from fractions import Fraction


def jdn(y: int, m: int, d: int) -> int:
    """Julian day number of the civil (Gregorian) date at 12:00 UT."""
    a = (14 - m) // 12
    yy = y + 4800 - a
    mm = m + 12 * a - 3
    return d + (153 * mm + 2) // 5 + 365 * yy + yy // 4 - yy // 100 + yy // 400 - 32045


def jd_exact(t: datetime) -> Fraction:
    """Exact (rational) Julian date of a naive UTC datetime."""
    secs = t.hour * 3600 + t.minute * 60 + t.second
    return Fraction(jdn(t.year, t.month, t.day)) - Fraction(1, 2) + Fraction(secs * 1_000_000 + t.microsecond, 86_400_000_000)


def jd_float(t: datetime) -> float:
    return float(jd_exact(t))


def datetime_from_jd_nearest_second(jd: float) -> datetime:
    """Nearest whole-second datetime to a (float) Julian date, computed in integers."""
    fr = Fraction(jd) + Fraction(1, 2)
    day = fr.numerator // fr.denominator
    rem = fr - day
    secs = int(round(rem * 86400))
    # invert jdn
    a = day + 32044
    b = (4 * a + 3) // 146097
    c = a - 146097 * b // 4
    d = (4 * c + 3) // 1461
    e = c - 1461 * d // 4
    m = (5 * e + 2) // 153
    dd = e - (153 * m + 2) // 5 + 1
    mm = m + 3 - 12 * (m // 10)
    yy = 100 * b + d - 4800 + m // 10
    return datetime(yy, mm, dd) + timedelta(seconds=secs)


def expected_step(event_offset_us: int, step_us: int) -> int:
    """Index k>=1 of the step whose interval ((k-1)*step, k*step] contains the offset (>0)."""
    return -(-event_offset_us // step_us)


def is_leap(y: int) -> bool:
    return y % 4 == 0 and (y % 100 != 0 or y % 400 == 0)
