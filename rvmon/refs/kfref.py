"""Textbook Kalman filter reference (pure numpy, no resonaate imports).

Contents
  ut_weights          scaled-unscented-transform weights / spread (Julier 2002, Wan & van der Merwe 2001)
  kf_predict          x' = F x,  P' = F P F^T + Q
  kf_update           Kalman measurement update in gain form  P+ = P' - K S K^T
  noredraw_update     the *documented no-redraw variant* of the unscented update: the sigma points that were pushed
                      through the dynamics are reused for the measurement step, so they carry F P F^T (not P' = F P F^T + Q):
                          S = H (F P F^T) H^T + R,  C = (F P F^T) H^T,  K = C S^-1,  P+ = P' - K S K^T
  stale_cross_update  the *defective* combination (fresh sigma points for the measurement residuals, old state residuals);
                      only used to classify a mismatch by mechanism, never as an oracle
  sigma_update        generic sigma-point measurement update with wrap-aware (circular) treatment of flagged components,
                      written with complex exponentials / IEEE remainder so that it has no seam anywhere
  wrap_pm, wrap_2pi, circ_dist, exact_residual   seam-free angle helpers (exact rational arithmetic for the last one)
"""

from __future__ import annotations

import math
from fractions import Fraction

import numpy as np

TWOPI = 2.0 * math.pi
EPS = float(np.finfo(float).eps)


# ---------------------------------------------------------------------------------------------
# unscented transform
# ---------------------------------------------------------------------------------------------
def ut_weights(n: int, alpha: float, beta: float, kappa):
    """Return (wm, wc, gamma) of the scaled unscented transform; kappa=None means 3-n."""
    if kappa is None:
        kappa = 3.0 - n
    lam = alpha * alpha * (n + kappa) - n
    c = n + lam
    wm = np.full(2 * n + 1, 0.5 / c)
    wm[0] = lam / c
    wc = wm.copy()
    wc[0] = wm[0] + (1.0 - alpha * alpha + beta)
    return wm, wc, math.sqrt(c)


# ---------------------------------------------------------------------------------------------
# linear Kalman filter
# ---------------------------------------------------------------------------------------------
def sym(a):
    return 0.5 * (a + a.T)


def kf_predict(x, p, f, q):
    xp = f @ x
    pbar = sym(f @ p @ f.T)
    return xp, pbar + q, pbar


def _gain(c, s):
    # K = C S^-1 through a symmetric solve (no explicit inverse)
    return np.linalg.solve(s.T, c.T).T


def kf_update(xp, pp, h, r, y):
    s = sym(h @ pp @ h.T) + r
    c = pp @ h.T
    k = _gain(c, s)
    nu = y - h @ xp
    x = xp + k @ nu
    p = pp - sym(k @ s @ k.T)
    return {"x": x, "p": p, "k": k, "s": s, "c": c, "nu": nu}


def noredraw_update(xp, pp, pbar, h, r, y):
    """Measurement update with the propagated (not redrawn) sigma points; pbar = F P F^T."""
    s = sym(h @ pbar @ h.T) + r
    c = pbar @ h.T
    k = _gain(c, s)
    nu = y - h @ xp
    x = xp + k @ nu
    p = pp - sym(k @ s @ k.T)
    return {"x": x, "p": p, "k": k, "s": s, "c": c, "nu": nu}


def stale_cross_update(xp, pp, f, l_est, h, r, y):
    """Defect signature: S from sigma points redrawn around (xp, pp) but C from the old state residuals F*L_est."""
    l_pp = np.linalg.cholesky(pp)  # lower triangle, exactly what the filter factorises
    s = sym(h @ pp @ h.T) + r
    c = (f @ l_est) @ (h @ l_pp).T
    k = _gain(c, s)
    nu = y - h @ xp
    return {"x": xp + k @ nu, "p": pp - sym(k @ s @ k.T), "k": k, "s": s, "c": c, "nu": nu}


# ---------------------------------------------------------------------------------------------
# seam-free angle helpers
# ---------------------------------------------------------------------------------------------
def wrap_pm(a: float) -> float:
    """Representative of a (mod 2*pi as a double) in (-pi, pi]; IEEE remainder is exact."""
    r = math.remainder(a, TWOPI)
    if r <= -math.pi:
        r += TWOPI
    return r


def wrap_2pi(a: float) -> float:
    r = math.fmod(a, TWOPI)
    if r < 0.0:
        r += TWOPI
    if r >= TWOPI:
        r = 0.0
    return r


def circ_dist(a: float, b: float) -> float:
    """Distance on the circle between two angles (radians)."""
    return abs(math.remainder(a - b, TWOPI))


_T = Fraction(TWOPI)


def exact_residual(a: float, b: float) -> float:
    """(a - b) reduced modulo the double 2*pi into (-pi, pi], computed in exact rational arithmetic."""
    d = (Fraction(a) - Fraction(b)) % _T  # in [0, T)
    if d > _T / 2:
        d -= _T
    return float(d)


def exact_wrap_2pi(a: float) -> float:
    return float(Fraction(a) % _T)


def circular_mean(theta, w):
    """atan2(sum w sin, sum w cos) and the resultant length relative to sum|w| (conditioning)."""
    s = float(np.dot(w, np.sin(theta)))
    c = float(np.dot(w, np.cos(theta)))
    res = math.hypot(s, c)
    return math.atan2(s, c), res / max(float(np.sum(np.abs(w))), 1e-300)


# ---------------------------------------------------------------------------------------------
# generic sigma-point measurement update (used by C16)
# ---------------------------------------------------------------------------------------------
def sigma_update(xp, pp, x_res, y_sig, wm, wc, ang, r, y):
    """Unscented measurement update from given sigma residuals/measurements.

    x_res : N x S state residuals, y_sig : M x S measurement sigma points, ang : M bools,
    wm/wc : S weights (vectors).  Angular rows use the weighted circular mean (definition) and
    differences reduced with IEEE remainder - no interval convention enters anywhere.
    """
    m, s_ = y_sig.shape
    ybar = np.zeros(m)
    cond = 1.0
    for i in range(m):
        if ang[i]:
            ybar[i], rl = circular_mean(y_sig[i], wm)
            cond = min(cond, rl)
        else:
            ybar[i] = float(np.dot(y_sig[i], wm))
    y_res = np.zeros_like(y_sig, dtype=float)
    for i in range(m):
        if ang[i]:
            y_res[i] = [wrap_pm(v - ybar[i]) for v in y_sig[i]]
        else:
            y_res[i] = y_sig[i] - ybar[i]
    s = sym((y_res * wc) @ y_res.T) + r
    c = (x_res * wc) @ y_res.T
    k = _gain(c, s)
    nu = np.array([wrap_pm(y[i] - ybar[i]) if ang[i] else y[i] - ybar[i] for i in range(m)])
    x = xp + k @ nu
    p = pp - sym(k @ s @ k.T)
    return {"x": x, "p": p, "k": k, "s": s, "c": c, "nu": nu, "ybar": ybar, "y_res": y_res, "resultant": cond}


# ---------------------------------------------------------------------------------------------
# matrix generators / diagnostics shared by the monitors
# ---------------------------------------------------------------------------------------------
def rand_orth(rng, n):
    q, r_ = np.linalg.qr(rng.standard_normal((n, n)))
    return q * np.sign(np.diag(r_) + (np.diag(r_) == 0))


def rand_spd(rng, n, scale, cond):
    """SPD matrix with eigenvalues log-spaced in [scale/cond, scale] and a random eigenbasis."""
    if n == 1:
        return np.array([[float(scale)]])
    ev = scale * np.power(cond, -np.sort(rng.uniform(0.0, 1.0, n)))
    ev[0], ev[-1] = scale, scale / cond
    u = rand_orth(rng, n)
    return sym((u * ev) @ u.T)


def min_eig_sym(a):
    return float(np.linalg.eigvalsh(sym(a))[0])


def asym(a):
    return float(np.max(np.abs(a - a.T))) if a.size else 0.0
