"""Independent force-model reference (no code shared with the repository, no ``resonaate`` import).

* geopotential: the *potential* U of the fully-normalised coefficient file (own parser, own
  fully-normalised derived-Legendre recursion, longitude through Re/Im (x+iy)^m so that U is a
  polynomial expression in x/r, y/r, z/r and 1/r) is differentiated by the **complex-step**
  method (h = 1e-30, exact to rounding) - the repository integrates Cunningham's V/W recursion for
  the acceleration of the un-normalised coefficients instead.
* third body: the direct difference formula mu (d/|d|^3 - s/|s|^3) in extended precision
  (``numpy.longdouble``), which makes its cancellation harmless - the repository uses Vallado's
  cancellation-free q-form.
* shadow: planar two-disc overlap (Montenbruck & Gill 3.4.2, the model the code documents) written
  with half-angle lens segments; apparent separation through atan2.
* cannonball SRP and the Schwarzschild term in the IERS (r, v) form.

Shared with the repository: only physical constants passed in by the caller.
"""

from __future__ import annotations

import math

import numpy as np

H = 1e-30
_LD = np.longdouble


# ---------------------------------------------------------------------------------------------
# coefficient files
# ---------------------------------------------------------------------------------------------
_COEF_CACHE: dict = {}


def load_normalised(path: str, nmax: int = 24):
    """Parse ``n m Cbar Sbar [sigmas]`` rows (any row order, Fortran 'D' exponents accepted)."""
    key = (path, nmax)
    if key in _COEF_CACHE:
        return _COEF_CACHE[key]
    C = [[0.0] * (n + 1) for n in range(nmax + 1)]
    S = [[0.0] * (n + 1) for n in range(nmax + 1)]
    seen = set()
    with open(path, encoding="utf-8") as fh:
        for line in fh:
            tok = line.split()
            if len(tok) < 4:
                continue
            try:
                n, m = int(tok[0]), int(tok[1])
            except ValueError:
                continue
            if n > nmax or m > n or n < 0 or m < 0:
                continue
            C[n][m] = float(tok[2].replace("D", "e").replace("d", "e"))
            S[n][m] = float(tok[3].replace("D", "e").replace("d", "e"))
            seen.add((n, m))
    out = (C, S, seen)
    _COEF_CACHE[key] = out
    return out


# ---------------------------------------------------------------------------------------------
# geopotential
# ---------------------------------------------------------------------------------------------
_REC_CACHE: dict = {}


def _recursion_constants(nmax: int):
    """a[n][m], b[n][m] of Hbar_nm = a (u Hbar_{n-1,m} - b Hbar_{n-2,m}) and the sectorial factors d[m]."""
    if nmax in _REC_CACHE:
        return _REC_CACHE[nmax]
    a = [[0.0] * (n + 1) for n in range(nmax + 1)]
    b = [[0.0] * (n + 1) for n in range(nmax + 1)]
    for n in range(1, nmax + 1):
        for m in range(0, n):
            a[n][m] = math.sqrt((4.0 * n * n - 1.0) / (n * n - m * m))
            b[n][m] = math.sqrt(((n - 1.0) ** 2 - m * m) / (4.0 * (n - 1.0) ** 2 - 1.0)) if n >= 2 else 0.0
    d = [1.0, math.sqrt(3.0)] + [math.sqrt((2.0 * m + 1.0) / (2.0 * m)) for m in range(2, nmax + 1)]
    _REC_CACHE[nmax] = (a, b, d)
    return a, b, d


def potential_nonspherical(x, y, z, mu, radius, C, S, degree, order):
    """U - mu/r for harmonics 2 <= n <= degree, 0 <= m <= min(n, order).

    ``x, y, z`` may be complex numpy arrays (complex-step differentiation).  With s = x/r, t = y/r,
    u = z/r:  Pbar_nm(sin phi) cos(m lambda) = Hbar_nm(u) Re (s + i t)^m  (likewise sin / Im), where
    Hbar_nm is the fully normalised derived Legendre function (Pbar_nm / cos^m phi).
    """
    r = np.sqrt(x * x + y * y + z * z)
    s, t, u = x / r, y / r, z / r
    q = radius / r
    if degree < 2:
        return 0.0 * r
    a, b, d = _recursion_constants(degree)
    mmax = min(order, degree)
    total = 0.0 * r
    # (s + i t)^m by real recurrences (s, t themselves may be complex numbers)
    cm, sm = 1.0 + 0.0 * r, 0.0 * r
    hmm = 1.0 + 0.0 * r  # Hbar_mm
    qn = [None] * (degree + 1)
    acc = 1.0 + 0.0 * r
    for n in range(degree + 1):
        qn[n] = acc
        acc = acc * q
    for m in range(mmax + 1):
        if m > 0:
            cm, sm = cm * s - sm * t, sm * s + cm * t
            hmm = hmm * d[m]
        # column m: n = m, m+1, ..., degree
        h2 = 0.0 * r  # Hbar_{n-2,m}
        h1 = hmm  # Hbar_{n-1,m} starting at n-1 = m
        col = 0.0 * r
        if m >= 2:
            col = col + qn[m] * hmm * (C[m][m] * cm + S[m][m] * sm)
        for n in range(m + 1, degree + 1):
            hn = a[n][m] * (u * h1 - b[n][m] * h2)
            if n >= 2:
                col = col + qn[n] * hn * (C[n][m] * cm + S[n][m] * sm)
            h2, h1 = h1, hn
        total = total + col
    return mu / r * total


def geopotential_accel(r_ecef, mu, radius, C, S, degree, order):
    """grad(U - mu/r) in the Earth-fixed frame by complex-step differentiation."""
    p = np.asarray(r_ecef, dtype=float)
    pts = np.repeat(p[:, None].astype(complex), 3, axis=1)  # column k = point perturbed along axis k
    pts[0, 0] += 1j * H
    pts[1, 1] += 1j * H
    pts[2, 2] += 1j * H
    U = potential_nonspherical(pts[0], pts[1], pts[2], mu, radius, C, S, degree, order)
    return np.imag(U) / H


def geopotential_accel_fd(r_ecef, mu, radius, C, S, degree, order, step=0.5):
    """Same gradient by 8th-order central differences (cross-check of the complex-step route)."""
    w = (4.0 / 5.0, -1.0 / 5.0, 4.0 / 105.0, -1.0 / 280.0)
    p = np.asarray(r_ecef, dtype=float)
    out = np.zeros(3)
    for k in range(3):
        acc = 0.0
        for j, wj in enumerate(w, start=1):
            pp, pm = p.copy(), p.copy()
            pp[k] += j * step
            pm[k] -= j * step
            up = potential_nonspherical(np.array([pp[0]]), np.array([pp[1]]), np.array([pp[2]]), mu, radius, C, S, degree, order)[0]
            um = potential_nonspherical(np.array([pm[0]]), np.array([pm[1]]), np.array([pm[2]]), mu, radius, C, S, degree, order)[0]
            acc += wj * (up - um)
        out[k] = acc / step
    return out


def point_mass(r, mu):
    r = np.asarray(r, dtype=_LD)
    rn = np.sqrt(np.sum(r * r))
    return -_LD(mu) * r / (rn * rn * rn)


# ---------------------------------------------------------------------------------------------
# third bodies
# ---------------------------------------------------------------------------------------------
def third_body_accel(r_sat, r_body, mu_body):
    """mu3 ( (s - r)/|s - r|^3 - s/|s|^3 ), evaluated in extended precision."""
    r = np.asarray(r_sat, dtype=_LD)
    s = np.asarray(r_body, dtype=_LD)
    d = s - r
    dn = np.sqrt(np.sum(d * d))
    sn = np.sqrt(np.sum(s * s))
    return _LD(mu_body) * (d / (dn * dn * dn) - s / (sn * sn * sn))


# ---------------------------------------------------------------------------------------------
# shadow and SRP
# ---------------------------------------------------------------------------------------------
def apparent_geometry(r_sat, r_sun, sun_radius, earth_radius):
    """Apparent radii of Sun and Earth and their apparent separation as seen from the satellite."""
    r = np.asarray(r_sat, dtype=float)
    d = np.asarray(r_sun, dtype=float) - r
    a = math.asin(sun_radius / float(np.linalg.norm(d)))
    b = math.asin(earth_radius / float(np.linalg.norm(r)))
    c = math.atan2(float(np.linalg.norm(np.cross(-r, d))), float(np.dot(-r, d)))
    return a, b, c


def lens_area(a, b, c):
    """Area common to two plane discs of radii a, b whose centres are c apart."""
    if c >= a + b:
        return 0.0
    if c <= abs(a - b):
        return math.pi * min(a, b) ** 2
    # half-angles subtended by the common chord at each centre (law of cosines)
    ca = (c * c + a * a - b * b) / (2.0 * c * a)
    cb = (c * c + b * b - a * a) / (2.0 * c * b)
    ca = max(-1.0, min(1.0, ca))
    cb = max(-1.0, min(1.0, cb))
    al, be = math.acos(ca), math.acos(cb)
    return a * a * (al - math.sin(al) * math.cos(al)) + b * b * (be - math.sin(be) * math.cos(be))


def sun_visible_fraction(r_sat, r_sun, sun_radius, earth_radius):
    """1 - (occulted area)/(area of the solar disc).

    No special case for the sunward side: there the apparent separation exceeds 90 deg and the discs
    cannot overlap for any satellite above the surface.
    """
    r = np.asarray(r_sat, dtype=float)
    s = np.asarray(r_sun, dtype=float)
    a, b, c = apparent_geometry(r, s, sun_radius, earth_radius)
    if c <= b - a:
        return 0.0, (a, b, c)
    frac = 1.0 - lens_area(a, b, c) / (math.pi * a * a)
    return frac, (a, b, c)


def fraction_error_scale(a, b, c):
    """Rounding-error scale of the *textbook* evaluation  A = a^2 acos(x/a) + b^2 acos((c-x)/b) - c y.

    The argument of the second arc cosine is cos(beta) with beta = y/b << 1 (y = half chord), so the arc cosine
    amplifies a rounding error eps to eps*b/y and the term b^2 acos(.) carries eps*b^3/y; relative to the solar
    disc area pi a^2 this is the returned value.  Near tangency y -> sqrt(2 a delta) (delta = angular distance to
    tangency), floored at the resolution of the separation itself.  Returns 0 when the discs are clearly apart or
    the Sun is clearly fully covered.
    """
    eps = 2.220446049250313e-16
    d_ext, d_int = (a + b) - c, c - abs(b - a)
    floor = 64 * eps * max(c, 1.0)
    if d_ext < -floor or d_int < -floor:
        return 0.0
    delta = max(min(d_ext, d_int), floor)
    y = min(math.sqrt(2.0 * min(a, b) * delta), min(a, b))
    return eps * max(a, b) ** 3 / (y * math.pi * a * a)


def srp_accel(r_sat, r_sun, sat_ratio, solar_pressure, au_km, fraction):
    """Cannonball SRP (Montenbruck 3.75): pushes away from the Sun, km/s^2.

    ``sat_ratio`` = C_R A/m in m^2/kg, ``solar_pressure`` in N/m^2 at 1 AU.
    """
    r = np.asarray(r_sat, dtype=_LD)
    s = np.asarray(r_sun, dtype=_LD)
    from_sun = r - s
    dist = np.sqrt(np.sum(from_sun * from_sun))
    m_per_s2 = _LD(solar_pressure) * _LD(sat_ratio) * (_LD(au_km) / dist) ** 2 * (from_sun / dist)
    return m_per_s2 * _LD(fraction) / _LD(1000.0)


# ---------------------------------------------------------------------------------------------
# relativity
# ---------------------------------------------------------------------------------------------
def schwarzschild_accel(r, v, mu, c_km_s):
    """IERS Conventions Schwarzschild term (beta = gamma = 1): mu/(c^2 r^3) [(4 mu/r - v.v) r + 4 (r.v) v]."""
    r = np.asarray(r, dtype=_LD)
    v = np.asarray(v, dtype=_LD)
    rn = np.sqrt(np.sum(r * r))
    c2 = _LD(c_km_s) ** 2
    return _LD(mu) / (c2 * rn**3) * ((4 * _LD(mu) / rn - np.sum(v * v)) * r + 4 * np.sum(r * v) * v)


# ---------------------------------------------------------------------------------------------
# the whole right-hand side
# ---------------------------------------------------------------------------------------------
def total_accel(r_eci, v_eci, ecef2eci, mu, radius, C, S, degree, order, bodies, srp, gr):
    """Reference acceleration and its terms.

    ``bodies``: list of (name, mu, position); ``srp``: None or dict(sun=, sat_ratio=, pressure=, au=,
    sun_radius=, earth_radius=); ``gr``: None or speed of light in km/s.  Terms are summed in extended
    precision and returned as float64 (`total`) together with the individual float64 terms.
    """
    R = np.asarray(ecef2eci, dtype=float)
    r = np.asarray(r_eci, dtype=float)
    terms = {}
    terms["point_mass"] = point_mass(r, mu)
    a_ns = geopotential_accel(R.T @ r, mu, radius, C, S, degree, order)
    terms["geopotential"] = R.astype(_LD) @ a_ns.astype(_LD)
    for name, mu_b, pos in bodies:
        terms["tb_" + name] = third_body_accel(r, pos, mu_b)
    frac = None
    if srp is not None:
        frac, _ = sun_visible_fraction(r, srp["sun"], srp["sun_radius"], srp["earth_radius"])
        terms["srp"] = srp_accel(r, srp["sun"], srp["sat_ratio"], srp["pressure"], srp["au"], frac)
    if gr is not None:
        terms["gr"] = schwarzschild_accel(r, v_eci, mu, gr)
    total = np.zeros(3, dtype=_LD)
    for k in sorted(terms, key=lambda k: float(np.linalg.norm(terms[k].astype(float)))):
        total = total + terms[k]
    return total.astype(float), {k: v.astype(float) for k, v in terms.items()}, frac
