"""Independent reference for the NIS manoeuvre detectors (property C17).

Written from the class docstrings of ``resonaate/estimation/maneuver_detection.py`` and the
formula documented in ``resonaate/physics/statistics.py::oneSidedChiSquareTest``; imports nothing
from ``resonaate``.

* NIS                 eps(k)   = nu(k)^T S(k)^-1 nu(k)            (``numpy.linalg.solve``, no inverse)
* StandardNis         statistic eps(k),                 dof n_z(k)
* SlidingNis          statistic sum_{j=k-s+1..k} eps(j), dof sum of n_z(j) over the same steps
                      (= s*n_z for a constant dimension; fewer terms while the window fills)
* FadingMemoryNis     eps_d(k) = d*eps_d(k-1) + eps(k), eps_d(0) = 0, evaluated here in the closed
                      form sum_j d^(k-j) eps(j); tested statistic (1+d)*eps_d(k) ~ chi2 with
                      n_d = n_z (1+d)/(1-d); for a varying dimension n_z is the running arithmetic
                      mean of the dimensions seen so far (the in-code comment "average dim")
* decision            manoeuvre  <=>  statistic >= chi2.isf(alpha, dof)   ("reaches the bound")

Every step also returns an absolute error budget for the statistic that follows the conditioning
of the innovation covariance (see ``nis_budget``) and the epsilon band used for the decision.
"""

from __future__ import annotations

import math

import numpy as np
from scipy.stats import chi2

EPS = float(np.finfo(float).eps)
BAND_REL = 1e-9  # decisions closer than this (relative) to the bound are trivial cases


def nis(residual, cov):
    """Quadratic form r^T S^-1 r via a linear solve; returns (q, x=S^-1 r)."""
    r = np.asarray(residual, dtype=float).reshape(-1)
    s = np.asarray(cov, dtype=float)
    if s.shape != (r.size, r.size):
        raise ValueError("shape mismatch")
    x = np.linalg.solve(s, r)
    return float(r @ x), x


def nis_budget(residual, cov, x, q, k_cond):
    """Absolute error budget of an inverse-based evaluation of r^T S^-1 r.

    An explicit inverse X with left residual ||X S - I|| <= c eps cond(S) gives
    r^T X r = q + r^T F x with |r^T F x| <= c eps cond(S) ||r|| ||x||; the solve-based reference is
    at least as accurate.  ``k_cond`` is the calibrated constant c (with head-room).
    """
    r = np.asarray(residual, dtype=float).reshape(-1)
    s = np.asarray(cov, dtype=float)
    if r.size == 1:
        cond = 1.0
    else:
        sv = np.linalg.svd(s, compute_uv=False)
        cond = float(sv[0] / sv[-1]) if sv[-1] > 0 else math.inf
    return k_cond * EPS * cond * float(np.linalg.norm(r)) * float(np.linalg.norm(x)) + 128.0 * EPS * abs(q), cond


def upper_bound(alpha, dof):
    """Upper-tail chi-square bound: P(chi2_dof >= bound) = alpha."""
    return float(chi2.isf(alpha, dof))


def bound_selfcheck(alpha, dof, bound):
    """sf(bound) reproduces alpha (guards the reference itself); returns relative error."""
    a = float(chi2.sf(bound, dof))
    return abs(a - alpha) / alpha


class _Base:
    name = "?"

    def __init__(self, alpha, k_cond=1.0):
        self.alpha = float(alpha)
        self.k_cond = float(k_cond)
        self.q_hist: list[float] = []     # eps(j)
        self.t_hist: list[float] = []     # error budget of eps(j)
        self.n_hist: list[int] = []       # n_z(j)
        self.cond_hist: list[float] = []

    def _push(self, residual, cov):
        q, x = nis(residual, cov)
        tol, cond = nis_budget(residual, cov, x, q, self.k_cond)
        self.q_hist.append(q)
        self.t_hist.append(tol)
        self.n_hist.append(int(np.asarray(residual).reshape(-1).size))
        self.cond_hist.append(cond)

    def _stat(self):  # -> (statistic, budget, dof)
        raise NotImplementedError

    def step(self, residual, cov):
        self._push(residual, cov)
        stat, tol, dof = self._stat()
        bound = upper_bound(self.alpha, dof)
        band = BAND_REL * abs(bound) + tol
        return {
            "metric": stat,
            "tol": tol,
            "dof": dof,
            "bound": bound,
            "detect": stat >= bound,
            "band": band,
            "nontrivial": abs(stat - bound) > band,
            "q": self.q_hist[-1],
            "cond": self.cond_hist[-1],
        }


class RefStandard(_Base):
    name = "standard"

    def _stat(self):
        return self.q_hist[-1], self.t_hist[-1], float(self.n_hist[-1])

    def carried(self, n_next):
        return 0.0, 1.0, upper_bound(self.alpha, float(n_next))


class RefSliding(_Base):
    name = "sliding"

    def __init__(self, alpha, window, k_cond=1.0):
        super().__init__(alpha, k_cond)
        self.window = int(window)

    def _stat(self):
        w = self.window
        qs = self.q_hist[-w:]
        stat = math.fsum(qs)
        tol = math.fsum(self.t_hist[-w:]) + 8.0 * EPS * len(qs) * abs(stat)
        return stat, tol, float(sum(self.n_hist[-w:]))

    def carried(self, n_next):
        """(statistic carried into the next step, weight of the next NIS, bound for the next step)."""
        w = self.window
        qs = self.q_hist[-(w - 1):] if w > 1 else []
        ns = self.n_hist[-(w - 1):] if w > 1 else []
        return math.fsum(qs), 1.0, upper_bound(self.alpha, float(sum(ns) + n_next))


class RefFading(_Base):
    name = "fading"

    def __init__(self, alpha, delta, k_cond=1.0):
        super().__init__(alpha, k_cond)
        self.delta = float(delta)

    def _faded(self, upto=None):
        qs = self.q_hist if upto is None else self.q_hist[:upto]
        ts = self.t_hist if upto is None else self.t_hist[:upto]
        k = len(qs)
        if k == 0:
            return 0.0, 0.0
        wts = self.delta ** np.arange(k - 1, -1, -1, dtype=float)
        acc = math.fsum(float(a) * b for a, b in zip(wts, qs))
        tol = math.fsum(float(a) * b for a, b in zip(wts, ts)) + 8.0 * EPS * (k + 2) * abs(acc)
        return acc, tol

    def _dof(self, dims):
        nbar = sum(dims) / len(dims)
        return nbar * (1.0 + self.delta) / (1.0 - self.delta)

    def _stat(self):
        acc, tol = self._faded()
        f = 1.0 + self.delta
        return f * acc, f * tol, self._dof(self.n_hist)

    def carried(self, n_next):
        acc, _ = self._faded()
        f = 1.0 + self.delta
        return f * self.delta * acc, f, upper_bound(self.alpha, self._dof(self.n_hist + [int(n_next)]))


def make(kind, alpha, window=None, delta=None, k_cond=1.0):
    if kind == "standard":
        return RefStandard(alpha, k_cond)
    if kind == "sliding":
        return RefSliding(alpha, window, k_cond)
    if kind == "fading":
        return RefFading(alpha, delta, k_cond)
    raise ValueError(kind)
