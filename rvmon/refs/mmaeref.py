"""Multiple-model estimation reference (pure numpy, no resonaate imports).

Contents
  gauss_loglik     log N(nu; 0, S) of one innovation through an eigen-decomposition of the symmetric part of S
                   (no explicit inverse, no determinant => no under/overflow); also returns NIS, cond(S), log det S
  bayes_log        posterior model probabilities  w_i  proportional to  prior_i * L_i  evaluated in log space
                   (log-sum-exp), so that likelihoods far below the smallest double still give the exact posterior;
                   also returns log of the total mass  sum_i prior_i L_i  (what a linear-space implementation
                   compares with its "zero mass" threshold)
  gpb1_mix_matrix  the documented GPB1 mode-transition matrix: diagonal : off-diagonal = mix_ratio : 1, rows sum to one
  mixture_moments  probability-weighted mean and moment-matched covariance
                        xbar = sum_i w_i x_i,    P = sum_i w_i (P_i + (x_i - xbar)(x_i - xbar)^T)
                   plus the magnitude  sum_i |w_i| (|P_i| + |x_i - xbar|^2)  that rounding bounds are built from
  prob_defects     list of reasons why a vector is not a probability vector (shape / finite / sign / sum)
"""

from __future__ import annotations

import math

import numpy as np

EPS = float(np.finfo(float).eps)
LOG_2PI = math.log(2.0 * math.pi)


def gauss_loglik(nu, s):
    """Return dict(loglik, nis, q, cond, logdet, m, ok).  ``ok`` is False when S is not (numerically) positive definite.

    q = |nu|^2 / lambda_min(S) >= nis bounds the quadratic form for *any* direction of nu; cond(S)*eps*q is the first-order
    error of a quadratic form evaluated through an explicitly inverted S.
    """
    nu = np.asarray(nu, dtype=float).reshape(-1)
    s = np.asarray(s, dtype=float)
    m = nu.shape[0]
    if s.shape != (m, m) or not np.all(np.isfinite(s)) or not np.all(np.isfinite(nu)):
        return {"ok": False, "loglik": float("nan"), "nis": float("nan"), "q": float("nan"), "cond": float("inf"), "logdet": float("nan"), "m": m}
    lam, v = np.linalg.eigh(0.5 * (s + s.T))
    if lam[0] <= 0.0:
        return {"ok": False, "loglik": float("nan"), "nis": float("nan"), "q": float("nan"), "cond": float("inf"), "logdet": float("nan"), "m": m}
    z = v.T @ nu
    nis = float(np.sum(z * z / lam))
    logdet = float(np.sum(np.log(lam)))
    return {"ok": True, "loglik": -0.5 * nis - 0.5 * (m * LOG_2PI + logdet), "nis": nis, "q": float(nu @ nu) / float(lam[0]), "cond": float(lam[-1] / lam[0]),
            "logdet": logdet, "m": m}


def bayes_log(prior, logliks):
    """Posterior  w_i = prior_i L_i / sum_j prior_j L_j  in log space.

    ``prior`` need not be normalised (any non-negative vector with positive sum).  Returns (w, log_mass) where
    log_mass = log sum_j prior_j L_j  (-inf if every prior_j L_j is exactly zero, i.e. prior_j == 0 for all finite L_j).
    """
    prior = np.asarray(prior, dtype=float).reshape(-1)
    ll = np.asarray(logliks, dtype=float).reshape(-1)
    with np.errstate(divide="ignore"):
        lp = np.where(prior > 0.0, np.log(np.where(prior > 0.0, prior, 1.0)), -np.inf) + ll
    top = float(np.max(lp))
    if not math.isfinite(top):
        return np.full(prior.shape, float("nan")), float("-inf")
    e = np.exp(lp - top)
    tot = float(np.sum(e))
    return e / tot, top + math.log(tot)


def gpb1_mix_matrix(n: int, mix_ratio: float):
    """n x n matrix with diagonal r/(n-1+r) and off-diagonal 1/(n-1+r)."""
    d = (n - 1) + mix_ratio
    m = np.full((n, n), 1.0 / d)
    for i in range(n):
        m[i, i] = mix_ratio / d
    return m


def mixture_moments(w, xs, ps):
    """Return (xbar, P, mag_x, mag_p).  xs: (k, n), ps: (k, n, n), w: (k,)."""
    w = np.asarray(w, dtype=float).reshape(-1)
    xs = np.asarray(xs, dtype=float)
    ps = np.asarray(ps, dtype=float)
    xbar = np.einsum("i,ij->j", w, xs)
    d = xs - xbar[None, :]
    p = np.einsum("i,ijk->jk", w, ps) + np.einsum("i,ij,ik->jk", w, d, d)
    aw = np.abs(w)
    mag_x = float(np.sum(aw * np.max(np.abs(xs), axis=1))) if xs.size else 0.0
    mag_p = float(np.sum(aw * (np.max(np.abs(ps), axis=(1, 2)) + np.sum(d * d, axis=1)))) if xs.size else 0.0
    return xbar, p, mag_x, mag_p


def prob_defects(w, n_expected=None, sum_tol=None):
    """Reasons why ``w`` is not a probability vector (empty list = fine)."""
    out = []
    a = np.asarray(w)
    if a.ndim != 1:
        out.append(f"shape {a.shape}")
        return out
    if n_expected is not None and a.shape[0] != n_expected:
        out.append(f"length {a.shape[0]} != number of models {n_expected}")
    if a.shape[0] == 0:
        out.append("empty")
        return out
    try:
        a = a.astype(float)
    except (TypeError, ValueError):
        out.append("not numeric")
        return out
    if not np.all(np.isfinite(a)):
        out.append("non-finite entries")
        return out
    if np.any(a < 0.0):
        out.append(f"negative entry {float(np.min(a))!r}")
    tol = sum_tol if sum_tol is not None else 4.0 * (a.shape[0] + 2) * EPS
    s = math.fsum(a.tolist())
    if abs(s - 1.0) > tol:
        out.append(f"sum {s!r} differs from 1 by {abs(s - 1.0):.3e}")
    return out
