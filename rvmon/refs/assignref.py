"""Independent reference for tasking decisions (no code shared with the repository, no scipy).

* brute force over every complete one-to-one assignment (all permutations) for small matrices,
  on exact Python numbers (ints / Fractions / floats as given);
* an own O(n^2 m) Hungarian (shortest augmenting paths with potentials) for larger matrices,
  with optional forbidden cells;
* the *decision* semantics documented by ``Decision.calculate``: policy-specific selection on the
  raw reward matrix, THEN logical AND with the visibility mask.

Matrices are row = target, column = sensor.  A "complete" assignment picks k = min(n_t, n_s) cells,
no two in one row or one column.  Cells are numbered ``t * n_s + s``; sets of cells are int bitmasks.
"""

from __future__ import annotations

import math
from itertools import permutations


# ---------------------------------------------------------------------------------------------
# small scope: exhaustive
# ---------------------------------------------------------------------------------------------
def complete_assignments(n: int, m: int) -> list[tuple[int, tuple[int, ...]]]:
    """All complete one-to-one assignments of an n x m matrix as ``(bitmask, cell indices)``."""
    out = []
    if n <= m:  # every row (target) gets its own column (sensor)
        for cols in permutations(range(m), n):
            cells = tuple(t * m + s for t, s in enumerate(cols))
            out.append((sum(1 << c for c in cells), cells))
    else:  # every column gets its own row
        for rows in permutations(range(n), m):
            cells = tuple(t * m + s for s, t in enumerate(rows))
            out.append((sum(1 << c for c in cells), cells))
    return out


def brute_optimal(flat, assignments, tol: float = 0.0):
    """Best total and the bitmasks of every assignment attaining it (within ``tol``).

    ``flat`` is the row-major list of rewards.  With integer rewards and tol=0 this is exact.
    """
    totals = [sum(flat[c] for c in cells) for _, cells in assignments]
    best = max(totals)
    return best, [a[0] for a, tot in zip(assignments, totals) if tot >= best - tol]


def column_argmax_masks(flat, n: int, m: int, tol: float = 0.0) -> list[int]:
    """Per sensor (column): bitmask of the cells attaining the column maximum."""
    out = []
    for s in range(m):
        col = [flat[t * m + s] for t in range(n)]
        mx = max(col)
        out.append(sum(1 << (t * m + s) for t in range(n) if col[t] >= mx - tol))
    return out


def col_masks(n: int, m: int) -> list[int]:
    return [sum(1 << (t * m + s) for t in range(n)) for s in range(m)]


def row_masks(n: int, m: int) -> list[int]:
    return [sum(1 << (t * m + s) for s in range(m)) for t in range(n)]


def at_most_one(bits: int, groups: list[int]) -> bool:
    for g in groups:
        x = bits & g
        if x & (x - 1):
            return False
    return True


def greedy_ok(d: int, v: int, argmasks: list[int], colmasks: list[int]) -> bool:
    """d == (one-hot of SOME column arg-max) AND v, column by column."""
    for am, cm in zip(argmasks, colmasks):
        x = d & cm
        if x == 0:
            if not (am & ~v):  # every arg-max is visible -> one of them must have been tasked
                return False
        elif (x & (x - 1)) or not (x & am & v):
            return False
    return True


def greedy_unique(v: int, argmasks: list[int]) -> bool:
    """The greedy decision is determined uniquely (no legitimate tie-breaking freedom)."""
    for am in argmasks:
        vis = am & v
        options = bin(vis).count("1") + (1 if (am & ~v) else 0)
        if options != 1:
            return False
    return True


def permute_bits(bits: int, n: int, m: int, p, q) -> int:
    """Bitmask of X[p][:, q] given the bitmask of the n x m matrix X (numpy take semantics)."""
    out = 0
    for i in range(n):
        for j in range(m):
            if bits >> (p[i] * m + q[j]) & 1:
                out |= 1 << (i * m + j)
    return out


# ---------------------------------------------------------------------------------------------
# large scope: own Hungarian
# ---------------------------------------------------------------------------------------------
def _hungarian_min(cost, n: int, m: int) -> list[int]:
    """Min-cost assignment of n rows to distinct columns (n <= m). Returns col of each row."""
    INF = float("inf")
    u = [0.0] * (n + 1)
    v = [0.0] * (m + 1)
    p = [0] * (m + 1)  # p[j] = row matched to column j (1-based), 0 = free
    way = [0] * (m + 1)
    for i in range(1, n + 1):
        p[0] = i
        j0 = 0
        minv = [INF] * (m + 1)
        used = [False] * (m + 1)
        while True:
            used[j0] = True
            i0 = p[j0]
            row = cost[i0 - 1]
            ui0 = u[i0]
            delta = INF
            j1 = 0
            for j in range(1, m + 1):
                if not used[j]:
                    cur = row[j - 1] - ui0 - v[j]
                    if cur < minv[j]:
                        minv[j] = cur
                        way[j] = j0
                    if minv[j] < delta:
                        delta = minv[j]
                        j1 = j
            for j in range(m + 1):
                if used[j]:
                    u[p[j]] += delta
                    v[j] -= delta
                else:
                    minv[j] -= delta
            j0 = j1
            if p[j0] == 0:
                break
        while True:
            j1 = way[j0]
            p[j0] = p[j1]
            j0 = j1
            if j0 == 0:
                break
    res = [-1] * n
    for j in range(1, m + 1):
        if p[j]:
            res[p[j] - 1] = j - 1
    return res


def hungarian_max(R, allowed=None):
    """Maximum-total complete assignment of the (list-of-lists) matrix R.

    ``allowed`` (same shape, truthy = usable) restricts the cells.  Returns ``(total, pairs)`` with
    ``pairs`` a list of (row, col), or ``None`` when no complete assignment avoids forbidden cells.
    The total is ``math.fsum`` of the original entries.
    """
    n = len(R)
    m = len(R[0]) if n else 0
    if n == 0 or m == 0:
        return 0.0, []
    amax = max(abs(float(x)) for row in R for x in row)
    k = min(n, m)
    big = 4.0 * k * amax if amax > 0.0 else 1.0  # relative to the data: tiny and huge scales keep their precision
    transposed = n > m
    if transposed:
        cost = [[(-float(R[t][s]) if (allowed is None or allowed[t][s]) else big) for t in range(n)] for s in range(m)]
        rows, cols = m, n
    else:
        cost = [[(-float(R[t][s]) if (allowed is None or allowed[t][s]) else big) for s in range(m)] for t in range(n)]
        rows, cols = n, m
    asg = _hungarian_min(cost, rows, cols)
    pairs = [(c, r) if transposed else (r, c) for r, c in enumerate(asg)]
    if allowed is not None and any(not allowed[t][s] for t, s in pairs):
        return None
    return math.fsum(float(R[t][s]) for t, s in pairs), pairs


def munkres_decision_gap(R, V, D):
    """How far is the best optimal-assignment explanation of decision D from the optimum?

    Looks for a complete assignment A with ``A AND V == D`` (D's cells in, every other *visible* cell
    out) of maximum total and compares with the unconstrained optimum.  Returns
    ``(status, gap, optimum)`` where status is 'ok-shape' with gap >= 0, or a string naming the
    structural defect ('invisible', 'sensor-multi', 'target-multi', 'no-extension').
    R, V, D are lists of lists (D, V boolean).
    """
    n, m = len(R), len(R[0])
    rows_used, cols_used = set(), set()
    dsum = []
    for t in range(n):
        for s in range(m):
            if D[t][s]:
                if not V[t][s]:
                    return "invisible", None, None
                if s in cols_used:
                    return "sensor-multi", None, None
                if t in rows_used:
                    return "target-multi", None, None
                rows_used.add(t)
                cols_used.add(s)
                dsum.append(float(R[t][s]))
    opt, _ = hungarian_max(R)
    fr = [t for t in range(n) if t not in rows_used]
    fc = [s for s in range(m) if s not in cols_used]
    need = min(n, m) - len(dsum)
    ext = 0.0
    if need > 0:
        sub = [[R[t][s] for s in fc] for t in fr]
        allow = [[not V[t][s] for s in fc] for t in fr]
        res = hungarian_max(sub, allow)
        if res is None:
            return "no-extension", None, opt
        ext = res[0]
    return "ok-shape", opt - (math.fsum(dsum) + ext), opt
