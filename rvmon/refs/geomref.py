"""Independent geometry reference (no code shared with the repository).

Only the *defining constants* of the reference ellipsoid (equatorial radius, eccentricity) and
of the Earth (mu, spin rate) are shared; every formula below is written from the definition.
"""

from __future__ import annotations

import math

import numpy as np

RE = 6378.1363
ECC = 0.081819221456
E2 = ECC * ECC
OMEGA = 7.292115146706979e-5
MU = 398600.4415
SUN_RADIUS = 695700.0  # overwritten from repo constant where needed


def unit(v):
    v = np.asarray(v, dtype=float)
    return v / np.linalg.norm(v)


# ---- reference ellipsoid ------------------------------------------------------------------
def ellipsoid_point(lat, lon, alt):
    """ECEF of the point at height ``alt`` along the outward ellipsoid normal at (lat, lon).

    Built from the parametric surface (reduced latitude beta, tan(beta) = sqrt(1-e^2) tan(lat))
    plus the explicit unit normal - a different route than the prime-vertical-radius formula.
    """
    b_over_a = math.sqrt(1.0 - E2)
    if abs(abs(lat) - math.pi / 2) < 1e-15:
        beta = lat
    else:
        beta = math.atan2(b_over_a * math.sin(lat), math.cos(lat))
    surf = np.array([RE * math.cos(beta) * math.cos(lon), RE * math.cos(beta) * math.sin(lon), RE * b_over_a * math.sin(beta)])
    n = np.array([math.cos(lat) * math.cos(lon), math.cos(lat) * math.sin(lon), math.sin(lat)])
    return surf + alt * n


def geodetic_from_ecef(r, iters=60):
    """Geodetic (lat, lon, alt) by fixed-point iteration (Bowring-free, definition based)."""
    x, y, z = (float(c) for c in r[:3])
    lon = math.atan2(y, x)
    p = math.hypot(x, y)
    if p < 1e-9:
        lat = math.copysign(math.pi / 2, z) if z != 0 else 0.0
        alt = abs(z) - RE * math.sqrt(1 - E2)
        return lat, lon, alt
    lat = math.atan2(z, p * (1 - E2))
    alt = 0.0
    for _ in range(iters):
        N = RE / math.sqrt(1 - E2 * math.sin(lat) ** 2)
        alt = p / math.cos(lat) - N if abs(math.cos(lat)) > 1e-3 else z / math.sin(lat) - N * (1 - E2)
        new = math.atan2(z, p * (1 - E2 * N / (N + alt)))
        if abs(new - lat) < 1e-16:
            lat = new
            break
        lat = new
    N = RE / math.sqrt(1 - E2 * math.sin(lat) ** 2)
    alt = p / math.cos(lat) - N if abs(math.cos(lat)) > 1e-3 else z / math.sin(lat) - N * (1 - E2)
    return lat, lon, alt


def sez_basis(lat, lon):
    """Rows: unit South, East, Zenith (geodetic vertical) vectors expressed in ECEF."""
    zen = np.array([math.cos(lat) * math.cos(lon), math.cos(lat) * math.sin(lon), math.sin(lat)])
    east = np.array([-math.sin(lon), math.cos(lon), 0.0])
    north = np.cross(zen, east)
    return np.vstack([-north, east, zen])


def razel_from_sez(rho_sez):
    """(range, az in [0,2pi) measured from north through east, el) of a SEZ vector."""
    s, e, z = (float(c) for c in rho_sez[:3])
    rng = math.sqrt(s * s + e * e + z * z)
    el = math.asin(max(-1.0, min(1.0, z / rng)))
    az = math.atan2(e, -s) % (2 * math.pi)
    return rng, az, el


def range_rate(rho, rho_dot):
    return float(np.dot(rho[:3], rho_dot[:3]) / np.linalg.norm(rho[:3]))


# ---- visibility ---------------------------------------------------------------------------
def segment_min_distance(p1, p2):
    """Minimum distance from the origin to the segment p1-p2."""
    p1 = np.asarray(p1[:3], dtype=float)
    p2 = np.asarray(p2[:3], dtype=float)
    d = p2 - p1
    dd = float(np.dot(d, d))
    if dd == 0.0:
        return float(np.linalg.norm(p1))
    t = -float(np.dot(p1, d)) / dd
    t = max(0.0, min(1.0, t))
    return float(np.linalg.norm(p1 + t * d))


def angle_between(a, b):
    a = np.asarray(a[:3], dtype=float)
    b = np.asarray(b[:3], dtype=float)
    # atan2 form: accurate for tiny and near-pi angles
    return math.atan2(float(np.linalg.norm(np.cross(a, b))), float(np.dot(a, b)))


def wrap_pm_pi(x):
    y = (x + math.pi) % (2 * math.pi) - math.pi
    return y


def az_in_mask(az, lo, hi):
    """Is azimuth (rad, any representation) inside the mask [lo, hi] that may wrap through north."""
    az, lo, hi = az % (2 * math.pi), lo % (2 * math.pi), hi % (2 * math.pi)
    if lo <= hi:
        return lo <= az <= hi
    return az >= lo or az <= hi


def az_mask_margin(az, lo, hi):
    """Angular distance (rad) from ``az`` to the nearest mask edge."""
    return min(abs(wrap_pm_pi(az - lo)), abs(wrap_pm_pi(az - hi)))


def circle_overlap_fraction(r_sun, r_body, sep):
    """Visible fraction of a disc of apparent radius r_sun when a disc r_body sits at angular sep."""
    if sep >= r_sun + r_body:
        return 1.0
    if sep <= r_body - r_sun:
        return 0.0
    if sep <= r_sun - r_body:
        return 1.0 - (r_body / r_sun) ** 2
    a, b, c = r_sun, r_body, sep
    x = (c * c + a * a - b * b) / (2 * c)
    y2 = max(a * a - x * x, 0.0)
    y = math.sqrt(y2)
    area = a * a * math.acos(max(-1, min(1, x / a))) + b * b * math.acos(max(-1, min(1, (c - x) / b))) - c * y
    return 1.0 - area / (math.pi * a * a)


# ---- rotations ----------------------------------------------------------------------------
def rot_axis(axis, ang):
    """Frame rotation matrix about ``axis`` (1..3) by ``ang``: v_new = R v_old (passive)."""
    c, s = math.cos(ang), math.sin(ang)
    i = axis - 1
    j, k = (i + 1) % 3, (i + 2) % 3
    R = np.eye(3)
    R[j, j] = c
    R[j, k] = s
    R[k, j] = -s
    R[k, k] = c
    return R


def rotation_angle_about_z(Ra, Rb):
    """Signed angle of the relative rotation Rb Ra^T about its z axis (small-angle safe)."""
    D = Rb @ Ra.T
    return math.atan2(D[0, 1] - D[1, 0], D[0, 0] + D[1, 1])


# ---- additions for C14 (appended; nothing above is changed) ---------------------------------
def cross3(a, b):
    """Cross product of two 3-vectors (plain floats: numpy.cross costs ~50 us per call)."""
    a0, a1, a2 = float(a[0]), float(a[1]), float(a[2])
    b0, b1, b2 = float(b[0]), float(b[1]), float(b[2])
    return np.array([a1 * b2 - a2 * b1, a2 * b0 - a0 * b2, a0 * b1 - a1 * b0])


def angle3(a, b):
    """Angle between two 3-vectors, atan2(|a x b|, a.b), in plain floats."""
    a0, a1, a2 = float(a[0]), float(a[1]), float(a[2])
    b0, b1, b2 = float(b[0]), float(b[1]), float(b[2])
    c0, c1, c2 = a1 * b2 - a2 * b1, a2 * b0 - a0 * b2, a0 * b1 - a1 * b0
    return math.atan2(math.sqrt(c0 * c0 + c1 * c1 + c2 * c2), a0 * b0 + a1 * b1 + a2 * b2)


def sez_from_azel(az, el, rho=1.0):
    """SEZ position of the point at azimuth ``az`` (from north through east), elevation ``el``, range ``rho``."""
    ce = math.cos(el)
    return np.array([-rho * ce * math.cos(az), rho * ce * math.sin(az), rho * math.sin(el)])


def azel_stable(sez):
    """(az in [0,2pi), el, horizontal fraction) of a SEZ vector; el by atan2 (accurate at the zenith).

    The horizontal fraction hypot(S,E)/|rho| tells the caller how well defined the azimuth is.
    """
    s, e, z = (float(c) for c in sez[:3])
    h = math.hypot(s, e)
    rho = math.sqrt(s * s + e * e + z * z)
    el = math.atan2(z, h)
    az = math.atan2(e, -s) % (2 * math.pi)
    if az >= 2 * math.pi:  # (-tiny) % 2pi can round to 2pi
        az = 0.0
    return az, el, (h / rho if rho > 0 else 0.0)


def rotate_about_vertical(sez, phi):
    """Rotate a 3- or 6-component SEZ vector about the local vertical so that every azimuth grows by ``phi``."""
    v = np.array(sez, dtype=float)
    c, sn = math.cos(phi), math.sin(phi)
    out = v.copy()
    for k in range(0, len(v), 3):
        n, e = -v[k], v[k + 1]
        n2, e2 = c * n - sn * e, sn * n + c * e
        out[k], out[k + 1] = -n2, e2
    return out


def az_arc_contains(az, lo, hi):
    """Azimuth-mask membership by arc sweep: the mask is the arc swept from ``lo`` towards increasing
    azimuth until ``hi``; ``lo``, ``hi`` in [0, 2pi] as configured (hi - lo == 2pi means the full circle)."""
    two_pi = 2 * math.pi
    width = hi - lo
    if width < 0:
        width += two_pi
    if width >= two_pi:
        return True
    off = (az - lo) % two_pi
    return off <= width


def line_closest_param(p1, p2):
    """Parameter t* of the point of the infinite line p1 + t (p2 - p1) closest to the origin (None if p1 == p2)."""
    p1 = np.asarray(p1[:3], dtype=float)
    p2 = np.asarray(p2[:3], dtype=float)
    d = p2 - p1
    dd = float(np.dot(d, d))
    if dd == 0.0:
        return None
    return -float(np.dot(p1, d)) / dd


def ray_min_distance(origin_pt, direction):
    """Minimum distance from the coordinate origin to the half line origin_pt + t direction, t >= 0."""
    p = np.asarray(origin_pt[:3], dtype=float)
    d = unit(direction[:3])
    along = float(np.dot(p, d))
    if along >= 0.0:
        return float(np.linalg.norm(p))
    return float(np.linalg.norm(cross3(p, d)))


def radial_sez_basis(r):
    """Rows S, E, Z of a local frame whose Z axis is the geocentric radial direction of ``r``."""
    zen = unit(r[:3])
    k = np.array([0.0, 0.0, 1.0]) if abs(zen[2]) < 0.9 else np.array([1.0, 0.0, 0.0])
    east = unit(cross3(k, zen))
    north = cross3(zen, east)
    return np.vstack([-north, east, zen])


def disc_limb_points(centre, radius, toward, n=24):
    """``n`` points on the limb of a sphere (centre, radius) as seen from ``toward`` (tangent-circle approximation
    replaced by the great circle perpendicular to the line of sight - used with a margin)."""
    c = np.asarray(centre[:3], dtype=float)
    los = unit(c - np.asarray(toward[:3], dtype=float))
    k = np.array([0.0, 0.0, 1.0]) if abs(los[2]) < 0.9 else np.array([1.0, 0.0, 0.0])
    u = unit(cross3(los, k))
    v = cross3(los, u)
    return [c + radius * (math.cos(2 * math.pi * i / n) * u + math.sin(2 * math.pi * i / n) * v) for i in range(n)]
