"""Independent two-body reference: closed-form Kepler propagation through orbital elements.

No code shared with the repository.  mu is passed in (default: the repository's Earth.mu value).
Works for elliptic orbits (0 <= e < 1), any inclination, including circular/equatorial ones, by
propagating in the perifocal-like frame built from the state's own (r, v) (f and g functions via
eccentric-anomaly difference), so no angle singularities arise.
"""

from __future__ import annotations

import math

import numpy as np

MU = 398600.4415


def energy(x, mu=MU):
    r = np.linalg.norm(x[:3])
    return 0.5 * float(np.dot(x[3:], x[3:])) - mu / r


def ang_mom(x):
    return np.cross(x[:3], x[3:])


def sma(x, mu=MU):
    return -mu / (2.0 * energy(x, mu))


def period(x, mu=MU):
    a = sma(x, mu)
    return 2.0 * math.pi * math.sqrt(a ** 3 / mu)


def ecc_vector(x, mu=MU):
    r, v = x[:3], x[3:]
    return (np.cross(v, np.cross(r, v)) / mu) - r / np.linalg.norm(r)


def propagate(x0, dt, mu=MU):
    """Exact two-body propagation of an elliptic state by ``dt`` seconds (may be negative).

    Uses the eccentric-anomaly *difference* formulation (Battin): solve
        n dt = dE - (1 - r0/a) sin dE + (r0.v0 / sqrt(mu a)) (1 - cos dE)
    by Newton/bisection to 1e-15, then f and g.
    """
    x0 = np.asarray(x0, dtype=float)
    r0v, v0v = x0[:3], x0[3:]
    r0 = float(np.linalg.norm(r0v))
    a = sma(x0, mu)
    if not (a > 0):
        raise ValueError("keplerref handles elliptic orbits only")
    n = math.sqrt(mu / a ** 3)
    sig0 = float(np.dot(r0v, v0v)) / math.sqrt(mu * a)
    c1 = 1.0 - r0 / a
    M = n * dt
    # reduce to one revolution for conditioning
    k = math.floor(M / (2 * math.pi))
    Mr = M - 2 * math.pi * k

    def F(dE):
        return dE - c1 * math.sin(dE) + sig0 * (1.0 - math.cos(dE)) - Mr

    def dF(dE):
        return 1.0 - c1 * math.cos(dE) + sig0 * math.sin(dE)

    lo, hi = 0.0, 2 * math.pi  # F(0) = -Mr <= 0, F(2pi) = 2pi - Mr > 0, F monotone (dF = r/a > 0)
    dE = Mr
    for _ in range(200):
        f = F(dE)
        if f > 0:
            hi = dE
        else:
            lo = dE
        d = dF(dE)
        step = f / d if d > 0 else 0.0
        new = dE - step
        if not (lo <= new <= hi) or d <= 0:
            new = 0.5 * (lo + hi)
        if abs(new - dE) < 1e-16 * max(1.0, abs(new)):
            dE = new
            break
        dE = new
    cdE, sdE = math.cos(dE), math.sin(dE)
    r = a * (1.0 - c1 * cdE + sig0 * sdE)
    fg_f = 1.0 - a / r0 * (1.0 - cdE)
    # g = dt - sqrt(a^3/mu) (dE - sin dE) holds per revolution-reduced time
    dt_red = Mr / n
    fg_g = dt_red - math.sqrt(a ** 3 / mu) * (dE - sdE)
    fg_fd = -math.sqrt(mu * a) / (r * r0) * sdE
    fg_gd = 1.0 - a / r * (1.0 - cdE)
    rv = fg_f * r0v + fg_g * v0v
    vv = fg_fd * r0v + fg_gd * v0v
    return np.concatenate([rv, vv])


def kepler_E(M, e, tol=1e-15):
    """Eccentric anomaly from mean anomaly (elliptic), robust Newton with bisection safeguard."""
    M = M % (2 * math.pi)
    lo, hi = 0.0, 2 * math.pi
    E = M if e < 0.8 else math.pi
    for _ in range(200):
        f = E - e * math.sin(E) - M
        if f > 0:
            hi = E
        else:
            lo = E
        new = E - f / (1 - e * math.cos(E))
        if not (lo <= new <= hi):
            new = 0.5 * (lo + hi)
        if abs(new - E) < tol:
            return new
        E = new
    return E


def state_from_coe(a, e, inc, raan, argp, nu, mu=MU):
    """Cartesian state from classical elements (angles in radians), written from the definition."""
    p = a * (1 - e * e)
    r = p / (1 + e * math.cos(nu))
    rp = np.array([r * math.cos(nu), r * math.sin(nu), 0.0])
    vp = math.sqrt(mu / p) * np.array([-math.sin(nu), e + math.cos(nu), 0.0])

    def R3(t):
        c, s = math.cos(t), math.sin(t)
        return np.array([[c, -s, 0], [s, c, 0], [0, 0, 1.0]])

    def R1(t):
        c, s = math.cos(t), math.sin(t)
        return np.array([[1.0, 0, 0], [0, c, -s], [0, s, c]])

    Q = R3(raan) @ R1(inc) @ R3(argp)
    return np.concatenate([Q @ rp, Q @ vp])


def nu_from_E(E, e):
    return 2 * math.atan2(math.sqrt(1 + e) * math.sin(E / 2), math.sqrt(1 - e) * math.cos(E / 2))


# ---------------------------------------------------------------------------------------------
# additions for C12 (element sets / anomalies); definitions written from the textbook, no repository code
# ---------------------------------------------------------------------------------------------
def E_from_nu(nu, e):
    """Eccentric anomaly from true anomaly (half-angle form, same revolution as ``nu``)."""
    return 2 * math.atan2(math.sqrt(1 - e) * math.sin(nu / 2), math.sqrt(1 + e) * math.cos(nu / 2))


def M_from_E(E, e):
    return E - e * math.sin(E)


def M_from_nu(nu, e):
    return M_from_E(E_from_nu(nu, e), e)


def nu_from_M(M, e):
    return nu_from_E(kepler_E(M, e), e)


def angdiff(a, b):
    """|a - b| on the circle, in [0, pi]."""
    d = math.fmod(a - b, 2 * math.pi)
    if d > math.pi:
        d -= 2 * math.pi
    elif d < -math.pi:
        d += 2 * math.pi
    return abs(d)


def kepler_F(lam, h, k, tol=1e-15):
    """Eccentric longitude from mean longitude: F + h cos F - k sin F = lam, via F = E + varpi."""
    e = math.hypot(h, k)
    varpi = math.atan2(h, k) if e > 0 else 0.0
    return kepler_E(lam - varpi, e, tol) + varpi


def eqe_from_coe(a, e, inc, raan, argp, nu, retro=False):
    """Equinoctial set (a, h, k, p, q, mean longitude) from classical elements, Danielson et al. definitions.

    retro=True uses the retrograde factor I=-1:  h = e sin(argp - raan), p = cot(i/2) sin(raan), lam = M + argp - raan.
    """
    II = -1.0 if retro else 1.0
    varpi = argp + II * raan
    t = math.tan(inc / 2.0)
    t = t if not retro else 1.0 / t
    return (a, e * math.sin(varpi), e * math.cos(varpi), t * math.sin(raan), t * math.cos(raan), M_from_nu(nu, e) + varpi)


def coe_from_eqe(a, h, k, p, q, lam, retro=False):
    """Classical elements from an equinoctial set (raan := 0 when p = q = 0, argp := 0 when h = k = 0)."""
    II = -1.0 if retro else 1.0
    e = math.hypot(h, k)
    t = math.hypot(p, q)
    inc = 2.0 * math.atan(t) if not retro else math.pi - 2.0 * math.atan(t)
    raan = math.atan2(p, q) if t > 0 else 0.0
    varpi = math.atan2(h, k) if e > 0 else 0.0
    argp = varpi - II * raan
    nu = nu_from_M(lam - varpi, e)
    return a, e, inc, raan, argp, nu


def state_from_eqe(a, h, k, p, q, lam, retro=False, mu=MU):
    """Cartesian state of an equinoctial set, through the classical definition (no f/g basis formulas)."""
    return state_from_coe(*coe_from_eqe(a, h, k, p, q, lam, retro), mu=mu)
