"""Which functions of the repository did a check's workload actually enter?

Opt-in (VERIF_REACH=<file>): a ``sys.monitoring`` PY_START callback that reports each code object under the repository's source
tree once per process (it returns DISABLE, so the cost is one call per function) by appending a line to <file>.  Forked children
inherit the hook; lines are short single writes on an O_APPEND descriptor.  ``tools/reach_report.py`` aggregates the files of all
checks and lists the functions of each property's anchor files that no workload entered - the "paths the workload never drives".
"""

from __future__ import annotations

import os
import sys


def install(path: str, src_root: str) -> None:
    mon = sys.monitoring
    tool = mon.COVERAGE_ID
    try:
        mon.use_tool_id(tool, "rvmon-reach")
    except ValueError:
        return
    fd = os.open(path, os.O_WRONLY | os.O_APPEND | os.O_CREAT, 0o644)
    root = os.path.realpath(src_root) + os.sep

    def on_start(code, _offset):
        fn = code.co_filename
        if fn.startswith(root):
            try:
                os.write(fd, f"{fn[len(root):]}::{code.co_qualname}::{code.co_firstlineno}\n".encode())
            except OSError:
                pass
        return mon.DISABLE

    mon.register_callback(tool, mon.events.PY_START, on_start)
    mon.set_events(tool, mon.events.PY_START)
