"""Programmatic scenario construction and stepping on top of the ray stand-in.

Everything below the executor (agents, engines, filters, sensors, dynamics, database layer,
``JobExecutor.join``) is the repository's own code, built through its public factory
``buildScenarioFromConfigDict``.
"""

from __future__ import annotations

import logging
import math
import os
import shutil
import tempfile
from datetime import datetime, timedelta

from . import core

_READY = False
_TMP = None
_SEQ = 0


def init():
    """Install the shim (once per process) and import the repository quietly."""
    global _READY, _TMP
    if _READY:
        return
    core.install_paths()
    from . import shimray

    shimray.install()
    lg = logging.getLogger("resonaate")
    lg.addHandler(logging.NullHandler())
    lg.setLevel(logging.CRITICAL + 10)
    lg.propagate = False
    import warnings

    warnings.filterwarnings("ignore")
    import numpy as np

    np.seterr(all="ignore")
    import resonaate  # noqa: F401
    import resonaate.scenario.config  # noqa: F401  (pre-import: forked children of run_isolated() inherit the modules)
    import resonaate.scenario.scenario  # noqa: F401
    import resonaate.scenario.scenario_builder  # noqa: F401
    from resonaate.common.behavioral_config import BehavioralConfig

    BehavioralConfig.getConfig().debugging.ParallelDebugMode = True
    base = "/dev/shm" if os.path.isdir("/dev/shm") and os.access("/dev/shm", os.W_OK) else None
    _TMP = tempfile.mkdtemp(prefix="rvmon-", dir=base)
    import atexit

    atexit.register(lambda: shutil.rmtree(_TMP, ignore_errors=True))
    _READY = True


def tmpdir() -> str:
    init()
    return _TMP


def new_db_path(tag: str = "out") -> str:
    global _SEQ
    _SEQ += 1
    return os.path.join(tmpdir(), f"{tag}-{os.getpid()}-{_SEQ}.sqlite3")


# ---------------------------------------------------------------------------------------------
# config builders (plain dicts, JSON-serialisable so they can be stored in witnesses)
# ---------------------------------------------------------------------------------------------
def iso(t: datetime) -> str:
    return t.isoformat(timespec="microseconds")


def target_cfg(tid: int, pos, vel, name=None, station_keeping=None) -> dict:
    plat = {"type": "spacecraft"}
    if station_keeping:
        plat["station_keeping"] = {"routines": list(station_keeping)}
    return {
        "id": int(tid),
        "name": name or f"T{tid}",
        "platform": plat,
        "state": {"type": "eci", "position": [float(x) for x in pos], "velocity": [float(x) for x in vel]},
    }


def coe_target_cfg(tid: int, sma, ecc, inc_deg, raan_deg, argp_deg, nu_deg, name=None) -> dict:
    return {
        "id": int(tid),
        "name": name or f"T{tid}",
        "platform": {"type": "spacecraft"},
        "state": {"type": "coe", "semi_major_axis": sma, "eccentricity": ecc, "inclination": inc_deg,
                  "right_ascension": raan_deg, "argument_periapsis": argp_deg, "true_anomaly": nu_deg},
    }


def ground_sensor_cfg(sid: int, lat, lon, alt=0.1, kind="adv_radar", name=None, **over) -> dict:
    if kind == "optical":
        sensor = {
            "type": "optical",
            "covariance": [[2.4e-11, 0.0], [0.0, 2.4e-11]],
            "slew_rate": 15.0, "azimuth_range": [0.0, 359.99999], "elevation_range": [0.0, 89.99999],
            "efficiency": 0.98, "aperture_diameter": 1.0,
        }
    else:
        sensor = {
            "type": kind,
            "covariance": [[3.0e-12, 0, 0, 0], [0, 3.0e-12, 0, 0], [0, 0, 2.5e-11, 0], [0, 0, 0, 4.0e-12]],
            "slew_rate": 180.0, "azimuth_range": [0.0, 359.99999], "elevation_range": [1.0, 89.99999],
            "efficiency": 0.95, "aperture_diameter": 50.0, "tx_power": 3.5e7, "tx_frequency": 4.42e8,
            "min_detectable_power": 1.9e-18,
        }
    sensor.update(over)
    return {
        "id": int(sid), "name": name or f"S{sid}", "platform": {"type": "ground_facility"},
        "state": {"type": "lla", "latitude": float(lat), "longitude": float(lon), "altitude": float(alt)},
        "sensor": sensor,
    }


def space_sensor_cfg(sid: int, pos, vel, kind="optical", name=None, **over) -> dict:
    cfg = ground_sensor_cfg(sid, 0, 0, kind=kind, name=name, **over)
    cfg["platform"] = {"type": "spacecraft"}
    cfg["state"] = {"type": "eci", "position": [float(x) for x in pos], "velocity": [float(x) for x in vel]}
    if kind == "optical":
        cfg["sensor"]["elevation_range"] = [-89.99999, 89.99999]
    else:
        cfg["sensor"]["elevation_range"] = [-89.99999, 89.99999]
    return cfg


def engine_cfg(eid: int, targets: list, sensors: list, decision="MunkresDecision", reward="SimpleSummationReward",
               metrics=("TimeSinceObservation",), decision_params=None) -> dict:
    dec = {"name": decision}
    if decision_params:
        dec.update(decision_params)
    return {
        "unique_id": int(eid),
        "reward": {"name": reward, "metrics": [{"name": m} for m in metrics]},
        "decision": dec,
        "targets": targets,
        "sensors": sensors,
    }


def scenario_cfg(start: datetime, stop: datetime, step: int, engines: list, *, output_step=None, truth_only=True,
                 model="two_body", filter_model=None, events=(), seed=1, integration="RK45",
                 ukf=None, geopotential=None, perturbations=None, station_keeping=False,
                 maneuver_detection=None, save_filter_steps=False, background=True, realtime_obs=True,
                 target_realtime=True, sensor_realtime=True, noise=None, adaptive=None, iod=None,
                 filter_name="unscented_kalman_filter") -> dict:
    seqf = {"name": filter_name, "dynamics_model": filter_model or model}
    if filter_name in ("unscented_kalman_filter", "ukf"):
        seqf.update(ukf or {"alpha": 0.05, "beta": 2.0})
    seqf["maneuver_detection"] = maneuver_detection
    if save_filter_steps:
        seqf["save_filter_steps"] = True
    if adaptive is not None:
        seqf["adaptive_estimation"] = True
    if iod is not None:
        seqf["initial_orbit_determination"] = True
    nz = {"init_position_std_km": 1e-3, "init_velocity_std_km_p_sec": 1e-6,
          "filter_noise_type": "continuous_white_noise", "filter_noise_magnitude": 3.0e-14, "random_seed": seed}
    if noise:
        nz.update(noise)
    cfg = {
        "time": {"start_timestamp": iso(start), "stop_timestamp": iso(stop), "physics_step_sec": int(step),
                 "output_step_sec": int(output_step or step)},
        "noise": nz,
        "propagation": {"propagation_model": model, "integration_method": integration, "station_keeping": station_keeping,
                        "target_realtime_propagation": target_realtime, "sensor_realtime_propagation": sensor_realtime,
                        "truth_simulation_only": truth_only},
        "geopotential": geopotential or {"model": "egm96.txt", "degree": 2, "order": 0},
        "perturbations": perturbations or {"third_bodies": [], "solar_radiation_pressure": False, "general_relativity": False},
        "observation": {"background": background, "realtime_observation": realtime_obs},
        "estimation": {"sequential_filter": seqf, "adaptive_filter": adaptive, "initial_orbit_determination": iod},
        "engines": engines,
        "events": list(events),
    }
    return cfg


# ---------------------------------------------------------------------------------------------
# build / step / teardown
# ---------------------------------------------------------------------------------------------
class Built:
    def __init__(self, app, db_path, cfg):
        self.app, self.db_path, self.cfg = app, db_path, cfg


def build(cfg: dict, *, scheduler=None, base_seed: int = 0, importer_db_path: str | None = None, db_path: str | None = None, exec_order=None) -> Built:
    """Build a real ``Scenario`` through the library's own factory on a fresh stand-in cluster."""
    init()
    import copy

    from . import shimray
    from resonaate.data import clearDBPath
    from resonaate.scenario import buildScenarioFromConfigDict

    shimray.reset(base_seed=base_seed, scheduler=scheduler, exec_order=exec_order)
    shimray.init()
    _reset_library_state()
    try:
        clearDBPath()
    except Exception:  # noqa: BLE001
        pass
    db_path = db_path or new_db_path()
    imp = None
    if importer_db_path:
        from resonaate.data import createDatabasePath

        imp = createDatabasePath(importer_db_path, importer=True)
    app = buildScenarioFromConfigDict(copy.deepcopy(cfg), internal_db_path=db_path, importer_db_path=imp)
    return Built(app, db_path, cfg)


def _reset_library_state():
    """Forget per-process caches that refer to the previous stand-in cluster."""
    from resonaate.parallel.key_value_store import KeyValueStore

    KeyValueStore._client_map.clear()  # noqa: SLF001
    try:
        from resonaate.dynamics.integration_events.event_stack import EventStack

        EventStack.event_stack.clear() if hasattr(EventStack, "event_stack") else None
    except Exception:  # noqa: BLE001
        pass


def teardown(built: Built, keep_db: bool = False):
    from . import shimray
    from resonaate.data import clearDBPath

    try:
        built.app.database.engine.dispose()
        for eng in built.app.tasking_engines.values():
            if getattr(eng, "_importer_db", None) is not None:
                eng._importer_db.engine.dispose()  # noqa: SLF001
        if getattr(built.app, "_ephem_importer", None) is not None:
            built.app._ephem_importer._database.engine.dispose()  # noqa: SLF001
    except Exception:  # noqa: BLE001
        pass
    try:
        clearDBPath()
    except Exception:  # noqa: BLE001
        pass
    _drop_db_cache()
    shimray.gc_store()
    if not keep_db:
        try:
            os.remove(built.db_path)
        except OSError:
            pass


def _drop_db_cache():
    try:
        from resonaate.data import db_connection

        cache = db_connection._GetDBConnection._GetDBConnection__cached_interfaces  # noqa: SLF001
        cache.clear()
    except Exception:  # noqa: BLE001
        pass


def run_like_cli(app, duration: timedelta):
    """Drive the scenario exactly as ``runResonaate`` does."""
    from resonaate.physics.time.conversions import getTargetJulianDate

    target = getTargetJulianDate(app.clock.julian_date_start, duration)
    app.propagateTo(target)


def n_steps(start: datetime, stop: datetime, step: int) -> int:
    return int(math.floor((stop - start).total_seconds() / step))


# ---------------------------------------------------------------------------------------------
# canned orbits / sites used by several properties
# ---------------------------------------------------------------------------------------------
MU = 398600.4418
RE = 6378.1363


def circ_state(a: float, inc_deg: float, raan_deg: float, u_deg: float):
    """ECI state on a circular orbit (independent of the repository's element code)."""
    import numpy as np

    i, O, u = (math.radians(x) for x in (inc_deg, raan_deg, u_deg))
    v = math.sqrt(MU / a)
    P = np.array([math.cos(O) * math.cos(u) - math.sin(O) * math.sin(u) * math.cos(i),
                  math.sin(O) * math.cos(u) + math.cos(O) * math.sin(u) * math.cos(i),
                  math.sin(u) * math.sin(i)])
    Q = np.array([-math.cos(O) * math.sin(u) - math.sin(O) * math.cos(u) * math.cos(i),
                  -math.sin(O) * math.sin(u) + math.cos(O) * math.cos(u) * math.cos(i),
                  math.cos(u) * math.sin(i)])
    return a * P, v * Q


# ---------------------------------------------------------------------------------------------
# process isolation: every run starts from the same pristine interpreter state
# ---------------------------------------------------------------------------------------------
class IsolatedRunError(Exception):
    pass


def run_isolated(fn, *args, timeout: float = 600.0, **kwargs):
    """Run ``fn(*args, **kwargs)`` in a forked child and return its (pickled) result.

    The parent never builds a scenario itself, so each child starts from the same process state
    (module-level caches empty, like a fresh Ray worker); process-wide state written by one run can
    therefore not mask - or be masked by - another run.
    """
    import pickle
    import select
    import signal
    import time as _time

    init()
    r, w = os.pipe()
    pid = os.fork()
    if pid == 0:  # child
        code = 0
        try:
            os.close(r)
            try:
                payload = ("ok", fn(*args, **kwargs))
            except BaseException as e:  # noqa: BLE001
                import traceback

                payload = ("err", f"{type(e).__name__}: {e} :: {traceback.format_exc()[-800:]}")
            data = pickle.dumps(payload, protocol=5)
            with os.fdopen(w, "wb") as f:
                f.write(data)
        except BaseException:  # noqa: BLE001
            code = 3
        finally:
            os._exit(code)
    os.close(w)
    chunks = []
    deadline = _time.time() + timeout
    with os.fdopen(r, "rb") as f:
        while True:
            left = deadline - _time.time()
            if left <= 0:
                os.kill(pid, signal.SIGKILL)
                os.waitpid(pid, 0)
                raise IsolatedRunError(f"isolated run exceeded {timeout:.0f} s")
            ready, _, _ = select.select([f], [], [], min(left, 5.0))
            if ready:
                chunk = f.read1(1 << 20) if hasattr(f, "read1") else f.read(1 << 20)
                if not chunk:
                    break
                chunks.append(chunk)
    os.waitpid(pid, 0)
    if not chunks:
        raise IsolatedRunError("isolated run died without a result")
    kind, value = pickle.loads(b"".join(chunks))
    if kind == "err":
        raise IsolatedRunError(value)
    return value
