"""Small interacting sensor/target networks and per-step digests (shared by C08/C09/C10).

Networks are built so that tasking really happens: targets start near the zenith of the ground
sites (positions placed in ECEF, rotated to ECI with the repository's own rotation, whose
correctness is C04's subject), short steps keep them in view for a few steps, and options force
misses (large initial estimate error + narrow field of view, slow slew).
"""

from __future__ import annotations

import hashlib
import math
from datetime import datetime, timedelta

import numpy as np

from . import scenario_kit as sk

SITES = [(35.0, -106.0), (42.6, -71.5), (-20.0, 140.0), (64.3, -149.2), (8.7, 167.7), (51.0, 10.0)]
T0 = 11001
S0 = 21001
MU = 398600.4415


def overhead_state(start: datetime, lat_deg, lon_deg, radius, heading_deg, off_deg=(0.0, 0.0)):
    """Circular-orbit ECI state that is ``off_deg`` (north, east) degrees from the zenith of a site at ``start``."""
    sk.init()
    from resonaate.physics.transforms.methods import ecef2eci

    lat, lon = math.radians(lat_deg + off_deg[0]), math.radians(lon_deg + off_deg[1])
    up = np.array([math.cos(lat) * math.cos(lon), math.cos(lat) * math.sin(lon), math.sin(lat)])
    east = np.array([-math.sin(lon), math.cos(lon), 0.0])
    north = np.cross(up, east)
    h = math.radians(heading_deg)
    d = math.cos(h) * north + math.sin(h) * east
    xe = ecef2eci(np.concatenate([radius * up, np.zeros(3)]), start)
    de = ecef2eci(np.concatenate([d, np.zeros(3)]), start)[:3]
    rhat = xe[:3] / np.linalg.norm(xe[:3])
    that = de - np.dot(de, rhat) * rhat
    that /= np.linalg.norm(that)
    return radius * rhat, math.sqrt(MU / radius) * that


def gen_network(rng, *, policies=("MunkresDecision", "MyopicNaiveGreedyDecision", "RandomDecision", "AllVisibleDecision"), max_sensors=4, max_targets=5):
    """Random small network description (JSON-serialisable)."""
    ns = rng.randrange(1, max_sensors + 1)
    nt = rng.randrange(1, max_targets + 1)
    policy = rng.choice(list(policies))
    start = datetime(rng.choice([2018, 2019, 2020, 2021]), rng.randrange(1, 13), rng.randrange(1, 28), rng.randrange(24), rng.randrange(60), rng.choice([0, 0, rng.randrange(60)]))
    step = rng.choice([10, 20, 30, 60])
    # co-located or neighbouring sites so that several sensors see the same targets
    base = rng.choice(SITES)
    sensors = []
    for i in range(ns):
        lat = base[0] + rng.uniform(-3, 3)
        lon = base[1] + rng.uniform(-3, 3)
        kind = "adv_radar" if policy == "AllVisibleDecision" else rng.choice(["adv_radar", "radar", "optical"])
        fov = rng.choice(["wide", "wide", "narrow"])
        sensors.append({"id": S0 + i, "lat": lat, "lon": lon, "kind": kind, "fov": fov, "slew": rng.choice([180.0, 180.0, 5.0, 0.05])})
    targets = []
    for j in range(nt):
        targets.append({"id": T0 + j, "radius": rng.choice([6900.0, 7200.0, 7800.0, 9000.0]), "heading": rng.uniform(0, 360),
                        "off": [rng.uniform(-4, 4), rng.uniform(-4, 4)] if rng.random() < 0.8 else [rng.uniform(-60, 60), rng.uniform(-90, 90)]})
    return {
        "kind": "net", "start": start.isoformat(), "step": step, "nsteps": rng.randrange(2, 5), "policy": policy, "base": list(base),
        "sensors": sensors, "targets": targets,
        "init_pos_std": rng.choice([1e-3, 1e-3, 30.0]),  # large error + narrow FoV => FIELD_OF_VIEW misses
        "background": rng.random() < 0.6, "seed": rng.randrange(1, 10_000),
        "reward": rng.choice(["SimpleSummationReward", "CostConstrainedReward", "CombinedReward"]),
        "maneuver_detection": rng.choice([None, None, "standard_nis"]),
        "save_filter_steps": rng.random() < 0.3,
    }


def net_cfg(net: dict, **over) -> dict:
    start = datetime.fromisoformat(net["start"])
    tcfgs = []
    for t in net["targets"]:
        if t.get("geostationary"):
            # fixed in the Earth-fixed frame above the equator near the sites' longitude (rotation taken from the repository; C04's subject)
            from resonaate.physics.transforms.methods import ecef2eci

            lon = math.radians(net["base"][1] + float(t["off"][1]))
            xg = np.asarray(ecef2eci(np.array([42164.17 * math.cos(lon), 42164.17 * math.sin(lon), 0.0, 0.0, 0.0, 0.0]), start), dtype=float)
            tcfgs.append(sk.target_cfg(t["id"], xg[:3], xg[3:]))
            continue
        r, v = overhead_state(start, net["base"][0], net["base"][1], t["radius"], t["heading"], tuple(t["off"]))
        tcfgs.append(sk.target_cfg(t["id"], r, v))
    scfgs = []
    for s in net["sensors"]:
        extra = {"slew_rate": s["slew"]}
        if s["fov"] == "narrow":
            extra["field_of_view"] = {"fov_shape": "conic", "cone_angle": 0.5}
        else:
            extra["field_of_view"] = {"fov_shape": "conic", "cone_angle": 60.0} if s["id"] % 2 else {"fov_shape": "rectangular", "azimuth_angle": 60.0, "elevation_angle": 60.0}
        if s["kind"] == "optical":
            extra["detectable_vismag"] = 30.0
        sc = sk.ground_sensor_cfg(s["id"], s["lat"], s["lon"], kind=s["kind"], **extra)
        if s.get("cov_scale"):  # per-sensor measurement noise (sensors of one type need not share it)
            sc["sensor"]["covariance"] = [[v * float(s["cov_scale"]) for v in row] for row in sc["sensor"]["covariance"]]
        scfgs.append(sc)
    metrics = {"SimpleSummationReward": ("TimeSinceObservation", "ShannonInformation"),
               "CostConstrainedReward": ("ShannonInformation", "LyapunovStability", "SlewTimeMinimization"),
               "CombinedReward": ("ShannonInformation", "LyapunovStability", "SlewTimeMinimization", "TimeSinceObservation")}[net["reward"]]
    dparams = {"seed": net["seed"]} if net["policy"] == "RandomDecision" else None
    eng = sk.engine_cfg(1, tcfgs, scfgs, decision=net["policy"], reward=net["reward"], metrics=metrics, decision_params=dparams)
    md = None
    if net.get("maneuver_detection"):
        md = {"name": net["maneuver_detection"], "threshold": 0.01}
    kw = dict(truth_only=False, model="two_body", seed=net["seed"], background=net["background"],
              noise={"init_position_std_km": net["init_pos_std"], "init_velocity_std_km_p_sec": 1e-6 if net["init_pos_std"] < 1 else 1e-3},
              maneuver_detection=md, save_filter_steps=net.get("save_filter_steps", False))
    kw.update(over)
    stop = start + timedelta(seconds=(net["nsteps"] + 2) * net["step"])
    engines = [eng]
    if net.get("split_engines") and len(scfgs) >= 2 and len(tcfgs) >= 2:
        # two tasking engines, each with its own sensors and targets (first sensor + first half of the targets / the rest)
        h = max(1, len(tcfgs) // 2)
        second = tcfgs[h:] + ([tcfgs[0]] if net.get("shared_target") else [])  # shared_target: the first target is tracked through both engines
        engines = [sk.engine_cfg(1, tcfgs[:h], scfgs[:1], decision=net["policy"], reward=net["reward"], metrics=metrics, decision_params=dparams),
                   sk.engine_cfg(2, second, scfgs[1:], decision=net["policy"], reward=net["reward"], metrics=metrics, decision_params=dparams)]
    return sk.scenario_cfg(start, stop, net["step"], engines, **kw)


# ---------------------------------------------------------------------------------------------
def _b(a) -> bytes:
    return np.ascontiguousarray(np.asarray(a, dtype=float)).tobytes()


def _h(*parts) -> str:
    m = hashlib.blake2b(digest_size=10)
    for p in parts:
        m.update(p if isinstance(p, bytes) else repr(p).encode())
    return m.hexdigest()


def obs_tuple(o):
    return (int(o.sensor_id), int(o.target_id), float(o.julian_date), _h(_b([o.azimuth_rad, o.elevation_rad, o.range_km if o.range_km is not None else np.nan,
                                                                             o.range_rate_km_p_sec if o.range_rate_km_p_sec is not None else np.nan])))


def miss_tuple(m):
    return (int(m.sensor_id), int(m.target_id), float(m.julian_date), str(m.reason))


def step_digest(app, obs_lists=None) -> dict:
    """Digest of everything a step produced, component by component."""
    d = {}
    d["truth"] = {int(i): _h(_b(a.eci_state)) for i, a in sorted(app.target_agents.items())}
    d["sensor_truth"] = {int(i): _h(_b(a.eci_state)) for i, a in sorted(app.sensor_agents.items())}
    d["pointing"] = Numeric({int(i): (np.array(a.sensors.boresight, dtype=float), np.array([float(a.sensors.time_last_tasked)])) for i, a in sorted(app.sensor_agents.items())}, rtol=1e-9, atol=1e-12)
    # numeric component: compared with a rounding-level tolerance (the order of stacked observations
    # inside one filter update legitimately follows completion order and changes the last bits)
    d["estimates"] = Estimates({int(i): (np.array(a.state_estimate, dtype=float), np.array(a.error_covariance, dtype=float)) for i, a in sorted(app.estimate_agents.items())},
                               prior={int(i): np.array(getattr(a.nominal_filter, "pred_p", a.error_covariance), dtype=float) for i, a in sorted(app.estimate_agents.items())})
    d["est_flags"] = {int(i): (bool(a.maneuver_detected), float(a.last_observed_at) if hasattr(a, "last_observed_at") and a.last_observed_at is not None else None)
                      for i, a in sorted(app.estimate_agents.items())}
    for eid, e in sorted(app.tasking_engines.items()):
        d[f"engine{eid}.visibility"] = _h(np.asarray(e.visibility_matrix, dtype=bool).tobytes(), e.visibility_matrix.shape)
        d[f"engine{eid}.reward"] = Numeric({0: (np.array(e.reward_matrix, dtype=float),)}, rtol=2e-2, atol=1e-12)
        d[f"_raw.engine{eid}.reward"] = np.array(e.reward_matrix, dtype=float)
        d[f"_raw.engine{eid}.decision"] = np.array(e.decision_matrix, dtype=bool)
        d[f"engine{eid}.decision"] = _h(np.asarray(e.decision_matrix, dtype=bool).tobytes(), e.decision_matrix.shape)
        d[f"engine{eid}.observations"] = sorted(obs_tuple(o) for o in e.observations)
        d[f"engine{eid}.missed"] = sorted(miss_tuple(m) for m in e.missed_observations)
    return d


class Numeric:
    """Digest component {id: tuple(arrays)} compared up to rounding: |a-b| <= rtol*max|a| + atol per array."""

    def __init__(self, data, rtol=1e-6, atol=0.0):
        self.data, self.rtol, self.atol = data, rtol, atol

    def __eq__(self, other):
        if not isinstance(other, Numeric) or self.data.keys() != other.data.keys():
            return False
        for k, arrs in self.data.items():
            arrs2 = other.data[k]
            if len(arrs) != len(arrs2):
                return False
            for a, b in zip(arrs, arrs2):
                a, b = np.asarray(a, dtype=float), np.asarray(b, dtype=float)
                if a.shape != b.shape:
                    return False
                na, nb = np.isnan(a), np.isnan(b)
                if not np.array_equal(na, nb):
                    return False
                fa, fb = a[~na], b[~nb]
                scale = float(np.max(np.abs(fa))) if fa.size else 0.0
                if fa.size and not np.all(np.abs(fa - fb) <= self.rtol * scale + self.atol):
                    return False
        return True

    def __ne__(self, other):
        return not self.__eq__(other)

    def __hash__(self):
        return 0


class Estimates:
    """{id: (x, P)} compared up to the conditioning of a stacked filter update.

    Permuting the observations stacked into one UKF update is exact in real arithmetic but changes the result by
    about cond(S)*eps in floating point; with range-rate variances of 1e-14 km^2/s^2 next to position variances of
    1e-1 km^2 that reaches 1e-3 relative (measured: dP/|P| = 1.6e-3, dx = 1.5e-6 sigma).  A lost or duplicated
    observation changes P by tens of percent and x by a good fraction of sigma.
    """

    def __init__(self, data, prior=None):
        self.data = data
        self.prior = prior or {}   # the filter's predicted covariance of this step

    def __eq__(self, other):
        if not isinstance(other, Estimates) or self.data.keys() != other.data.keys():
            return False
        for k, (x, p) in self.data.items():
            x2, p2 = other.data[k]
            if x.shape != x2.shape or p.shape != p2.shape:
                return False
            if not (np.all(np.isfinite(x)) and np.all(np.isfinite(p)) and np.all(np.isfinite(x2)) and np.all(np.isfinite(p2))):
                if not (np.array_equal(np.isnan(x), np.isnan(x2)) and np.array_equal(np.isnan(p), np.isnan(p2))):
                    return False
                continue
            sig = np.sqrt(np.maximum(np.abs(np.diag(p)), 0.0))
            if np.any(np.abs(x - x2) > 1e-3 * sig + 1e-12):
                return False
            # P+ = P- - K S K^T: when one update shrinks the covariance by many orders of magnitude the subtraction cancels, and the
            # rounding error of the stacked update, cond(S)*eps*|P-|, can exceed P+ itself (measured: prior 0.2 km, posterior 2 cm,
            # three sensors stacked: dP = 0.5 |P+| from the stacking order alone). The allowance is therefore anchored to the prior.
            pm = self.prior.get(k)
            floor = 1e-18 if pm is None or pm.shape != p.shape or not np.all(np.isfinite(pm)) else 1e-18 + 1e-6 * np.sqrt(np.outer(np.abs(np.diag(pm)), np.abs(np.diag(pm))))
            if np.any(np.abs(p - p2) > 5e-2 * np.sqrt(np.outer(np.abs(np.diag(p)), np.abs(np.diag(p)))) + floor):
                return False
        return True

    def __ne__(self, other):
        return not self.__eq__(other)

    def __hash__(self):
        return 0


def maybe_sub_second_start(net, rng, p=0.1):
    """With probability p move the scenario start between two seconds ("any start instant")."""
    if rng.random() < p:
        t = datetime.fromisoformat(net["start"]).replace(microsecond=rng.choice([500000, 250000, 750000, 123456, 999000]))
        net["start"] = t.isoformat()
        return True
    return False


def compare_runs(digests_a, digests_b):
    """First (step, component) at which two runs of one network differ beyond rounding, or None.

    Returns (diff, after_rounding_divergence).  Stacking the same observations in another order changes a filter update at the
    cond(S)*eps level (tolerated by ``Estimates``); a later update multiplies that by gain times innovation, which for an
    over-confident filter reaches percents of a sigma within a step or two (measured: 1.6e-7 sigma -> 3e-2 sigma in one step).
    So once some estimate has differed in its bits at an earlier step, a later estimate-derived difference is no evidence of
    order dependence: the flag tells the caller to count the schedule as trivial instead of reporting it."""
    rounded = False
    for k, (da, db) in enumerate(zip(digests_a, digests_b)):
        comp = first_difference(da, db)
        if comp is not None:
            derived = not (comp.startswith("truth") or comp.startswith("sensor_truth"))
            return (k + 1, comp), (rounded and derived)
        ea, eb = da.get("estimates"), db.get("estimates")
        if isinstance(ea, Estimates) and isinstance(eb, Estimates):
            for t, (x, p) in ea.data.items():
                x2, p2 = eb.data[t]
                if x.tobytes() != x2.tobytes() or p.tobytes() != p2.tobytes():
                    rounded = True
    return None, False


CAUSAL_ORDER = ["truth", "sensor_truth", ".visibility", ".reward", ".decision", ".observations", ".missed", "pointing", "estimates", "est_flags", "db."]


def _rank(key: str) -> int:
    for i, pat in enumerate(CAUSAL_ORDER):
        if key == pat or (pat.startswith(".") and key.endswith(pat)) or (pat.endswith(".") and key.startswith(pat)):
            return i
    return len(CAUSAL_ORDER)


def first_difference(a: dict, b: dict):
    """First differing component in *causal* order within a step (ignores the _raw.* helper entries)."""
    keys = [k for k in a if not k.startswith("_raw.")]
    for k in sorted(keys, key=_rank):
        if a[k] != b.get(k):
            return k
    for k in b:
        if k not in a and not k.startswith("_raw."):
            return k
    return None


def decision_near_tie(a: dict, b: dict, comp: str, rel: float = 2e-2) -> bool:
    """Do the two decisions collect (nearly) the same reward under run a's reward matrix?  Then the difference can be a tie broken
    by rounding-level differences of the rewards (which derive from the estimates)."""
    eng = comp.rsplit(".", 1)[0]
    ra, da, db = a.get(f"_raw.{eng}.reward"), a.get(f"_raw.{eng}.decision"), b.get(f"_raw.{eng}.decision")
    if ra is None or da is None or db is None or da.shape != db.shape or ra.shape != da.shape:
        return False
    if not np.all(np.isfinite(ra)):
        return True
    va, vb = float(np.sum(ra[da])), float(np.sum(ra[db]))
    return abs(va - vb) <= rel * max(abs(va), abs(vb), 1e-300)
