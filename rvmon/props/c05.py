"""C05 - calendar / Julian-date / scenario times agree; requested durations are honoured.

Monitors
  conv_roundtrip   julianDateToDatetime(datetimeToJulianDate(t)) == t        (whole-second t)
  conv_value       datetimeToJulianDate(t) == exact rational JD (integer reference) within 1 ulp-ish
  conv_monotonic   t1 < t2  =>  JD(t1) < JD(t2)                                (1 s apart)
  sec_roundtrip    ScenarioTime -> JulianDate -> ScenarioTime error < 1e-4 s
  target_jd        getTargetJulianDate(JD(start), D) == JD(start + D)
  run_steps        a timed run (driven exactly like runResonaate) executes floor(D/step) steps
  run_epochs       clock epoch after k steps == start + k*step; Epoch rows == start + k*step
"""

from __future__ import annotations

from datetime import datetime, timedelta

from ..refs import timeref

LEVEL = "exploration"
RULE = ("conversion cases: whole-second UTC instants 1901-2099 drawn per second-of-minute class, leap days, "
        "year/month ends and uniformly; non-trivial = distinct instant whose second-of-minute != 0 (whole-minute "
        "instants are what the unit tests already use) ; duration cases: (start instant, step, D) triples executed "
        "as real truth-only Scenario runs; non-trivial = distinct triple with start second != 0 or D not a multiple of step")
ASSUME = ["integer Gregorian calendar arithmetic in refs/timeref.py is the reference",
          "ray stand-in (rvmon/shimray.py) replaces the executor for the timed runs; everything else is repository code"]
SHARDS = {"quick": 4, "thorough": 16}
BUDGET_S = {"quick": 100, "thorough": 1200}
DECIDING = ["conv_roundtrip", "conv_monotonic", "sec_roundtrip", "run_steps", "run_epochs", "clock_readings", "entry_point"]


MANIFEST = {
    "technique": "runtime monitoring: integer-calendar reference sweep of the date conversions; real timed Scenario runs (single and multi-leg, driven like runResonaate) with a step counter and epoch audit",
    "level_text": "held on every sampled whole-second instant 1901-2099 (round trip, value, monotonicity, second offsets) and every executed (start, step, duration) run: floor(D/step) steps per request, epochs = start + k*step",
    "level_note": "sampled instants/configurations; executor replaced by the ray stand-in for the timed runs",
}


def _instants(ctx, n):
    rng = ctx.pyrng("inst")
    out = []
    specials = []
    for y in (1901, 1904, 1999, 2000, 2016, 2019, 2020, 2024, 2096, 2099):
        for (m, d) in ((1, 1), (2, 28), (2, 29), (3, 1), (12, 31), (6, 30), (7, 1)):
            try:
                base = datetime(y, m, d)
            except ValueError:
                continue
            specials.append(base)
    for _ in range(n):
        r = rng.random()
        if r < 0.25 and specials:
            base = rng.choice(specials)
            sec = rng.choice([0, 1, 59, 60, 61, 3599, 3600, 43199, 43200, 43201, 86340, 86399, rng.randrange(86400)])
            out.append(base + timedelta(seconds=sec))
        else:
            y = rng.randrange(1901, 2100)
            doy = rng.randrange(0, 366 if timeref.is_leap(y) else 365)
            sec = rng.randrange(86400)
            if r < 0.6:
                sec = sec - (sec % 60) + rng.choice(range(1, 60))  # force non-zero second-of-minute
            out.append(datetime(y, 1, 1) + timedelta(days=doy, seconds=sec))
    return out


def check_instant(ctx, t: datetime):
    try:
        _check_instant(ctx, t)
    except Exception as e:  # noqa: BLE001
        # every whole-second instant 1901-2099 is a valid input: a conversion that raises is a violation, not a harness problem
        ctx.check(False, f"conversion-raised-{type(e).__name__}", f"a time conversion raised {type(e).__name__}: {str(e)[:200]} for the instant {t.isoformat()}",
                  {"kind": "instant", "t": t.isoformat()}, mon="conv_roundtrip")


def _check_instant(ctx, t: datetime):
    from resonaate.physics.time.stardate import JulianDate, ScenarioTime, datetimeToJulianDate, julianDateToDatetime

    jd = datetimeToJulianDate(t)
    back = julianDateToDatetime(jd)
    wit = {"kind": "instant", "t": t.isoformat()}
    ctx.check(back == t, "roundtrip-whole-second", f"julianDateToDatetime(datetimeToJulianDate({t.isoformat()})) = {back.isoformat()}",
              wit, mon="conv_roundtrip")
    ref = timeref.jd_float(t)
    ctx.check(abs(float(jd) - ref) <= 1.5e-9, "jd-value", f"JD({t.isoformat()})={float(jd)!r} differs from integer reference {ref!r}",
              wit, mon="conv_value")
    # an instant with a fractional second converts to the exact rational Julian date too (sub-second part not dropped)
    tf = t + timedelta(microseconds=(hash((t.toordinal(), t.second, t.minute)) % 999_999) + 1)
    ctx.check(abs(float(datetimeToJulianDate(tf)) - timeref.jd_float(tf)) <= 1.5e-9, "jd-value-fractional-second",
              f"JD({tf.isoformat()}) differs from the integer reference by {(float(datetimeToJulianDate(tf)) - timeref.jd_float(tf)) * 86400:.6f} s", {"kind": "instant", "t": t.isoformat()}, mon="conv_value")
    t2 = t + timedelta(seconds=1)
    if t2.year <= 2099:
        jd2 = datetimeToJulianDate(t2)
        ctx.check(float(jd2) > float(jd), "monotonic", f"JD not strictly increasing between {t.isoformat()} and +1s", wit, mon="conv_monotonic")
    # scenario-second offsets round trip through Julian dates
    rng = ctx.pyrng("off" + t.isoformat())
    for off in (0.0, 1.0, float(rng.randrange(2, 86400 * 3)), rng.random() * 86400.0):
        st = ScenarioTime(off)
        j = st.convertToJulianDate(jd)
        o2 = JulianDate(j).convertToScenarioTime(jd)
        ctx.check(abs(float(o2) - off) < 1e-4, "scenario-second-roundtrip", f"offset {off} from {t.isoformat()} came back as {float(o2)}",
                  {**wit, "offset": off}, mon="sec_roundtrip")


def check_target_jd(ctx, t: datetime, dur_s: int):
    from resonaate.physics.time.conversions import getTargetJulianDate
    from resonaate.physics.time.stardate import datetimeToJulianDate

    jd0 = datetimeToJulianDate(t)
    tgt = getTargetJulianDate(jd0, timedelta(seconds=dur_s))
    ref = timeref.jd_float(t + timedelta(seconds=dur_s))
    ctx.check(abs(float(tgt) - ref) < 0.4 / 86400.0, "target-date", f"getTargetJulianDate({t.isoformat()}, {dur_s}s) is off by {(float(tgt) - ref) * 86400:.3f} s",
              {"kind": "target", "t": t.isoformat(), "dur": dur_s}, mon="target_jd")


def check_entry_point(ctx, start: datetime, step: int, hours: float):
    """The public entry point itself: ``resonaate.runResonaate(init_message, sim_time_hours)`` on a config written to files;
    the run must take floor(hours*3600/step) steps (hours*3600 evaluated exactly: the value the user typed, as a decimal)."""
    import json
    import shutil
    import sqlite3
    import tempfile
    from fractions import Fraction

    from .. import scenario_kit as sk
    from .. import shimray

    sk.init()
    import resonaate
    from resonaate.data import clearDBPath

    r, v = sk.circ_state(7000.0, 51.6, 30.0, 40.0)
    exact = Fraction(str(hours)) * 3600
    expected = int(exact // step)
    cfg = sk.scenario_cfg(start, start + timedelta(seconds=(expected + 3) * step), step, [sk.engine_cfg(1, [sk.target_cfg(10001, r, v)], [sk.ground_sensor_cfg(20001, 35.0, -106.0)])], truth_only=True)
    wit = {"kind": "entry", "start": start.isoformat(), "step": step, "hours": hours}
    d = tempfile.mkdtemp(prefix="rvmon-c05-")
    try:
        eng = dict(cfg.pop("engines")[0])
        json.dump(eng.pop("targets"), open(f"{d}/targets.json", "w"))
        json.dump(eng.pop("sensors"), open(f"{d}/sensors.json", "w"))
        eng["targets_file"], eng["sensors_file"] = "targets.json", "sensors.json"
        json.dump(eng, open(f"{d}/engine.json", "w"))
        cfg["engines_files"] = ["engine.json"]
        json.dump(cfg, open(f"{d}/init.json", "w"))
        shimray.reset(base_seed=0)
        shimray.init()
        sk._reset_library_state()  # noqa: SLF001
        try:
            clearDBPath()
        except Exception:  # noqa: BLE001
            pass
        dbp = f"{d}/out.sqlite3"
        raised = None
        try:
            resonaate.runResonaate(f"{d}/init.json", sim_time_hours=hours, internal_db_path=dbp)
        except Exception as e:  # noqa: BLE001
            raised = f"{type(e).__name__}: {e}"
        if expected == 0:
            ctx.check(raised is not None, "entry-point-short-run", f"runResonaate({hours} h, step {step}s) shorter than one step did not raise", wit, mon="entry_point")
            return
        con = sqlite3.connect(dbp)
        rows = con.execute("select distinct e.timestampISO from truth_ephemerides t join epochs e on e.julian_date = t.julian_date order by e.julian_date").fetchall()
        con.close()
        got = [datetime.fromisoformat(x[0]) for x in rows]
        want_last = start + timedelta(seconds=expected * step)
        ctx.check(raised is None and bool(got) and got[-1] == want_last and len(got) == expected + 1, "entry-point-duration",
                  f"runResonaate(sim_time_hours={hours}) from {start.isoformat()} with step {step}s recorded {len(got)} epochs ending {got[-1].isoformat() if got else None}; "
                  f"expected {expected + 1} ending {want_last.isoformat()}" + (f" (raised {raised})" if raised else ""), wit, mon="entry_point")
    finally:
        try:
            clearDBPath()
        except Exception:  # noqa: BLE001
            pass
        shutil.rmtree(d, ignore_errors=True)


def check_run(ctx, start: datetime, step: int, dur_s: int, out_step=None):
    """Real truth-only Scenario driven like runResonaate; counts stepForward calls."""
    import sqlite3

    from .. import scenario_kit as sk

    sk.init()
    r, v = sk.circ_state(7000.0, 51.6, 30.0, 40.0)
    tg = [sk.target_cfg(10001, r, v)]
    sn = [sk.ground_sensor_cfg(20001, 35.0, -106.0)]
    span = max(dur_s, step) + 2 * step
    cfg = sk.scenario_cfg(start, start + timedelta(seconds=span), step, [sk.engine_cfg(1, tg, sn)], truth_only=True, output_step=out_step or step)
    b = sk.build(cfg)
    wit = {"kind": "run", "start": start.isoformat(), "step": step, "dur": dur_s, "out_step": out_step or step}
    try:
        app = b.app
        calls = {"n": 0}
        epochs = []
        orig = app.stepForward

        def counted():
            orig()
            calls["n"] += 1
            epochs.append(app.clock.datetime_epoch)
            # the clock's three readings agree after every step: Julian date of the epoch = JD(start + k*step) to within the
            # resolution of a Julian date (one ulp = 4e-5 s), elapsed seconds = k*step exactly
            k_ = calls["n"]
            ref_jd = timeref.jd_float(start + timedelta(seconds=k_ * step))
            off = (float(app.clock.julian_date_epoch) - ref_jd) * 86400.0
            ctx.check(abs(off) <= 6e-5 and float(app.clock.time) == float(k_ * step), "clock-julian-date-drift",
                      f"after {k_} steps of {step}s from {start.isoformat()} the clock's Julian date is {off * 1e3:+.4f} ms off JD(start + k*step); elapsed seconds {float(app.clock.time)!r}",
                      {"kind": "run", "start": start.isoformat(), "step": step, "dur": dur_s, "out_step": out_step or step}, mon="clock_readings")

        app.stepForward = counted
        expected = dur_s // step
        raised = None
        try:
            sk.run_like_cli(app, timedelta(seconds=dur_s))
        except ValueError as e:
            raised = e
        if expected == 0:
            ctx.check(raised is not None and calls["n"] == 0, "short-run", "D < step must raise ValueError and execute no step", wit, mon="run_steps")
        else:
            ctx.check(raised is None and calls["n"] == expected, "timed-run-steps",
                      f"run of {dur_s}s from {start.isoformat()} with step {step}s executed {calls['n']} steps, expected {expected}"
                      + (f" (raised {raised!r})" if raised else ""), wit, mon="run_steps")
            ok = all(e == start + timedelta(seconds=(k + 1) * step) for k, e in enumerate(epochs))
            ctx.check(ok, "clock-epochs", "clock epoch after k steps != start + k*step", wit, mon="run_epochs")
            # Epoch rows referenced by the stored truth states are start + k*step
            con = sqlite3.connect(b.db_path)
            rows = con.execute("select distinct e.timestampISO from truth_ephemerides t join epochs e on e.julian_date = t.julian_date order by e.julian_date").fetchall()
            con.close()
            got = [datetime.fromisoformat(r[0]) for r in rows]
            os_ = out_step or step
            want = [start] + [start + timedelta(seconds=(k + 1) * step) for k in range(calls["n"]) if ((k + 1) * step) % os_ == 0]
            ctx.check(got == want, "recorded-epochs", f"epochs recorded {[(g - start).total_seconds() for g in got][:8]}.. expected {[(w - start).total_seconds() for w in want][:8]}..",
                      wit, mon="run_epochs")
    finally:
        sk.teardown(b)


def check_legs(ctx, start: datetime, step: int, legs):
    """Several consecutive timed runs on one scenario: each request of D seconds from the current epoch advances floor(D/step) steps."""
    from resonaate.physics.time.conversions import getTargetJulianDate
    from resonaate.physics.time.stardate import JulianDate

    from .. import scenario_kit as sk

    sk.init()
    r, v = sk.circ_state(7000.0, 51.6, 30.0, 40.0)
    cfg = sk.scenario_cfg(start, start + timedelta(seconds=sum(legs) + 3 * step), step, [sk.engine_cfg(1, [sk.target_cfg(10001, r, v)], [sk.ground_sensor_cfg(20001, 35.0, -106.0)])], truth_only=True)
    b = sk.build(cfg)
    wit = {"kind": "legs", "start": start.isoformat(), "step": step, "legs": list(legs)}
    try:
        app = b.app
        calls = {"n": 0}
        orig = app.stepForward

        def counted():
            orig()
            calls["n"] += 1

        app.stepForward = counted
        done = 0
        for i, d in enumerate(legs):
            before = calls["n"]
            expected = d // step
            raised = None
            try:
                app.propagateTo(getTargetJulianDate(JulianDate(float(app.clock.julian_date_epoch)), timedelta(seconds=d)))
            except ValueError as e:
                raised = e
            got = calls["n"] - before
            if expected == 0:
                ctx.check(raised is not None and got == 0, "short-run", "D < step must raise ValueError and execute no step", wit, mon="run_steps")
            else:
                ctx.check(raised is None and got == expected, "timed-run-steps-later-leg" if i else "timed-run-steps",
                          f"leg {i + 1} of {legs}: a request of {d}s from {start.isoformat()}+{done * step}s (step {step}s) executed {got} steps, expected {expected}"
                          + (f" (raised {raised!r})" if raised else ""), wit, mon="run_steps")
            done += got
            ctx.check(app.clock.datetime_epoch == start + timedelta(seconds=done * step), "clock-epochs", "clock epoch != start + k*step after a leg", wit, mon="run_epochs")
    finally:
        sk.teardown(b)


def run(ctx):
    n_inst = ctx.scale(40_000, 4_000_000)
    for t in _instants(ctx, n_inst):
        check_instant(ctx, t)
        ctx.case(("i", t.isoformat()), nontrivial=t.second != 0, sample=None)
        if ctx.evaluations % 5000 == 1:
            ctx.sample({"instant": t.isoformat()})
        if ctx.time_left() < 0.45 * (BUDGET_S[ctx.tier]):
            break
    ctx.note("instants_checked", ctx.evaluations)
    rng = ctx.pyrng("runs")
    n_runs = ctx.scale(48, 3000)
    steps = [2, 5, 7, 10, 30, 60, 100, 300, 600, 3600]
    for i in range(n_runs):
        if ctx.time_left() < 5:
            break
        step = rng.choice(steps)
        base = datetime(rng.randrange(2015, 2022), rng.randrange(1, 13), rng.randrange(1, 28), rng.randrange(24), rng.randrange(60), 0)
        sec = i % 60 if rng.random() < 0.7 else 0
        start = base + timedelta(seconds=sec)
        if rng.random() < 0.15:
            start = datetime(rng.choice([2016, 2019, 2020]), 12, 31, 23, 59, rng.randrange(60))
        if rng.random() < 0.15:
            start = start.replace(microsecond=rng.choice([500000, 250000, 750000, 123456, 999000]))  # "from any start instant": between two seconds
            ctx.count("runs_from_sub_second_start")
        k = rng.randrange(1, 25)
        dur = k * step
        r = rng.random()
        if r < 0.35:
            dur += rng.randrange(1, step)
        elif r < 0.45:
            dur = rng.randrange(1, step)  # shorter than one step
        dur = min(dur, 3 * 3600 + step)
        if rng.random() < 0.12:
            # a request longer than one day (timedelta.days != 0), on a coarse step so the run stays short
            step = rng.choice([3600, 7200, 21600])
            dur = 86400 * rng.choice([1, 1, 2]) + rng.choice([0, step * rng.randrange(1, 4), rng.randrange(1, step)])
            ctx.count("runs_longer_than_a_day")
        # the target-date conversion alone, for requests from seconds to weeks
        for dlong in (86400 * rng.randrange(1, 40), 86400 * rng.randrange(1, 40) + rng.randrange(1, 86400), rng.randrange(1, 86400)):
            check_target_jd(ctx, start, dlong)
        out_step = rng.choice([None, None, step * 2, step * 3])
        check_target_jd(ctx, start, dur)
        check_run(ctx, start, step, dur, out_step)
        if i % 3 == 0:
            legs = [rng.randrange(1, 8) * step + rng.choice([0, 0, rng.randrange(1, step)]) for _ in range(rng.randrange(2, 5))]
            check_legs(ctx, start, step, legs)
            ctx.count("multi_leg_runs")
        if i % 6 == 0:
            # the entry point with the hour values a user types: exact multiples of the step whose float product with 3600 falls an
            # ulp short of an integer (2.05, 1.13, 4.1 ...), plain fractions, and non-multiples
            hours = rng.choice([2.05, 1.13, 4.1, 4.35, 0.5, 1.15, 0.25, 2.0, 0.07, 1.01])
            st = rng.choice([180, 60, 36, 300]) if hours < 3 else rng.choice([180, 900])
            check_entry_point(ctx, start, st, hours)
            ctx.count("entry_point_runs")
        ctx.case(("r", start.isoformat(), step, dur), nontrivial=(start.second != 0 or dur % step != 0),
                 sample={"start": start.isoformat(), "step": step, "duration_s": dur})
        ctx.count("timed_runs")


def replay(ctx, w):
    from .. import scenario_kit as sk

    sk.init()
    if w.get("kind") == "legs":
        check_legs(ctx, datetime.fromisoformat(w["start"]), w["step"], w["legs"])
    elif w.get("kind") == "entry":
        check_entry_point(ctx, datetime.fromisoformat(w["start"]), w["step"], w["hours"])
    elif w.get("kind") == "run":
        check_run(ctx, datetime.fromisoformat(w["start"]), w["step"], w["dur"], w.get("out_step"))
    elif w.get("kind") == "target":
        check_target_jd(ctx, datetime.fromisoformat(w["t"]), w["dur"])
    else:
        check_instant(ctx, datetime.fromisoformat(w["t"]))
