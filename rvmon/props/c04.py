"""C04 - reference-frame conversions are exact inverses, rigid and continuous in time.

Every relation is evaluated on the repository's real conversion functions; the oracles are the
relations themselves plus refs/geomref.py (ellipsoid definition, explicit SEZ basis) and
refs/timeref.py (calendar).
"""

from __future__ import annotations

import math
from datetime import datetime, timedelta

import numpy as np

from ..refs import geomref as g
from ..refs import timeref

LEVEL = "exploration"
RULE = ("cases = (relation, date, state) tuples: dates uniform over the EOP table 2014-01-02..2022-10-02 plus every kind of "
        "calendar boundary; positions from the surface to 10 Earth radii incl. poles, equator, antimeridian and the z axis; "
        "non-trivial = distinct case that actually evaluated a conversion pair or a boundary pair (all do); boundary "
        "pairs are counted separately in coverage.boundaries")
ASSUME = ["reference-ellipsoid constants (a, e) and Earth spin rate are shared with the repository; formulas are independent",
          "EOP day-to-day steps (|dUT1| <= 3 ms/day) are accepted as continuous: tolerance 1e-6 rad on rotation continuity"]
SHARDS = {"quick": 4, "thorough": 16}
BUDGET_S = {"quick": 90, "thorough": 1200}
DECIDING = ["eci_ecef_roundtrip", "rigid", "lla_roundtrip", "lla_vs_ellipsoid", "sez_roundtrip", "sez_basis", "razel_radec",
            "rsw_ntw", "rotation_continuity", "rotation_axis", "time_zone_independent", "leap_second_jump", "rot_identities", "skew", "day_of_year", "composites"]

MANIFEST = {
    "technique": "runtime monitoring: inverse / rigidity / definition relations evaluated on the real conversion functions over boundary-biased dates and states; Earth-rotation continuity monitor across calendar boundaries and leap seconds",
    "level_text": "held on every generated (relation, date, state): conversion pairs mutually inverse within calibrated tolerances, position map a proper rotation, geodetic result on the ellipsoid normal, rotation angle = w*dt across minute/day/month/leap-day/year boundaries with the required 1 s jump at both leap seconds",
    "level_note": "sampled inputs; ellipsoid constants and spin rate shared with the repository; EOP day steps accepted as continuous (1e-6 rad)",
}
D0 = datetime(2014, 1, 2)
D1 = datetime(2022, 10, 1)
LEAPS = [datetime(2015, 7, 1), datetime(2017, 1, 1)]  # 00:00:00 following an inserted leap second


def _rand_date(rng, whole=True):
    span = int((D1 - D0).total_seconds())
    t = D0 + timedelta(seconds=rng.randrange(span))
    if not whole:
        t += timedelta(microseconds=rng.randrange(1_000_000))
    return t


def _rand_pos(rng, kind=None):
    kind = kind or rng.choice(["any", "any", "any", "pole", "equator", "antimeridian", "zaxis", "surface"])
    r = g.RE * (1.0 + 10 ** rng.uniform(-4, 0.95)) if kind != "surface" else g.RE * (1 + rng.uniform(0, 1e-3))
    lat = math.asin(rng.uniform(-1, 1))
    lon = rng.uniform(-math.pi, math.pi)
    if kind == "pole":
        lat = math.copysign(math.pi / 2 - 10 ** rng.uniform(-9, -2), rng.uniform(-1, 1))
    elif kind == "equator":
        lat = rng.choice([0.0, 10 ** rng.uniform(-12, -3), -(10 ** rng.uniform(-12, -3))])
    elif kind == "antimeridian":
        lon = math.copysign(math.pi - 10 ** rng.uniform(-12, -3), rng.uniform(-1, 1))
    elif kind == "zaxis":
        return np.array([0.0, 0.0, math.copysign(r, rng.uniform(-1, 1))]), kind
    return r * np.array([math.cos(lat) * math.cos(lon), math.cos(lat) * math.sin(lon), math.sin(lat)]), kind


def _rand_vel(rng):
    v = np.array([rng.gauss(0, 1) for _ in range(3)])
    return v / np.linalg.norm(v) * rng.uniform(0, 12.0)


def _w(kind, **kw):
    out = {"kind": kind}
    for k, v in kw.items():
        if isinstance(v, datetime):
            v = v.isoformat()
        elif isinstance(v, np.ndarray):
            v = [float(x) for x in v]
        out[k] = v
    return out


# ---------------------------------------------------------------------------------------------
def chk_eci_ecef(ctx, t, x):
    from resonaate.physics.transforms.methods import ecef2eci, eci2ecef

    w = _w("eci_ecef", t=t, x=x)
    xe = eci2ecef(x, t)
    xb = ecef2eci(xe, t)
    tol_r = 1e-12 * max(1.0, np.linalg.norm(x[:3])) * 50
    ctx.check(np.linalg.norm(xb[:3] - x[:3]) <= tol_r and np.linalg.norm(xb[3:] - x[3:]) <= 1e-11,
              "eci-ecef-roundtrip", f"ecef2eci(eci2ecef(x)) differs by {np.linalg.norm(xb - x):.3e}", w, mon="eci_ecef_roundtrip")
    # rigidity: the position map is a rotation M (recovered from basis vectors through the function itself)
    M = np.column_stack([eci2ecef(np.array([*e, 0, 0, 0.0]), t)[:3] for e in np.eye(3)])
    ok = np.allclose(M @ M.T, np.eye(3), atol=1e-12) and abs(np.linalg.det(M) - 1) < 1e-12
    ok = ok and abs(np.linalg.norm(xe[:3]) - np.linalg.norm(x[:3])) <= tol_r
    ctx.check(ok, "rigid-position", "ECI->ECEF position map is not a proper rotation / changes length", w, mon="rigid")
    # velocity: v_ecef = M v - w x (M r)  (polar motion and LOD are below 2e-6 km/s)
    vexp = M @ x[3:] - np.cross([0, 0, g.OMEGA], M @ x[:3])
    tol_v = 3e-10 * np.linalg.norm(x[:3]) + 1e-9
    ctx.check(np.linalg.norm(xe[3:] - vexp) <= tol_v, "rigid-velocity",
              f"v_ecef differs from M v - w x r by {np.linalg.norm(xe[3:] - vexp):.3e} km/s", w, mon="rigid")


def chk_pair_geometry(ctx, t, x1, x2):
    from resonaate.physics.transforms.methods import eci2ecef

    w = _w("pair", t=t, x1=x1, x2=x2)
    e1, e2 = eci2ecef(x1, t), eci2ecef(x2, t)
    d0, d1 = np.linalg.norm(x1[:3] - x2[:3]), np.linalg.norm(e1[:3] - e2[:3])
    a0, a1 = g.angle_between(x1, x2), g.angle_between(e1, e2)
    ctx.check(abs(d0 - d1) <= 1e-10 * max(1.0, d0) + 1e-9 and abs(a0 - a1) <= 1e-11, "rigid-relative",
              f"relative distance/angle changed by {abs(d0 - d1):.2e} km / {abs(a0 - a1):.2e} rad", w, mon="rigid")


def _lla_tol(r):
    """Calibrated position tolerance (km) of the closed-form geodetic inversion.

    Measured on the unchanged tree (DESIGN 3.7): <= 7e-7 km everywhere except near the poles where
    the closed form loses digits as 2e-12/colatitude (max 1.2e-4 km at colatitude 1e-8 rad).
    """
    rr = float(np.linalg.norm(r))
    colat = math.atan2(math.hypot(r[0], r[1]), abs(r[2]))
    return max(1.0, rr / g.RE) * (1e-5 + min(2e-10 / max(colat, 1e-13), 2e-3))


def chk_lla(ctx, r, kind):
    from resonaate.physics.transforms.methods import ecef2lla, lla2ecef

    w = _w("lla", r=r, where=kind)
    x = np.array([*r, 0, 0, 0.0])
    lla = ecef2lla(x)
    ctx.check(np.all(np.isfinite(lla)), "lla-finite", f"ecef2lla returned {lla}", w, mon="lla_roundtrip")
    if not np.all(np.isfinite(lla)):
        return
    tol = _lla_tol(r)
    back = lla2ecef(lla)
    err = np.linalg.norm(back[:3] - r)
    ctx.check(err <= tol, "lla-roundtrip", f"lla2ecef(ecef2lla(r)) off by {err:.3e} km ({kind})", w, mon="lla_roundtrip")
    # against the ellipsoid definition: the point at height alt along the normal at (lat, lon) is r
    p = g.ellipsoid_point(float(lla[0]), float(lla[1]), float(lla[2]))
    err2 = np.linalg.norm(p - r)
    ctx.check(err2 <= tol, "lla-ellipsoid", f"ecef2lla result is {err2:.3e} km away from the ellipsoid-normal point ({kind})", w, mon="lla_vs_ellipsoid")
    rlat, rlon, ralt = g.geodetic_from_ecef(r)
    ctx.check(abs(float(lla[2]) - ralt) <= tol, "lla-altitude", f"ecef2lla altitude {lla[2]} vs iterative reference {ralt} ({kind})", w, mon="lla_vs_ellipsoid")
    ctx.check(-math.pi / 2 - 1e-12 <= lla[0] <= math.pi / 2 + 1e-12 and -math.pi - 1e-12 <= lla[1] <= math.pi + 1e-12, "lla-range", f"angles out of range {lla}", w, mon="lla_roundtrip")


def chk_lla_fwd(ctx, lat, lon, alt):
    from resonaate.physics.transforms.methods import ecef2lla, geocentric2geodetic, geodetic2geocentric, lla2ecef

    w = _w("lla_fwd", lat=lat, lon=lon, alt=alt)
    x = lla2ecef(np.array([lat, lon, alt]))
    p = g.ellipsoid_point(lat, lon, alt)
    ctx.check(np.linalg.norm(x[:3] - p) <= 1e-9 * (1 + alt / g.RE) and np.all(x[3:] == 0), "lla2ecef-ellipsoid", f"lla2ecef off the ellipsoid definition by {np.linalg.norm(x[:3] - p):.3e} km", w, mon="lla_vs_ellipsoid")
    back = ecef2lla(x)
    if np.all(np.isfinite(back)):
        pb = g.ellipsoid_point(float(back[0]), float(back[1]), float(back[2]))
        ctx.check(np.linalg.norm(pb - p) <= _lla_tol(p), "lla-roundtrip-fwd", f"ecef2lla(lla2ecef({lat},{lon},{alt})) = {back}: {np.linalg.norm(pb - p):.3e} km away", w, mon="lla_roundtrip")
    else:
        ctx.check(False, "lla-finite", f"ecef2lla(lla2ecef({lat},{lon},{alt})) = {back}", w, mon="lla_roundtrip")
    if abs(lat) < math.pi / 2 - 1e-6:
        gc = geodetic2geocentric(lat)
        ctx.check(abs(geocentric2geodetic(gc) - lat) <= 1e-12, "geocentric-inverse", "geocentric2geodetic(geodetic2geocentric(lat)) != lat", w, mon="lla_roundtrip")
        surf = g.ellipsoid_point(lat, 0.0, 0.0)
        ctx.check(abs(math.atan2(surf[2], surf[0]) - gc) <= 1e-12, "geocentric-definition", "geodetic2geocentric differs from the surface point's geocentric latitude", w, mon="lla_vs_ellipsoid")


def chk_sez(ctx, lat, lon, x):
    from resonaate.physics.transforms.methods import ecef2sez, razel2sez, sez2ecef, sez2razel

    w = _w("sez", lat=lat, lon=lon, x=x)
    s = ecef2sez(x, lat, lon)
    b = sez2ecef(s, lat, lon)
    ctx.check(np.linalg.norm(b - x) <= 1e-11 * max(1, np.linalg.norm(x)), "sez-roundtrip", f"sez2ecef(ecef2sez(x)) off by {np.linalg.norm(b - x):.2e}", w, mon="sez_roundtrip")
    B = g.sez_basis(lat, lon)
    ctx.check(np.linalg.norm(s[:3] - B @ x[:3]) <= 1e-11 * max(1, np.linalg.norm(x[:3])) and np.linalg.norm(s[3:] - B @ x[3:]) <= 1e-11 * max(1, np.linalg.norm(x[3:])),
              "sez-basis", "ecef2sez differs from the explicit South/East/Zenith unit-vector basis", w, mon="sez_basis")
    rng_, el, az, rr, elr, azr = sez2razel(s)
    rrng, raz, rel = g.razel_from_sez(s)
    horiz = math.hypot(s[0], s[1])
    ok = abs(rng_ - rrng) <= 1e-11 * max(1, rrng) and abs(el - rel) <= 1e-10
    if horiz > 1e-6 * rrng:
        ok = ok and abs(g.wrap_pm_pi(az - raz)) <= 1e-9
    ctx.check(ok and 0 <= az < 2 * math.pi + 1e-15, "razel-definition", f"sez2razel gives (rng,el,az)=({rng_},{el},{az}) reference ({rrng},{rel},{raz})", w, mon="sez_basis")
    ctx.check(abs(rr - g.range_rate(s[:3], s[3:])) <= 1e-11 * max(1, np.linalg.norm(s[3:])), "range-rate", "range rate != r.v/|r|", w, mon="sez_basis")
    if horiz > 1e-3 * rrng:
        s2 = razel2sez(rng_, el, az, rr, elr, azr)
        ctx.check(np.linalg.norm(s2 - s) <= 1e-9 * max(1, np.linalg.norm(s)), "razel-sez-inverse", f"razel2sez(sez2razel(s)) off by {np.linalg.norm(s2 - s):.2e}", w, mon="sez_roundtrip")


def chk_composites(ctx, t, x, lat, lon):
    """The one-call composites (inertial <-> geodetic, inertial <-> topocentric horizon) and the TEME entry point."""
    from resonaate.physics.transforms.methods import eci2ecef, eci2lla, eci2sez, lla2eci, sez2eci, teme2ecef

    w = _w("composites", t=t, x=x, lat=lat, lon=lon)
    M = np.column_stack([eci2ecef(np.array([*e, 0, 0, 0.0]), t)[:3] for e in np.eye(3)])
    r_ecef = M @ x[:3]
    # inertial -> geodetic: the point at that height on that ellipsoid normal, taken back to the inertial frame, is the position
    lla = eci2lla(x, t)
    if np.all(np.isfinite(lla)):
        p = g.ellipsoid_point(float(lla[0]), float(lla[1]), float(lla[2]))
        tol = _lla_tol(r_ecef)
        ctx.check(np.linalg.norm(p - r_ecef) <= tol, "eci2lla-ellipsoid", f"eci2lla result is {np.linalg.norm(p - r_ecef):.3e} km away from the ellipsoid-normal point of the rotated position", w, mon="composites")
        back = lla2eci(lla, t)
        ctx.check(np.linalg.norm(back[:3] - x[:3]) <= tol + 1e-9, "lla2eci-inverse", f"lla2eci(eci2lla(x)) off by {np.linalg.norm(back[:3] - x[:3]):.3e} km", w, mon="composites")
        # a point fixed to the Earth moves with w x r in the inertial frame (w along the Earth-fixed pole, which precession and
        # nutation tilt against the inertial z axis)
        vexp = np.cross(M.T @ np.array([0, 0, g.OMEGA]), back[:3])
        ctx.check(np.linalg.norm(back[3:] - vexp) <= 1e-9 * np.linalg.norm(back[:3]) + 1e-9, "lla2eci-velocity",  # polar motion <= 0.6 arcsec: 2.1e-10 |r|
                  f"lla2eci velocity differs from w x r by {np.linalg.norm(back[3:] - vexp):.3e} km/s", w, mon="composites")
    else:
        ctx.check(False, "lla-finite", f"eci2lla returned {lla}", w, mon="composites")
    # inertial <-> topocentric horizon of a site (x is a vector relative to the observer)
    s = eci2sez(x, lat, lon, t)
    B = g.sez_basis(lat, lon)
    nr = max(1.0, np.linalg.norm(x[:3]))
    ctx.check(np.linalg.norm(s[:3] - B @ r_ecef) <= 1e-10 * nr, "eci2sez-basis", f"eci2sez position differs from (S,E,Z basis) x (Earth-fixed vector) by {np.linalg.norm(s[:3] - B @ r_ecef):.3e} km", w, mon="composites")
    ctx.check(abs(np.linalg.norm(s[:3]) - np.linalg.norm(x[:3])) <= 1e-10 * nr, "eci2sez-length", "eci2sez changes the vector's length", w, mon="composites")
    xb = sez2eci(s, lat, lon, t)
    ctx.check(np.linalg.norm(xb[:3] - x[:3]) <= 1e-10 * nr and np.linalg.norm(xb[3:] - x[3:]) <= 1e-10, "eci-sez-roundtrip", f"sez2eci(eci2sez(x)) differs by {np.linalg.norm(xb - x):.3e}", w, mon="composites")
    # TEME (what SGP4 delivers) -> Earth fixed: a proper rotation, within the accumulated precession/nutation (< 0.6 deg in the
    # table's span) of the inertial -> Earth-fixed rotation of the same instant
    Mt = np.column_stack([teme2ecef(np.array([*e, 0, 0, 0.0]), t)[:3] for e in np.eye(3)])
    ok = np.allclose(Mt @ Mt.T, np.eye(3), atol=1e-12) and abs(np.linalg.det(Mt) - 1) < 1e-12
    xt = teme2ecef(x, t)
    ok = ok and abs(np.linalg.norm(xt[:3]) - np.linalg.norm(x[:3])) <= 1e-10 * nr and np.linalg.norm(xt[:3] - Mt @ x[:3]) <= 1e-10 * nr
    ctx.check(ok, "teme-rigid", "TEME->ECEF position map is not a proper rotation / changes length", w, mon="composites")
    ang = math.acos(max(-1.0, min(1.0, (np.trace(Mt @ M.T) - 1) / 2)))
    ctx.check(ang <= 0.02, "teme-near-inertial", f"TEME->ECEF and ECI->ECEF rotations of the same instant differ by {ang:.4e} rad (precession + nutation since J2000 is < 0.006 rad in the table's span)", w, mon="composites")
    vexp = Mt @ x[3:] - np.cross([0, 0, g.OMEGA], Mt @ x[:3])
    ctx.check(np.linalg.norm(xt[3:] - vexp) <= 1e-9 * np.linalg.norm(x[:3]) + 1e-9, "teme-velocity", f"TEME->ECEF velocity differs from M v - w x r by {np.linalg.norm(xt[3:] - vexp):.3e} km/s", w, mon="composites")


def chk_razel_radec(ctx, t, obs, tgt):
    from resonaate.physics.transforms.methods import eci2radec, eci2razel, radec2razel, razel2radec

    w = _w("razel_radec", t=t, obs=obs, tgt=tgt)
    ra = eci2razel(tgt, obs, t)
    rd = razel2radec(*ra, observer_eci=obs, utc_date=t)
    back = radec2razel(*rd, observer_eci=obs, utc_date=t)
    scale = np.array([max(1, ra[0]), 1, 1, 10, 1e-2, 1e-2])
    diffs = np.array([ra[0] - back[0], ra[1] - back[1], g.wrap_pm_pi(ra[2] - back[2]), ra[3] - back[3], ra[4] - back[4], ra[5] - back[5]])
    nearzen = abs(ra[1]) > math.pi / 2 - 1e-3
    if not nearzen:
        ctx.check(np.all(np.abs(diffs) <= 1e-8 * scale), "razel-radec-inverse", f"radec2razel(razel2radec(x)) differs: {diffs}", w, mon="razel_radec")
    # radec is the spherical form of the ECI relative vector
    rel = tgt - obs
    rho = np.linalg.norm(rel[:3])
    dec = math.asin(rel[2] / rho)
    ras = math.atan2(rel[1], rel[0]) % (2 * math.pi)
    ok = abs(rd[0] - rho) <= 1e-8 * max(1, rho) and abs(rd[1] - dec) <= 1e-9
    if math.hypot(rel[0], rel[1]) > 1e-6 * rho:
        ok = ok and abs(g.wrap_pm_pi(rd[2] - ras)) <= 1e-9
    ctx.check(ok, "radec-definition", f"razel2radec -> (rng,dec,ra)={rd[:3]} but ECI relative vector gives ({rho},{dec},{ras})", w, mon="razel_radec")
    rd2 = eci2radec(tgt, obs, t)
    ctx.check(np.allclose(rd2, rd, rtol=0, atol=1e-9), "eci2radec-consistent", "eci2radec != razel2radec(eci2razel)", w, mon="razel_radec")


def chk_rsw_ntw(ctx, x, rel):
    from resonaate.physics.transforms.methods import eci2rsw, ntw2eci, rsw2eci

    w = _w("rsw_ntw", x=x, rel=rel)
    de = rsw2eci(x, rel)
    back = eci2rsw(x, x + de)
    ctx.check(np.linalg.norm(back - rel) <= 1e-9 * max(1, np.linalg.norm(rel)), "rsw-inverse", f"eci2rsw(x, x + rsw2eci(x, d)) off by {np.linalg.norm(back - rel):.2e}", w, mon="rsw_ntw")
    ctx.check(abs(np.linalg.norm(de[:3]) - np.linalg.norm(rel[:3])) <= 1e-10 * max(1, np.linalg.norm(rel[:3])), "rsw-length", "rsw2eci changes vector length", w, mon="rsw_ntw")
    M = np.column_stack([rsw2eci(x, np.array([*e, 0, 0, 0.0]))[:3] for e in np.eye(3)])
    rhat = g.unit(x[:3])
    what = g.unit(np.cross(x[:3], x[3:]))
    ok = np.allclose(M.T @ M, np.eye(3), atol=1e-12) and abs(np.linalg.det(M) - 1) < 1e-12 and np.allclose(M[:, 0], rhat, atol=1e-12) and np.allclose(M[:, 2], what, atol=1e-12)
    ctx.check(ok, "rsw-frame", "RSW axes are not (radial, along-track, orbit-normal) right-handed orthonormal", w, mon="rsw_ntw")
    N = np.column_stack([ntw2eci(x, np.array([*e, 0, 0, 0.0]))[:3] for e in np.eye(3)])
    that = g.unit(x[3:])
    ok = np.allclose(N.T @ N, np.eye(3), atol=1e-12) and abs(np.linalg.det(N) - 1) < 1e-12 and np.allclose(N[:, 1], that, atol=1e-12) and np.allclose(N[:, 2], what, atol=1e-12)
    ctx.check(ok, "ntw-frame", "NTW axes are not (normal, along-velocity, orbit-normal) right-handed orthonormal", w, mon="rsw_ntw")


def _rot(t):
    from resonaate.physics.transforms.reductions import ReductionParams

    return ReductionParams.build(t).rot_rnp


def chk_continuity(ctx, t, delta_s, label):
    """Earth-rotation angle between t and t+delta equals w*delta (elapsed SI seconds)."""
    t2 = t + timedelta(seconds=delta_s)
    w = _w("continuity", t=t, delta=delta_s, label=label)
    Ra, Rb = _rot(t), _rot(t2)
    ang = g.rotation_angle_about_z(Ra, Rb)
    leap = sum(1 for L in LEAPS if t < L <= t2)
    expect = g.OMEGA * 1.00273781191135448 / 1.0027378119113546 * (delta_s + leap)
    dev = g.wrap_pm_pi(ang - expect)
    # Earth-orientation parameters are looked up per UTC day (no interpolation): an interval holding a UTC midnight
    # legitimately sees UT1-UTC and the pole step (<= 2.5 ms ~ 2e-7 rad); anywhere else the rotation is smooth
    # (calibrated: <= 1.3e-12 rad about z for spans up to an hour, off-axis part <= 1.1e-7 * sin(angle)).
    midnight = t.date() != t2.date()
    D = Rb @ Ra.T
    off = math.hypot(0.5 * (D[2, 1] - D[1, 2]), 0.5 * (D[0, 2] - D[2, 0]))
    if leap:
        ctx.check(abs(dev) <= 1e-6, "leap-second-jump", f"across the leap second at {t2.isoformat()} the rotation advanced {ang:.6e} rad, expected {expect:.6e}", w, mon="leap_second_jump")
    else:
        ctx.check(abs(dev) <= (1e-6 if midnight else 1e-10), "rotation-continuity" if midnight else "rotation-continuity-within-day",
                  f"Earth rotation between {t.isoformat()} and +{delta_s}s [{label}] is {ang:.9e} rad, expected {expect:.9e} (dev {dev:.2e})", w, mon="rotation_continuity")
        ctx.check(off <= (1e-6 if midnight else 0.0) + 1e-10 + 1e-6 * abs(math.sin(expect)), "rotation-axis-jump",
                  f"relative Earth-fixed rotation between {t.isoformat()} and +{delta_s}s [{label}] has an off-axis part {off:.3e} (axis not the pole)", w, mon="rotation_axis")
    ctx.add_to_set("boundaries", label)


def chk_helpers(ctx, a, b, wv, v):
    from resonaate.physics import maths as m

    w = _w("helpers", a=a, b=b, w=wv, v=v)
    for k, f in ((1, m.rot1), (2, m.rot2), (3, m.rot3)):
        R = f(a)
        ok = np.allclose(R @ R.T, np.eye(3), atol=1e-14) and abs(np.linalg.det(R) - 1) < 1e-14
        ok = ok and np.allclose(f(a) @ f(b), f(a + b), atol=1e-13) and np.allclose(f(-a), R.T, atol=1e-15)
        ok = ok and np.allclose(R, g.rot_axis(k, a), atol=1e-15)
        ctx.check(ok, f"rot{k}-identities", f"rot{k} fails orthogonality/additivity/inverse/definition at angle {a}", w, mon="rot_identities")
    S = m.skewSymmetric(wv)
    ctx.check(np.allclose(S @ v, np.cross(wv, v), atol=1e-12 * (1 + np.linalg.norm(wv) * np.linalg.norm(v))), "skew-cross", f"skewSymmetric(w) @ v != cross(w, v): {S @ v} vs {np.cross(wv, v)}", w, mon="skew")
    ctx.check(np.allclose(S, -S.T, atol=0), "skew-antisymmetric", "skewSymmetric(w) is not antisymmetric", w, mon="skew")
    C = np.array([[0, -wv[2], wv[1]], [wv[2], 0, -wv[0]], [-wv[1], wv[0], 0]])
    for k, f, df in ((1, m.rot1, m.dotRot1), (2, m.rot2, m.dotRot2), (3, m.rot3, m.dotRot3)):
        ctx.check(np.allclose(df(a, wv), f(a) @ C, atol=1e-12 * (1 + np.linalg.norm(wv))), f"dotrot{k}", f"dotRot{k}(a, w) != rot{k}(a) [w]x", w, mon="skew")


def chk_doy(ctx, t):
    from resonaate.physics.time.conversions import dayOfYear

    w = _w("doy", t=t)
    t = t.replace(microsecond=0)
    got = dayOfYear(t.year, t.month, t.day, t.hour, t.minute, t.second)
    exp = (t - datetime(t.year, 1, 1)).total_seconds() / 86400.0 + 1.0
    ctx.check(abs(got - exp) <= 1e-9, "day-of-year", f"dayOfYear({t.isoformat()}) = {got}, expected {exp}", w, mon="day_of_year")


def _boundaries(rng, n):
    out = []
    for _ in range(n):
        y = rng.randrange(2014, 2023)
        kind = rng.choice(["minute", "hour", "midnight", "month", "leapday", "year", "leapsec"])
        try:
            if kind == "minute":
                t = _rand_date(rng).replace(second=0)
            elif kind == "hour":
                t = _rand_date(rng).replace(second=0, minute=0)
            elif kind == "midnight":
                t = _rand_date(rng).replace(second=0, minute=0, hour=0)
            elif kind == "month":
                t = datetime(y, rng.randrange(1, 13), 1)
            elif kind == "leapday":
                yy = rng.choice([2016, 2020])
                t = datetime(yy, rng.choice([2, 3]), rng.choice([29, 1]) if False else 1) if rng.random() < 0.5 else datetime(yy, 2, 29)
            elif kind == "year":
                t = datetime(rng.randrange(2015, 2023), 1, 1)
            else:
                t = rng.choice(LEAPS)
        except ValueError:
            continue
        if D0 + timedelta(days=1) < t < D1:
            out.append((t, kind))
    return out


def run(ctx):
    rng = ctx.pyrng("c04")
    n = ctx.scale(6000, 600_000)
    for i in range(n):
        if ctx.time_left() < 15:
            break
        t = _rand_date(rng, whole=rng.random() < 0.7)
        r, kind = _rand_pos(rng)
        x = np.concatenate([r, _rand_vel(rng)])
        sel = i % 9
        if sel == 8:
            lat = rng.choice([rng.uniform(-math.pi / 2, math.pi / 2), math.pi / 2, -math.pi / 2, 0.0])
            chk_composites(ctx, t, x, lat, rng.choice([rng.uniform(-math.pi, math.pi), math.pi, 0.0, rng.uniform(0, 2 * math.pi)]))
        elif sel == 0:
            chk_eci_ecef(ctx, t, x)
        elif sel == 1:
            r2, _ = _rand_pos(rng)
            chk_pair_geometry(ctx, t, x, np.concatenate([r2, _rand_vel(rng)]))
        elif sel == 2:
            chk_lla(ctx, r, kind)
        elif sel == 3:
            lat = rng.choice([rng.uniform(-math.pi / 2, math.pi / 2), math.pi / 2, -math.pi / 2, 0.0, math.copysign(math.pi / 2 - 10 ** rng.uniform(-10, -3), rng.uniform(-1, 1))])
            lon = rng.choice([rng.uniform(-math.pi, math.pi), math.pi, -math.pi + 1e-12, 0.0])
            alt = rng.choice([0.0, rng.uniform(0, 9), 10 ** rng.uniform(0, 4.7)])
            chk_lla_fwd(ctx, lat, lon, alt)
        elif sel == 4:
            lat = rng.choice([rng.uniform(-math.pi / 2, math.pi / 2), math.pi / 2, -math.pi / 2, 0.0])
            lon = rng.uniform(-math.pi, math.pi)
            xs = np.array([rng.gauss(0, 1) for _ in range(6)]) * np.array([3000, 3000, 3000, 5, 5, 5])
            if rng.random() < 0.15:
                xs[:2] = 0.0  # straight up: zenith
            if rng.random() < 0.15:
                xs[1] = 0.0
                xs[0] = -abs(xs[0])  # due north: azimuth seam
            chk_sez(ctx, lat, lon, xs)
        elif sel == 5:
            obs_r, _ = _rand_pos(rng, "surface")
            obs = np.concatenate([obs_r, np.cross([0, 0, g.OMEGA], obs_r)])
            chk_razel_radec(ctx, t, obs, x)
        elif sel == 6:
            rel = np.array([rng.gauss(0, 1) for _ in range(6)]) * np.array([100, 100, 100, 0.1, 0.1, 0.1])
            chk_rsw_ntw(ctx, x, rel)
        else:
            chk_helpers(ctx, rng.uniform(-7, 7), rng.uniform(-7, 7), np.array([rng.gauss(0, 1) for _ in range(3)]), np.array([rng.gauss(0, 3) for _ in range(3)]))
            ty = datetime(rng.randrange(1901, 2100), 1, 1) + timedelta(seconds=rng.randrange(365 * 86400))
            chk_doy(ctx, ty)
            chk_doy(ctx, t)
        ctx.case((sel, t.isoformat(), tuple(np.round(x, 6))), sample=None)
        if i % 997 == 0:
            ctx.sample({"relation": ["eci_ecef", "pair", "lla", "lla_fwd", "sez", "razel_radec", "rsw_ntw", "helpers+doy", "composites"][sel], "t": t.isoformat(), "r_km": [round(float(c), 3) for c in r]})
    # rotation-rate continuity across every kind of boundary
    nb = ctx.scale(1200, 60_000)
    for t, kind in _boundaries(rng, nb):
        for delta in (0.001, 1, 60):
            before = rng.choice([0.0005, 0.5, 1, 30]) if delta != 0.001 else 0.0005
            chk_continuity(ctx, t - timedelta(seconds=before), delta, kind)
        ctx.case(("b", t.isoformat(), kind), sample=None)
    # anywhere inside a day: sub-second pairs sharing one UTC second, spans up to an hour, and the last 80 s of a UTC day
    # (where terrestrial time has already rolled over to the next day)
    for _ in range(ctx.scale(600, 60_000)):
        t = _rand_date(rng, whole=False)
        chk_continuity(ctx, t.replace(microsecond=rng.randrange(0, 400_000)), rng.choice([0.001, 0.25, 0.5]), "same-second")
        d = rng.choice([1, 7, 60, 600, 3600])
        if (t + timedelta(seconds=d)).date() == t.date():
            chk_continuity(ctx, t, d, "within-day")
        eod = datetime(t.year, t.month, t.day) + timedelta(days=1)
        chk_continuity(ctx, eod - timedelta(seconds=80), 79.5, "terrestrial-time-rollover")
        k = rng.randrange(1, 80)
        chk_continuity(ctx, eod - timedelta(seconds=k), 0.999, "terrestrial-time-rollover")
        ctx.case(("w", t.isoformat()), sample=None)
    # the process time zone is part of the environment, not of the input: the rotation for a (naive, UTC) epoch must not depend on it
    import os
    import time as _time

    old_tz = os.environ.get("TZ")
    try:
        for zone in ("EST5EDT,M3.2.0,M11.1.0", "CET-1CEST,M3.5.0,M10.5.0/3", "NZST-12NZDT,M9.5.0,M4.1.0/3"):
            for _ in range(ctx.scale(12, 400)):
                t = _rand_date(rng, whole=rng.random() < 0.7)
                if rng.random() < 0.4:  # around the zone's clock changes
                    t = datetime(t.year, rng.choice([3, 3, 4, 9, 10, 11]), rng.randrange(1, 29), rng.randrange(0, 8), rng.choice([0, 50, 59]), 0)
                if not (D0 + timedelta(days=1) < t < D1):
                    continue
                os.environ["TZ"] = "UTC"
                _time.tzset()
                ra = _rot(t)
                os.environ["TZ"] = zone
                _time.tzset()
                rb = _rot(t)
                ctx.check(np.array_equal(ra, rb), "rotation-depends-on-process-time-zone", f"the Earth rotation for the UTC epoch {t.isoformat()} differs between TZ=UTC and TZ={zone} "
                          f"(angle about the pole {g.rotation_angle_about_z(ra, rb):.6e} rad)", _w("tz", t=t, zone=zone), mon="time_zone_independent")
    finally:
        if old_tz is None:
            os.environ.pop("TZ", None)
        else:
            os.environ["TZ"] = old_tz
        _time.tzset()
    # thorough: every day boundary in the table, each shard takes a slice
    if not ctx.quick:
        day = D0 + timedelta(days=2 + ctx.shard)
        while day < D1:
            chk_continuity(ctx, day - timedelta(seconds=1), 2, "every-midnight")
            ctx.case(("m", day.isoformat()))
            day += timedelta(days=ctx.nshards)
    else:
        for L in LEAPS:
            chk_continuity(ctx, L - timedelta(seconds=1), 1, "leapsec")
            chk_continuity(ctx, L - timedelta(seconds=1), 2, "leapsec")
    ctx.sample({"boundary_example": "2016-12-31T23:59:59 -> +1 s (leap second inserted): jump of w*1s required"})


def replay(ctx, w):
    from .. import core

    core.install_paths()
    k = w["kind"]
    T = lambda s: datetime.fromisoformat(s)  # noqa: E731
    A = lambda v: np.array(v, dtype=float)  # noqa: E731
    if k == "tz":
        import os
        import time as _time

        old_tz = os.environ.get("TZ")
        try:
            os.environ["TZ"] = "UTC"
            _time.tzset()
            ra = _rot(T(w["t"]))
            os.environ["TZ"] = w["zone"]
            _time.tzset()
            rb = _rot(T(w["t"]))
        finally:
            os.environ.pop("TZ", None) if old_tz is None else os.environ.__setitem__("TZ", old_tz)
            _time.tzset()
        ctx.check(np.array_equal(ra, rb), "rotation-depends-on-process-time-zone", f"rotation at {w['t']} differs between TZ=UTC and TZ={w['zone']}", w, mon="time_zone_independent")
    elif k == "eci_ecef":
        chk_eci_ecef(ctx, T(w["t"]), A(w["x"]))
    elif k == "pair":
        chk_pair_geometry(ctx, T(w["t"]), A(w["x1"]), A(w["x2"]))
    elif k == "lla":
        chk_lla(ctx, A(w["r"]), w["where"])
    elif k == "lla_fwd":
        chk_lla_fwd(ctx, w["lat"], w["lon"], w["alt"])
    elif k == "sez":
        chk_sez(ctx, w["lat"], w["lon"], A(w["x"]))
    elif k == "composites":
        chk_composites(ctx, T(w["t"]), A(w["x"]), w["lat"], w["lon"])
    elif k == "razel_radec":
        chk_razel_radec(ctx, T(w["t"]), A(w["obs"]), A(w["tgt"]))
    elif k == "rsw_ntw":
        chk_rsw_ntw(ctx, A(w["x"]), A(w["rel"]))
    elif k == "continuity":
        chk_continuity(ctx, T(w["t"]), w["delta"], w["label"])
    elif k == "helpers":
        chk_helpers(ctx, w["a"], w["b"], A(w["w"]), A(w["v"]))
    elif k == "doy":
        chk_doy(ctx, T(w["t"]))
