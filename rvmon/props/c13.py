"""C13 - the high-fidelity force model equals an independent reference at every state / epoch.

Deciding monitors
  deriv_post        postcondition on the real ``SpecialPerturbations._differentialEquation(t, y)``: for every
                    state of the batch  d(pos) == vel  and  d(vel) == refs/forceref.total_accel  (point mass +
                    complex-step gradient of the configured normalised geopotential in the Earth-fixed frame +
                    direct third-body formula on the repository's own body positions + cannonball SRP x visible
                    Sun fraction + Schwarzschild term; each term present exactly when *configured*), evaluated on a
                    direct hostile grid.  The ECEF->ECI matrix is the one the call itself used (captured at
                    ``_getRotationMatrix``), so every input is identical and the tolerance is a rounding bound.
  prop_sampled      the same postcondition attached to the class, evaluated 1-in-N while real propagations run
                    (``SpecialPerturbations.propagate`` with K = 1..13 parallel states, and full truth-only Scenarios)
  frame_epoch       the captured matrix is a rotation and equals the public FK5 rotation
                    (``ReductionParams.build(exact epoch)``: rot_pnr @ rot_w) up to the epoch resolution of the
                    floating Julian date (looser tolerance, see TOL_FRAME)
  ephem_continuity  Sun/Moon (and planets) positions have no jump across any Chebyshev interval boundary of the
                    4/16/32-day grids inside the EOP table span
  ephem_analytic    Sun / Moon directions and distances agree with Vallado's analytic ephemerides (refs/ephemref)
Locating monitors (tighter, per term; not deciding)
  term_geopotential, harmonic_isolated, coef_load, term_third_body, sun_fraction, term_srp, term_gr,
  ephem_chebyshev, ephem_vectorised, constants
"""

from __future__ import annotations

import math
from datetime import datetime, timedelta
from fractions import Fraction

import numpy as np

from ..refs import ephemref as er
from ..refs import forceref as fr
from ..refs import timeref

LEVEL = "exploration"
RULE = ("grid case = (geopotential file x degree x order x third-body subset x SRP x GR x sat_ratio) x (start instant, "
        "offset t) x batch of K=1..13 states; instants uniform over the EOP table 2014-01-02..2022-10-03 plus Chebyshev "
        "interval boundaries (4/16/32-day grids from JD 2433264.5, on/around/exactly), midnights, year ends, leap seconds and "
        "the table ends; states from 200 km altitude to 10 Earth radii incl. poles/equator/axes/radial velocities and "
        "penumbra/umbra entry-exit geometry built from the Sun direction of the instant; propagation case = one sampled "
        "right-hand-side call inside a real propagation. non-trivial = distinct case in which at least one perturbation "
        "(configured or not) has a reference magnitude > 10x the comparison tolerance, so that its presence/absence is "
        "decided by the comparison (per-term counts in coverage.observable_present / observable_absent)")
ASSUME = ["physical constants (GM values, radii, solar flux, AU, c), the coefficient files, the EOP table and the DE432s "
          "Chebyshev coefficient files are inputs shared with the repository; all formulas of the reference are written independently",
          "frame correctness is C04's subject: the reference rotates with the matrix the force model itself used and only "
          "checks that this matrix equals the public FK5 rotation at the same epoch within the Julian-date resolution",
          "planet positions are the repository's own (no independent planetary theory offline); Sun and Moon are checked against Vallado's analytic series",
          "Montenbruck's planar two-disc shadow model and the IERS/Montenbruck Schwarzschild term are the documented formulas",
          "ray stand-in (rvmon/shimray.py) replaces the executor for the Scenario runs; everything else is repository code"]
SHARDS = {"quick": 4, "thorough": 16}
BUDGET_S = {"quick": 58, "thorough": 560}
DECIDING = ["deriv_post", "prop_sampled", "frame_epoch", "ephem_continuity", "ephem_analytic"]
MANIFEST = {
    "technique": "runtime monitoring: postcondition on the real right-hand side against an independent force model (complex-step gradient of the potential), direct grid + sampled during real propagations",
    "level_text": "exploration of a hostile input grid and of sampled calls inside real propagations",
    "level_note": "term-level sensitivity limited by float64 rounding of the sum: a perturbation below ~5e-14 of the total acceleration (Saturn/Venus in LEO) is not decidable from the derivative",
}

GEO_DIR_REL = "resonaate/physics/data/geopotential"
DE_DIR_REL = "resonaate/physics/data/de432s"
MODELS = ["egm96.txt", "egm2008.txt", "GGM03S.txt", "jgm3.txt"]
BODY_NAMES = ["sun", "moon", "jupiter", "saturn", "venus"]
SEG_JD0 = 2433264.5
SPAN_JD = (2456659.5, 2459855.5)  # 2014-01-02 .. 2022-10-03 (EOP table is 2014-01-01 .. 2022-10-04)
D0 = datetime(2014, 1, 2)
D1 = datetime(2022, 10, 2)
LEAPS = [datetime(2015, 7, 1), datetime(2017, 1, 1)]
OMEGA_E = 7.292115e-5

# ---- tolerances (DESIGN 3.7; calibrated on the unchanged tree: thorough seed 0 = 1.03e6 grid states + 2.0e5 sampled) ----
# Total derivative, identical inputs (same epoch, same rotation matrix, same body positions).  Error sources: float64
# rounding of the repository's sum (a few ulp of the point-mass term, 1.1e-16 relative each) and of the Cunningham
# recursion (<= 1e-14 of the <= 1e-3 harmonic part).  Worst observed 6.5e-16 |a|; ~80x head-room -> 5e-14
# (tighter than the 1e-12 of the design; a Jupiter switch in LEO is 3e-13 |a|, a J2 slip 1e-3 |a|).
# When SRP is configured the conditioning of the documented shadow formula is added (see K_FRACTION).
TOL_TOTAL = 5e-14
# Per-term comparisons, relative to the term itself.  Worst observed: geopotential gradient 4.2e-15, Schwarzschild
# 9.4e-16 -> 1e-12;  third body 8.1e-14 (Vallado's q-form evaluates r^2 + 2 r.(s-r) in float64, which cancels when
# the satellite is about as far from the body as the Earth is) -> 1e-11;  one isolated harmonic 6.3e-14 -> 1e-11.
TOL_TERM = 1e-12
TOL_GEO_TERM = 1e-12
TOL_TB_TERM = 1e-11
TOL_HARMONIC = 1e-11
# Visible Sun fraction.  The documented formula (Montenbruck 3.92-3.94) evaluates b^2 acos((c-x)/b) whose argument is
# cos(y/b), y = half chord << b: its rounding error is eps b^3 / (y pi a^2) of the solar disc (1e-10 in LEO, growing
# like 1/sqrt(distance to tangency); the repository can even return 1 + 1e-8).  That is the conditioning of the
# documented formula, so the tolerance follows it: K_FRACTION x forceref.fraction_error_scale.  Worst observed ratio
# |difference| / scale = 1.37 over 1.2e5 penumbra cases (+1.7e4 in the thorough run) -> K = 100.
K_FRACTION = 100.0
# Frame: the force model takes the sidereal angle from the calendar fields of the *float* Julian date
# (half an ulp of 2.45e6 d = 20.1 us -> 1.47e-9 rad; worst observed 1.5e-9 over 1.7e5 epochs) while precession /
# nutation / polar motion come from the whole-second rounded datetime (<= 0.5 s x 1e-11 rad/s).  5e-8 rad = 30x that
# hard bound; a dropped polar motion (1e-6), equation of the equinoxes (5e-5), dUT1 (2e-5) or a transposition (O(1))
# are far above it.  Within 0.5 s of a midnight the day-to-day step of the EOP table is added (EOP steps are
# accepted as continuous, as in C04) - except the 1 s leap-second step of dUT1, which is not a continuous step.
TOL_FRAME = 5e-8
TOL_ORTHO = 1e-13
# Analytic ephemerides: Vallado quotes 0.01 deg (Sun) and 0.3 / 0.2 deg (Moon).  The error is a smooth deterministic
# function of time; an exhaustive scan of the whole EOP span in 0.01 d steps (320 000 epochs) gives maxima of
# 0.01127 deg / 7.7e-5 relative distance (Sun) and 0.3574 deg / 3.34e-3 (Moon); slopes <= 0.07 deg/d make the scan
# complete to 1e-3 deg, which is why less than 100x head-room is sound here.  (Includes the unmodelled UTC-TDB offset
# of 69 s = 0.01 deg of lunar motion.)  A wrong interval / body / sign is degrees off.
TOL_SUN_DEG, TOL_SUN_DIST = 0.02, 2e-4
TOL_MOON_DEG, TOL_MOON_DIST = 0.5, 8e-3
# Chebyshev evaluation (Clenshaw vs numpy chebval, differences of <= 1.5e8 km vectors): worst observed 1.1e-15 relative.
TOL_CHEB = 1e-13
# Continuity: positions at boundary + k d, k = -3,-1,0,1,3 with d = 2^-20 day (exactly representable Julian dates, so
# no time-quantisation noise).  The compared combinations cancel velocity and leave a d^2/2 < 3e-8 km plus rounding of
# the differenced 1e8..1e9 km vectors; worst observed 1.3e-7 km (Sun) -> bound 1e-13 |vector| + 1e-6 km (~120x).
CONT_DELTA = 2.0 ** -20


class _Env:
    pass


_E = None


def _env():
    """Import the repository once, install the two observation hooks (rotation capture, RHS wrapper)."""
    global _E
    if _E is not None:
        return _E
    from .. import core
    from .. import scenario_kit as sk

    sk.init()
    import os

    import resonaate.dynamics.special_perturbations as sp
    from resonaate.physics import constants as const
    from resonaate.physics.bodies import Earth, Jupiter, Moon, Saturn, Sun, Venus
    from resonaate.physics.bodies import gravitational_potential as gp
    from resonaate.physics.sensor_utils import calculateSunVizFraction
    from resonaate.physics.time.stardate import JulianDate, datetimeToJulianDate
    from resonaate.physics.transforms.eops import getEarthOrientationParameters
    from resonaate.physics.transforms.reductions import ReductionParams
    from resonaate.scenario.config.geopotential_config import GeopotentialConfig
    from resonaate.scenario.config.perturbations_config import PerturbationsConfig

    E = _Env()
    E.sk, E.sp, E.const, E.gp = sk, sp, const, gp
    E.Earth = Earth
    E.body = {"sun": Sun, "moon": Moon, "jupiter": Jupiter, "saturn": Saturn, "venus": Venus}
    E.viz = calculateSunVizFraction
    E.JulianDate, E.dt2jd = JulianDate, datetimeToJulianDate
    E.eop = getEarthOrientationParameters
    E.RP = ReductionParams
    E.GeoCfg, E.PertCfg = GeopotentialConfig, PerturbationsConfig
    src = core.repo_src()
    E.geo_dir = os.path.join(src, GEO_DIR_REL)
    E.de_dir = os.path.join(src, DE_DIR_REL)
    E.c_km_s = const.SPEED_OF_LIGHT / 1000.0
    # hook 1: remember the ECEF->ECI matrix the right-hand side obtained
    E.rot_last = None
    E.rot_hook = hasattr(sp, "_getRotationMatrix")
    if E.rot_hook:
        orig_rot = sp._getRotationMatrix  # noqa: SLF001

        def _cap(julian_date, reduction):
            m = orig_rot(julian_date, reduction)
            E.rot_last = np.array(m, dtype=float, copy=True)
            return m

        sp._getRotationMatrix = _cap  # noqa: SLF001
    # hook 2: postcondition on the real right-hand side, sampled 1-in-N while `E.sampling` is set
    E.sampling = None
    E.orig_de = sp.SpecialPerturbations._differentialEquation  # noqa: SLF001

    def _wrapped(self, time, state, *a, **kw):
        E.rot_last = None
        y_in = None
        smp = E.sampling
        if smp is not None:
            y_in = np.array(state, dtype=float, copy=True)
        out = E.orig_de(self, time, state, *a, **kw)
        if smp is not None:
            smp["calls"] += 1
            if smp["calls"] % smp["every"] == 0 and smp["left"] > 0:
                try:
                    _sampled_post(smp, self, float(time), y_in, np.array(out, dtype=float, copy=True), E.rot_last)
                except Exception as exc:  # noqa: BLE001  (a monitor never raises into the observed code)
                    smp["ctx"].inconclusive_because(f"sampled postcondition raised {type(exc).__name__}: {exc}")
        return out

    sp.SpecialPerturbations._differentialEquation = _wrapped  # noqa: SLF001
    _E = E
    return E


# ---------------------------------------------------------------------------------------------
# small helpers
# ---------------------------------------------------------------------------------------------
def _f(v):
    return [float(x) for x in np.asarray(v, dtype=float).ravel()]


def _exact_datetime(jd0: float, t: float) -> datetime:
    """Civil instant (microsecond) of the rational epoch  jd0 + t/86400  (integer arithmetic)."""
    frac = Fraction(float(jd0)) + Fraction(float(t)) / 86400 + Fraction(1, 2)
    day = frac.numerator // frac.denominator
    us = round((frac - day) * 86_400_000_000)
    return timeref.datetime_from_jd_nearest_second(float(day) - 0.5) + timedelta(microseconds=int(us))


def _coeffs(E, model):
    C, S, _ = fr.load_normalised(E.geo_dir + "/" + model, nmax=24)
    return C, S


def _build_dyn(E, cfg):
    start = datetime.fromisoformat(cfg["start"])
    jd0 = E.dt2jd(start)
    geo = E.GeoCfg(model=cfg["model"], degree=cfg["degree"], order=cfg["order"])
    pert = E.PertCfg(third_bodies=list(cfg["third_bodies"]), solar_radiation_pressure=bool(cfg["srp"]),
                     general_relativity=bool(cfg["gr"]))
    dyn = E.sp.SpecialPerturbations(jd0, geo, pert, float(cfg["sat_ratio"]), **({"method": cfg["method"]} if cfg.get("method") else {}))
    dyn._c13_cfg = cfg  # noqa: SLF001  (what was *configured*; survives pickling)
    return dyn, float(jd0)


def _positions(E, jd):
    """Geocentric body positions at the float Julian date - the repository's own ephemeris (an input here)."""
    return {b: np.array(E.body[b].getPosition(jd), dtype=float) for b in BODY_NAMES}


def _reference(E, cfg, pos, R, r, v):
    """Reference acceleration for one state from the configuration dict (not from the object's attributes)."""
    C, S = _coeffs(E, cfg["model"])
    names = [b for b in BODY_NAMES if b in {str(x).lower() for x in cfg["third_bodies"]}]
    bodies = [(b, E.body[b].mu, pos[b]) for b in names]
    srp_all = {"sun": pos["sun"], "sat_ratio": float(cfg["sat_ratio"]), "pressure": E.const.SOLAR_PRESSURE, "au": E.const.AU2KM,
               "sun_radius": E.body["sun"].radius, "earth_radius": E.Earth.radius}
    total, terms, frac = fr.total_accel(r, v, R, E.Earth.mu, E.Earth.radius, C, S, int(cfg["degree"]), int(cfg["order"]),
                                        bodies, srp_all if cfg["srp"] else None, E.c_km_s if cfg["gr"] else None)
    extra_tol = 0.0
    if cfg["srp"]:
        _, (a_, b_, c_) = fr.sun_visible_fraction(r, pos["sun"], srp_all["sun_radius"], srp_all["earth_radius"])
        full = float(np.linalg.norm(fr.srp_accel(r, pos["sun"], srp_all["sat_ratio"], srp_all["pressure"], srp_all["au"], 1.0).astype(float)))
        extra_tol = full * K_FRACTION * fr.fraction_error_scale(a_, b_, c_)
    # candidate terms that are NOT configured (to recognise "present although not configured")
    absent = {}
    for b in BODY_NAMES:
        if b not in names:
            absent["tb_" + b] = fr.third_body_accel(r, pos[b], E.body[b].mu).astype(float)
    if not cfg["srp"]:
        f0, _ = fr.sun_visible_fraction(r, pos["sun"], srp_all["sun_radius"], srp_all["earth_radius"])
        absent["srp"] = fr.srp_accel(r, pos["sun"], srp_all["sat_ratio"], srp_all["pressure"], srp_all["au"], f0).astype(float)
    if not cfg["gr"]:
        absent["gr"] = fr.schwarzschild_accel(r, v, E.Earth.mu, E.c_km_s).astype(float)
    if int(cfg["degree"]) < 2:
        absent["geopotential"] = R @ fr.geopotential_accel(R.T @ r, E.Earth.mu, E.Earth.radius, C, S, 2, 0)
    return total, terms, absent, frac, extra_tol


def _classify(diff, terms, absent):
    """Mechanism key of a derivative mismatch from observed facts only."""
    nd = float(np.linalg.norm(diff))
    for name, a in terms.items():
        na = float(np.linalg.norm(a))
        if name != "point_mass" and na > 0 and np.linalg.norm(diff + a) <= 1e-3 * na + 1e-3 * nd:
            return "configured-term-absent:" + name
    for name, a in absent.items():
        na = float(np.linalg.norm(a))
        if na > 0 and np.linalg.norm(diff - a) <= 1e-3 * na + 1e-3 * nd:
            return "unconfigured-term-present:" + name
    scale = {k: float(np.linalg.norm(a)) for k, a in terms.items()}
    if nd > 10 * scale.get("geopotential", 0.0) and nd > 1e-3 * scale["point_mass"]:
        return "accel-mismatch-gross"
    return "accel-mismatch"


# ---------------------------------------------------------------------------------------------
# the postcondition
# ---------------------------------------------------------------------------------------------
def post_check(ctx, E, cfg, jd0, t, y, out, R, mon, wit):
    """d/dt state == (velocity, reference acceleration) for every state of the flat (6K,) batch."""
    y = np.asarray(y, dtype=float)
    out = np.asarray(out, dtype=float)
    if R is None:
        ctx.inconclusive_because("rotation hook (_getRotationMatrix) was not reached by _differentialEquation")
        return None
    ok_shape = out.shape == y.shape and y.size % 6 == 0 and bool(np.all(np.isfinite(out)))
    ctx.check(ok_shape, "deriv-shape-or-nan", f"derivative shape {out.shape} for state shape {y.shape} / non-finite values", wit, mon=mon)
    if not ok_shape:
        return None
    K = y.size // 6
    Y, D = y.reshape(6, K), out.reshape(6, K)
    jd = float(jd0) + float(t) / 86400
    pos = _positions(E, jd)
    worst = 0.0
    observable = False
    for j in range(K):
        r, v = Y[:3, j], Y[3:, j]
        ctx.check(bool(np.all(D[:3, j] == v)), "velocity-passthrough", f"d(position) of state {j}/{K} is not its velocity", wit, mon=mon)
        total, terms, absent, frac, extra_tol = _reference(E, cfg, pos, R, r, v)
        na = float(np.linalg.norm(total))
        tol = TOL_TOTAL * na + extra_tol
        diff = D[3:, j] - total
        err = float(np.linalg.norm(diff))
        worst = max(worst, err / tol)
        for name, a in terms.items():
            if name != "point_mass" and float(np.linalg.norm(a)) > 10 * tol:
                ctx.count("observable_present:" + name)
                observable = True
        for name, a in absent.items():
            if float(np.linalg.norm(a)) > 10 * tol:
                ctx.count("observable_absent:" + name)
                observable = True
        if frac is not None and 1e-6 < frac < 1 - 1e-6:
            ctx.count("partial_eclipse_states")
        elif frac is not None and frac <= 1e-6:
            ctx.count("umbra_states")
        if err <= tol:
            ctx.check(True, "accel", "", None, mon=mon)
        else:
            key = _classify(diff, terms, absent)
            mags = {k: float(np.linalg.norm(a)) for k, a in terms.items()}
            ctx.check(False, "deriv-" + key,
                      f"state {j} of K={K}: |a_repo - a_ref| = {err:.3e} km/s^2 = {err / na:.2e} |a| (tol {tol / na:.1e}); "
                      f"a_repo={_f(D[3:, j])} a_ref={_f(total)}; reference terms |.|={mags}; cfg: {cfg['model']} {cfg['degree']}x{cfg['order']} "
                      f"bodies={cfg['third_bodies']} srp={cfg['srp']} gr={cfg['gr']}", wit, mon=mon)
    return worst, observable


def frame_check(ctx, E, jd0, t, R, wit):
    """The matrix the force model used is a rotation and is the public FK5 ECEF->ECI rotation of the same epoch."""
    if R is None:
        return
    ortho = float(np.linalg.norm(R @ R.T - np.eye(3)))
    ctx.check(ortho <= TOL_ORTHO and abs(np.linalg.det(R) - 1) <= TOL_ORTHO, "frame-not-a-rotation",
              f"force-model ECEF->ECI matrix is not a proper rotation (|RR^T-I| = {ortho:.2e})", wit, mon="frame_epoch")
    ex = _exact_datetime(jd0, t)
    rp = E.RP.build(ex)
    Rpub = rp.rot_pnr @ rp.rot_w
    dev = float(np.linalg.norm(R @ Rpub.T - np.eye(3))) / math.sqrt(2.0)  # = rotation angle for small angles
    sod = ex.hour * 3600 + ex.minute * 60 + ex.second + ex.microsecond * 1e-6
    other = None
    if sod >= 86399.499:
        other = ex.date() + timedelta(days=1)  # the whole-second rounded datetime may already be tomorrow
    elif sod <= 0.001:
        other = ex.date() - timedelta(days=1)  # calendar fields of the float JD may still be yesterday
    if other is None:
        ctx.check(dev <= TOL_FRAME, "frame-epoch", f"force-model rotation differs from the public FK5 rotation at {ex.isoformat()} by {dev:.3e} rad "
                  f"(Julian-date resolution allows 1.5e-9)", wit, mon="frame_epoch")
        return dev / TOL_FRAME
    try:
        e0, e1 = E.eop(ex.date()), E.eop(other)
    except Exception:  # noqa: BLE001  (table end)
        return None
    leap = e1.delta_atomic_time - e0.delta_atomic_time
    step = (OMEGA_E * abs((e1.delta_ut1 - e0.delta_ut1) - leap) + abs(e1.x_p - e0.x_p) + abs(e1.y_p - e0.y_p)
            + abs(e1.d_delta_psi - e0.d_delta_psi) + abs(e1.d_delta_eps - e0.d_delta_eps))
    tol = TOL_FRAME + 1.5 * step
    ctx.count("frame_day_seam_cases")
    if leap != 0:
        ctx.check(dev <= tol, "frame-leap-second-eop-day-mismatch",
                  f"at {ex.isoformat()} (within 0.5 s before the midnight that follows an inserted leap second) the force model's Earth rotation is off by {dev:.3e} rad "
                  f"(= {dev / OMEGA_E:.3f} s of rotation): the sidereal angle uses the calendar fields of the old day with dUT1 of the new day", wit, mon="frame_epoch")
    else:
        ctx.check(dev <= tol, "frame-eop-day-seam", f"force-model rotation differs from the public FK5 rotation at {ex.isoformat()} by {dev:.3e} rad "
                  f"(day-to-day EOP step allows {tol:.2e})", wit, mon="frame_epoch")
    return None


def _sampled_post(smp, dyn, t, y, out, R):
    """Body of the class-level postcondition (called from the wrapper, never raises into the integrator)."""
    ctx, E = smp["ctx"], _E
    if getattr(dyn, "finite_thrust", None):
        ctx.count("sampled_skipped_thrusting")
        return
    cfg = getattr(dyn, "_c13_cfg", None) or smp.get("cfg")
    if cfg is None:
        ctx.count("sampled_skipped_unknown_cfg")
        return
    smp["left"] -= 1
    jd0 = float(dyn.init_julian_date)
    wit = {"kind": "deriv", "origin": smp["origin"], "cfg": cfg, "jd0": jd0, "t": t, "y": _f(y)}
    res = post_check(ctx, E, cfg, jd0, t, y, out, R, "prop_sampled", wit)
    frame_check(ctx, E, jd0, t, R, {**wit, "kind": "frame"})
    if res is not None:
        smp["worst"] = max(smp["worst"], res[0])
        K = y.size // 6
        ctx.case(("p", smp["origin"], cfg["model"], cfg["degree"], cfg["order"], tuple(cfg["third_bodies"]), cfg["srp"], cfg["gr"], round(t, 6), K,
                  tuple(np.round(y[:: max(1, K)][:3], 3))), nontrivial=res[1])
        ctx.count("sampled_calls_checked")
        ctx.add_to_set("sampled_batch_sizes", K)


# ---------------------------------------------------------------------------------------------
# generators
# ---------------------------------------------------------------------------------------------
def _rand_start(rng):
    span = int((D1 - D0).total_seconds())
    return D0 + timedelta(seconds=rng.randrange(span))


def _seg_boundaries(length):
    k0 = int(math.ceil((SPAN_JD[0] + 1 - SEG_JD0) / length))
    k1 = int(math.floor((SPAN_JD[1] - 1 - SEG_JD0) / length))
    return [SEG_JD0 + k * length for k in range(k0, k1 + 1)]


def _jd_to_midnight(jd_mid):
    return timeref.datetime_from_jd_nearest_second(jd_mid)


def gen_epoch(rng):
    """(start datetime [whole second], offset t [s], label)."""
    kind = rng.choice(["uniform"] * 5 + ["seg4", "seg16", "seg32", "midnight", "year", "leap", "ends"])
    if kind == "uniform":
        st = _rand_start(rng)
        t = rng.choice([0.0, float(rng.randrange(1, 7200)), rng.uniform(0, 7200), rng.uniform(0, 86400 * 2)])
        return st, t, kind
    if kind in ("seg4", "seg16", "seg32"):
        length = float(kind[3:])
        mid = _jd_to_midnight(rng.choice(_seg_boundaries(length)))
    elif kind == "midnight":
        st = _rand_start(rng)
        mid = datetime(st.year, st.month, st.day)
    elif kind == "year":
        mid = datetime(rng.randrange(2015, 2023), 1, 1)
    elif kind == "leap":
        mid = rng.choice(LEAPS)
    else:
        mid = rng.choice([D0 + timedelta(days=1), datetime(2022, 10, 3)])
    if rng.random() < 0.25:
        # exactly on the boundary: start is a midnight (exactly representable Julian date) and t a whole day
        days = rng.choice([1, 2])
        return mid - timedelta(days=days), 86400.0 * days, kind + "-exact"
    back = rng.choice([60, 3600, 40000, rng.randrange(1, 80000)])
    off = rng.choice([-0.7, -0.5, -0.499, -0.3, -0.01, -1e-4, 1e-4, 0.01, 0.3, 0.6, rng.uniform(-1, 1), rng.uniform(-100, 100)])
    return mid - timedelta(seconds=back), back + off, kind


def gen_cfg(rng, i, start):
    mask = i % 32
    tb = [b for k, b in enumerate(BODY_NAMES) if mask >> k & 1]
    rng.shuffle(tb)
    if tb and rng.random() < 0.05:
        tb.append(rng.choice(tb))  # the config accepts a repeated name; the body still counts once
    deg = rng.choice([0, 1, 2, 3, 4, 19, 20] + [rng.randrange(0, 21) for _ in range(7)])
    order = rng.choice([0, deg, max(deg - 1, 0), rng.randrange(0, 21), rng.randrange(0, 21), 20])
    return {"start": start.isoformat(), "model": MODELS[(i // 32) % 4] if rng.random() < 0.5 else rng.choice(MODELS), "degree": deg, "order": order,
            "third_bodies": tb, "srp": bool(i >> 5 & 1) if rng.random() < 0.5 else rng.random() < 0.5, "gr": bool(i >> 6 & 1) if rng.random() < 0.5 else rng.random() < 0.5,
            "sat_ratio": round(10 ** rng.uniform(-3, 0), 6)}


def _unit(rng):
    while True:
        v = np.array([rng.gauss(0, 1) for _ in range(3)])
        n = np.linalg.norm(v)
        if n > 1e-3:
            return v / n


def gen_state(rng, E, sun, kind=None):
    RE = E.Earth.radius
    kind = kind or rng.choice(["rand"] * 4 + ["low", "high", "pole", "equator", "axis", "shadow", "shadow", "shadow"])
    rmin, rmax = RE + 200.0, 10.0 * RE
    rr = rmin * (rmax / rmin) ** rng.random()
    if kind == "low":
        rr = rmin * (1 + rng.choice([0.0, 1e-12, 1e-6, 1e-3]))
    elif kind == "high":
        rr = rmax * (1 - rng.choice([0.0, 1e-12, 1e-6, 1e-3]))
    d = _unit(rng)
    if kind == "pole":
        d = np.array([0.0, 0.0, rng.choice([1.0, -1.0])])
        if rng.random() < 0.5:
            d = d + 10 ** rng.uniform(-12, -3) * _unit(rng)
            d /= np.linalg.norm(d)
    elif kind == "equator":
        a = rng.uniform(0, 2 * math.pi)
        d = np.array([math.cos(a), math.sin(a), rng.choice([0.0, 1e-13, -1e-9])])
        d /= np.linalg.norm(d)
    elif kind == "axis":
        d = np.zeros(3)
        d[rng.randrange(3)] = rng.choice([1.0, -1.0])
    elif kind == "shadow":
        # behind the Earth, at an angle psi from the anti-Sun axis where the apparent discs of Earth and Sun are near
        # internal / external tangency: psi ~ asin(RE/r) +- (0..2) solar radii
        s = sun / np.linalg.norm(sun)
        n = np.cross(s, _unit(rng))
        n /= np.linalg.norm(n)
        a_sun = math.asin(E.body["sun"].radius / np.linalg.norm(sun))
        edge = rng.choice([-1.0, 1.0, rng.uniform(-2, 2), rng.uniform(-1.05, -0.95), rng.uniform(0.95, 1.05), 0.0])
        psi = math.asin(RE / rr) + edge * a_sun + RE / np.linalg.norm(sun)  # + parallax of the Sun direction
        d = -s * math.cos(psi) + n * math.sin(psi)
    r = rr * d
    vc = math.sqrt(E.Earth.mu / rr)
    vk = rng.choice(["rand", "rand", "circ", "radial", "slow"])
    if vk == "circ":
        w = np.cross(d, _unit(rng))
        v = vc * w / np.linalg.norm(w)
    elif vk == "radial":
        v = rng.choice([1.0, -1.0]) * vc * rng.uniform(0.2, 1.3) * d
    elif vk == "slow":
        v = _unit(rng) * vc * 10 ** rng.uniform(-6, -1)
    else:
        v = _unit(rng) * vc * rng.uniform(0.3, 1.4)
    return np.concatenate([r, v]), kind


# ---------------------------------------------------------------------------------------------
# direct grid
# ---------------------------------------------------------------------------------------------
def grid_case(ctx, E, cfg, t, ystack, labels=None, mon="deriv_post"):
    """One call of the real right-hand side on a (6, K) batch + postcondition + frame check."""
    dyn, jd0 = _build_dyn(E, cfg)
    y = np.ascontiguousarray(np.asarray(ystack, dtype=float)).ravel()
    wit = {"kind": "deriv", "origin": "grid", "cfg": cfg, "jd0": jd0, "t": float(t), "y": _f(y)}
    saved, E.sampling = E.sampling, None
    try:
        out = dyn._differentialEquation(t, y.copy())  # noqa: SLF001
    finally:
        E.sampling = saved
    R = E.rot_last
    res = post_check(ctx, E, cfg, jd0, t, y, out, R, mon, wit)
    fw = frame_check(ctx, E, jd0, t, R, {**wit, "kind": "frame"})
    return res, fw


def term_checks(ctx, E, cfg, jd, R, x, rng):
    """Per-term comparisons on the repository's own building blocks (tighter than the total)."""
    r, v = x[:3], x[3:]
    sp, gp = E.sp, E.gp
    C, S = _coeffs(E, cfg["model"])
    w = {"cfg": cfg, "jd": jd, "x": _f(x), "R": _f(R)}
    deg, order = int(cfg["degree"]), int(cfg["order"])
    if hasattr(gp, "nonSphericalAcceleration") and hasattr(gp, "loadGeopotentialCoefficients") and deg >= 2:
        from resonaate.common.labels import GeopotentialModel

        c_nm, s_nm = gp.loadGeopotentialCoefficients(GeopotentialModel(cfg["model"]))
        re = R.T @ r
        got = gp.nonSphericalAcceleration(re, E.Earth.mu, E.Earth.radius, c_nm, s_nm, deg, order)
        ref = fr.geopotential_accel(re, E.Earth.mu, E.Earth.radius, C, S, deg, order)
        err = float(np.linalg.norm(got - ref)) / float(np.linalg.norm(ref))
        ctx.check(err <= TOL_GEO_TERM, "geopotential-gradient", f"nonSphericalAcceleration differs from the complex-step gradient of the potential by {err:.2e} "
                  f"({cfg['model']} {deg}x{order}, r_ecef={_f(re)})", {"kind": "geo_term", **w}, mon="term_geopotential")
        _track(ctx, "term_geopotential", err / TOL_GEO_TERM)
    pos = {b: np.array(E.body[b].getPosition(jd), dtype=float) for b in BODY_NAMES}
    if hasattr(sp, "_getThirdBodyAcceleration"):
        b = rng.choice(BODY_NAMES)
        got = E.body[b].mu * sp._getThirdBodyAcceleration(r, pos[b])  # noqa: SLF001
        ref = fr.third_body_accel(r, pos[b], E.body[b].mu).astype(float)
        err = float(np.linalg.norm(got - ref)) / float(np.linalg.norm(ref))
        ctx.check(err <= TOL_TB_TERM, "third-body-formula", f"mu*_getThirdBodyAcceleration({b}) differs from the direct formula by {err:.2e}", {"kind": "tb_term", "body": b, **w}, mon="term_third_body")
        _track(ctx, "term_third_body", err / TOL_TB_TERM)
    sun = pos["sun"]
    got_f = float(E.viz(r, sun))
    ref_f, (a, b_, c) = fr.sun_visible_fraction(r, sun, E.body["sun"].radius, E.Earth.radius)
    tol_f = 1e-15 + K_FRACTION * fr.fraction_error_scale(a, b_, c)
    ctx.check(abs(got_f - ref_f) <= tol_f, "sun-visible-fraction",
              f"calculateSunVizFraction = {got_f!r}, two-disc overlap reference = {ref_f!r} (apparent radii {a:.6e}, {b_:.6e}, separation {c:.6e} rad)",
              {"kind": "fraction", **w}, mon="sun_fraction")
    _track(ctx, "sun_fraction", abs(got_f - ref_f) / tol_f)
    if 0 < ref_f < 1 and tol_f < 1e-6:
        ctx.count("fraction_partial_cases")
    elif tol_f >= 1e-6:
        ctx.count("fraction_cases_in_tangency_band")
    if hasattr(sp.SpecialPerturbations, "_getSolarRadiationPressureAcceleration"):
        dyn, _ = _build_dyn(E, cfg)
        got = dyn._getSolarRadiationPressureAcceleration(r, np.array(sun))  # noqa: SLF001
        full = fr.srp_accel(r, sun, cfg["sat_ratio"], E.const.SOLAR_PRESSURE, E.const.AU2KM, 1.0).astype(float)
        ref = full * ref_f
        err = float(np.linalg.norm(got - ref)) / float(np.linalg.norm(full))
        ctx.check(err <= TOL_TERM + tol_f, "srp-formula", f"SRP acceleration differs from -P (C_R A/m) (AU/d)^2 d^/1000 x fraction by {err:.2e} of the unshadowed value "
                  f"(got {_f(got)}, ref {_f(ref)})", {"kind": "srp_term", **w}, mon="term_srp")
    if hasattr(sp, "_getGeneralRelativityAcceleration"):
        got = sp._getGeneralRelativityAcceleration(r, v)  # noqa: SLF001
        ref = fr.schwarzschild_accel(r, v, E.Earth.mu, E.c_km_s).astype(float)
        err = float(np.linalg.norm(got - ref)) / float(np.linalg.norm(ref))
        ctx.check(err <= TOL_TERM, "schwarzschild-formula", f"_getGeneralRelativityAcceleration differs from the IERS Schwarzschild term by {err:.2e} (got {_f(got)}, ref {_f(ref)})",
                  {"kind": "gr_term", **w}, mon="term_gr")
        _track(ctx, "term_gr", err / TOL_TERM)


_WORST: dict = {}


def _track(ctx, name, ratio):
    if ratio > _WORST.get(name, 0.0):
        _WORST[name] = float(ratio)


def _norm_scale(n, m):
    """Factor taking a fully normalised coefficient to the un-normalised one: sqrt((n-m)! k (2n+1) / (n+m)!)."""
    k = 1 if m == 0 else 2
    return math.sqrt(float(Fraction(math.factorial(n - m) * k * (2 * n + 1), math.factorial(n + m))))


def harmonic_check(ctx, E, n, m, which, re):
    """The real nonSphericalAcceleration fed with ONE unit normalised harmonic vs the gradient of that harmonic's potential."""
    gp = E.gp
    if not hasattr(gp, "nonSphericalAcceleration"):
        return
    c = np.zeros((181, 181))
    s = np.zeros((181, 181))
    (c if which == "C" else s)[n, m] = _norm_scale(n, m)
    C = [[0.0] * (k + 1) for k in range(n + 1)]
    S = [[0.0] * (k + 1) for k in range(n + 1)]
    (C if which == "C" else S)[n][m] = 1.0
    got = gp.nonSphericalAcceleration(re, E.Earth.mu, E.Earth.radius, c, s, n, m)
    ref = fr.geopotential_accel(re, E.Earth.mu, E.Earth.radius, C, S, n, m)
    nr = float(np.linalg.norm(ref))
    if nr == 0.0:
        return
    err = float(np.linalg.norm(got - ref)) / nr
    ctx.check(err <= TOL_HARMONIC, "single-harmonic", f"harmonic {which}({n},{m}) alone: nonSphericalAcceleration differs from grad of its potential by {err:.2e} "
              f"(got {_f(got)}, ref {_f(ref)}, r_ecef={_f(re)})", {"kind": "harmonic", "n": n, "m": m, "which": which, "re": _f(re)}, mon="harmonic_isolated")
    _track(ctx, "harmonic_isolated", err / TOL_HARMONIC)


def coef_check(ctx, E, model):
    from resonaate.common.labels import GeopotentialModel

    gp = E.gp
    if not hasattr(gp, "loadGeopotentialCoefficients"):
        return
    c_nm, s_nm = gp.loadGeopotentialCoefficients(GeopotentialModel(model))
    C, S, seen = fr.load_normalised(E.geo_dir + "/" + model, nmax=40)
    bad = []
    for n in range(2, 41):
        for m in range(n + 1):
            if (n, m) not in seen:
                continue
            sc = _norm_scale(n, m)
            for got, want, nm in ((c_nm[n, m], C[n][m] * sc, "C"), (s_nm[n, m], S[n][m] * sc, "S")):
                if abs(got - want) > 1e-14 * abs(want):
                    bad.append((nm, n, m, float(got), want))
    ctx.check(not bad, "coefficient-unnormalisation", f"{model}: un-normalised coefficients differ from file value x sqrt((n-m)! k (2n+1)/(n+m)!): first {bad[:3]}",
              {"kind": "coef", "model": model}, mon="coef_load")


def constants_check(ctx, E):
    lit = {"earth_mu": (E.Earth.mu, 398600.4415), "earth_radius": (E.Earth.radius, 6378.1363), "sun_mu": (E.body["sun"].mu, 1.32712440018e11),
           "moon_mu": (E.body["moon"].mu, 4902.800066), "jupiter_mu": (E.body["jupiter"].mu, 1.26712764e8), "saturn_mu": (E.body["saturn"].mu, 3.7940585e7),
           "venus_mu": (E.body["venus"].mu, 3.2485859e5), "c": (E.const.SPEED_OF_LIGHT, 299792458.0), "solar_pressure": (E.const.SOLAR_PRESSURE, 1367.0 / 299792458.0),
           "au": (E.const.AU2KM, 1.495978707e8), "sun_radius": (E.body["sun"].radius, 696000.0)}
    for k, (got, want) in lit.items():
        ctx.check(abs(got / want - 1) <= 1e-4, "constant-" + k, f"constant {k} = {got!r}, literature {want!r}", {"kind": "constants"}, mon="constants")


# ---------------------------------------------------------------------------------------------
# ephemerides
# ---------------------------------------------------------------------------------------------
def continuity_check(ctx, E, body, jd_b, label):
    B = E.body[body]
    d = CONT_DELTA  # 2^-20 day: boundary +- k d are exactly representable Julian dates (no time quantisation noise)
    p = [np.array(B.getPosition(jd_b + k * d), dtype=float) for k in (-3, -1, 1, 3)]
    p0 = np.array(B.getPosition(jd_b), dtype=float)
    d1, d2, d3 = p[1] - p[0], p[2] - p[1], p[3] - p[2]
    dist = float(np.linalg.norm(p0))
    bound = 1e-13 * max(dist, 1.5e8) + 1e-6  # rounding of the (barycentric) vectors that are differenced + a d^2
    jump = float(np.linalg.norm(d2 - 0.5 * (d1 + d3)))
    mid = float(np.linalg.norm(p0 - 0.5 * (p[1] + p[2])))
    w = {"kind": "continuity", "body": body, "jd": jd_b, "label": label}
    ctx.check(jump <= bound and mid <= bound, "ephemeris-discontinuity",
              f"{body} position jumps by {max(jump, mid):.3e} km across the Chebyshev interval boundary JD {jd_b} [{label}] (bound {bound:.1e} km; step over 2e-6 d is {np.linalg.norm(d2):.3f} km)",
              w, mon="ephem_continuity")
    _track(ctx, "ephem_continuity", max(jump, mid) / bound)
    ctx.add_to_set("continuity_grids", label)


def analytic_check(ctx, E, jd):
    w = {"kind": "analytic", "jd": jd}
    s = np.array(E.body["sun"].getPosition(jd), dtype=float)
    m = np.array(E.body["moon"].getPosition(jd), dtype=float)
    es, em = er.sun_j2000(jd), er.moon_j2000(jd)
    a = er.angle_deg(s, es)
    dr = abs(np.linalg.norm(s) / np.linalg.norm(es) - 1)
    ctx.check(a <= TOL_SUN_DEG and dr <= TOL_SUN_DIST, "sun-vs-analytic", f"Sun.getPosition(JD {jd}) is {a:.4f} deg / {dr:.2e} in distance off Vallado's analytic Sun", w, mon="ephem_analytic")
    b = er.angle_deg(m, em)
    dm = abs(np.linalg.norm(m) / np.linalg.norm(em) - 1)
    ctx.check(b <= TOL_MOON_DEG and dm <= TOL_MOON_DIST, "moon-vs-analytic", f"Moon.getPosition(JD {jd}) is {b:.3f} deg / {dm:.2e} in distance off Vallado's analytic Moon", w, mon="ephem_analytic")
    _track(ctx, "ephem_analytic_sun", a / TOL_SUN_DEG)
    _track(ctx, "ephem_analytic_moon", b / TOL_MOON_DEG)


def cheb_check(ctx, E, body, jd):
    got = np.array(E.body[body].getPosition(jd), dtype=float)
    ref = er.geocentric(E.de_dir, body, jd)
    err = float(np.linalg.norm(got - ref)) / float(np.linalg.norm(ref))
    ctx.check(err <= TOL_CHEB, "chebyshev-evaluation", f"{body}.getPosition(JD {jd!r}) differs from an independent Clenshaw evaluation of the segment files by {err:.2e}",
              {"kind": "cheb", "body": body, "jd": jd}, mon="ephem_chebyshev")
    _track(ctx, "ephem_chebyshev", err / TOL_CHEB)


def vector_check(ctx, E, body, jds):
    B = E.body[body]
    many = np.array(B.getPosition(list(jds)), dtype=float)
    one = np.array([B.getPosition(j) for j in jds], dtype=float)
    ok = many.shape == one.shape and bool(np.all(np.abs(many - one) <= 1e-12 * np.abs(one).max()))
    ctx.check(ok, "ephemeris-vectorised", f"{body}.getPosition(list of {len(jds)} epochs) differs from the epoch-by-epoch values", {"kind": "vector", "body": body, "jds": list(jds)}, mon="ephem_vectorised")


def run_ephemeris(ctx, E, rng):
    grids = {"moon": [4.0], "sun": [4.0, 16.0], "venus": [4.0, 16.0], "jupiter": [4.0, 16.0, 32.0], "saturn": [4.0, 16.0, 32.0]}
    todo = []
    for body, ls in grids.items():
        for length in ls:
            if length == 4.0 and body not in ("moon", "sun"):
                bs = _seg_boundaries(4.0)[:: 8]
            else:
                bs = _seg_boundaries(length)
            todo += [(body, b, f"{body}:{int(length)}d") for b in bs]
    todo = todo[ctx.shard:: ctx.nshards]
    if ctx.quick:
        rng.shuffle(todo)
        todo = todo[: 400]
    for body, b, label in todo:
        continuity_check(ctx, E, body, b, label)
        ctx.case(("cont", body, b), nontrivial=True)
    ctx.sample({"continuity": "body positions at boundary + k 2^-20 d, k=-3,-1,0,1,3: velocity-free combinations across every 4/16/32-day interval boundary"})
    n = ctx.scale(3000, 200_000)
    bnd = _seg_boundaries(4.0)
    for i in range(n):
        r = rng.random()
        if r < 0.3:
            jd = rng.choice(bnd) + rng.choice([0.0, 4.66e-10, -4.66e-10, 1e-7, -1e-7, 1e-3, -1e-3])
        else:
            jd = rng.uniform(*SPAN_JD)
        analytic_check(ctx, E, jd)
        if i % 3 == 0:
            cheb_check(ctx, E, rng.choice(BODY_NAMES), jd)
        if i % 50 == 0:
            k = rng.randrange(1, 6)
            vector_check(ctx, E, rng.choice(BODY_NAMES), [jd + j * rng.choice([0.0, 1e-3, 4.0, 16.0, 33.0]) for j in range(k)])
        ctx.case(("eph", round(jd, 7)), nontrivial=True)
        if ctx.time_left() < 0.25 * BUDGET_S[ctx.tier]:
            break


# ---------------------------------------------------------------------------------------------
# real propagations with the sampled postcondition
# ---------------------------------------------------------------------------------------------
def _orbit_state(rng, E, r_max=None):
    """Elliptic orbit state with perigee >= 250 km (so that short propagations stay above 200 km)."""
    RE = E.Earth.radius
    r_max = r_max or 10.0 * RE
    rp = RE + 250.0 + (0.9 * r_max - RE - 250.0) * rng.random() ** 2
    ra = rp * (1 + rng.choice([0.0, 0.01, 0.3, rng.uniform(0, 2)]))
    ra = min(ra, r_max)
    a = 0.5 * (rp + ra)
    rr = rng.uniform(rp, ra) if ra > rp else rp
    d = _unit(rng)
    h = np.cross(d, _unit(rng))
    h /= np.linalg.norm(h)
    tdir = np.cross(h, d)
    vv = math.sqrt(E.Earth.mu * (2 / rr - 1 / a))
    hmag = math.sqrt(E.Earth.mu * a * (1 - ((ra - rp) / (ra + rp)) ** 2))
    vt = min(hmag / rr, vv)
    vr = math.sqrt(max(vv * vv - vt * vt, 0.0)) * rng.choice([1.0, -1.0])
    return np.concatenate([rr * d, vt * tdir + vr * d])


def run_direct_propagation(ctx, E, rng, i, every, max_checks):
    start, t0, label = gen_epoch(rng)
    cfg = gen_cfg(rng, rng.randrange(1 << 12), start)
    cfg["method"] = rng.choice(["RK45", "RK45", "DOP853"])
    K = (i % 13) + 1
    X = np.column_stack([_orbit_state(rng, E) for _ in range(K)])
    if cfg["srp"] and rng.random() < 0.5:
        jd = float(E.dt2jd(start)) + t0 / 86400
        sun = np.array(E.body["sun"].getPosition(jd), dtype=float)
        X[:, 0] = gen_state(rng, E, sun, "shadow")[0]
        rr = np.linalg.norm(X[:3, 0])
        w = np.cross(X[:3, 0], _unit(rng))
        X[3:, 0] = math.sqrt(E.Earth.mu / rr) * w / np.linalg.norm(w)
    dur = rng.choice([30.0, 120.0, 300.0, 600.0]) if ctx.quick else rng.choice([60.0, 300.0, 900.0, 3600.0])
    dyn, _ = _build_dyn(E, cfg)
    smp = {"ctx": ctx, "calls": 0, "every": every, "left": max_checks, "origin": "propagate", "worst": 0.0, "cfg": None}
    E.sampling = smp
    try:
        dyn.propagate(t0, t0 + dur, X.copy())
    except Exception as exc:  # noqa: BLE001
        ctx.count("propagations_aborted:" + type(exc).__name__)
    finally:
        E.sampling = None
    ctx.count("propagations")
    ctx.count("rhs_calls_during_propagation", smp["calls"])
    ctx.add_to_set("propagation_epoch_kinds", label)
    _track(ctx, "prop_sampled", smp["worst"])
    if i < 2:
        ctx.sample({"propagation": {"cfg": cfg, "t0": t0, "duration_s": dur, "K": K, "rhs_calls": smp["calls"]}})


def run_scenario(ctx, E, rng, every, max_checks):
    """A real truth-only Scenario with special_perturbations dynamics; every RHS call of every agent is eligible."""
    sk = E.sk
    start = _rand_start(rng).replace(second=rng.randrange(60))
    if rng.random() < 0.3:
        mid = _jd_to_midnight(rng.choice(_seg_boundaries(rng.choice([4.0, 16.0, 32.0]))))
        start = mid - timedelta(seconds=rng.choice([60, 90, 120]))
    step = rng.choice([30, 60])
    cfg = gen_cfg(rng, rng.randrange(1 << 12), start)
    cfg["third_bodies"] = sorted(set(cfg["third_bodies"]))
    mass, area, refl = rng.choice([100.0, 500.0, 2000.0]), rng.choice([1.0, 10.0, 40.0]), rng.choice([0.0, 0.21, 0.6])
    cfg["sat_ratio"] = (1.0 + refl) * (area / mass)
    tg = []
    for k in range(rng.choice([1, 2, 3])):
        x = _orbit_state(rng, E, r_max=E.Earth.radius + 35000.0)  # the scenario config rejects altitudes above GEO
        c = sk.target_cfg(10001 + k, x[:3], x[3:])
        c["platform"].update({"mass": mass, "visual_cross_section": area, "reflectivity": refl})
        tg.append(c)
    sn = [sk.ground_sensor_cfg(20001, 35.0, -106.0)]
    scen = sk.scenario_cfg(start, start + timedelta(seconds=10 * step), step, [sk.engine_cfg(1, tg, sn)], truth_only=True, model="special_perturbations",
                           geopotential={"model": cfg["model"], "degree": cfg["degree"], "order": cfg["order"]},
                           perturbations={"third_bodies": cfg["third_bodies"], "solar_radiation_pressure": cfg["srp"], "general_relativity": cfg["gr"]})
    smp = {"ctx": ctx, "calls": 0, "every": every, "left": max_checks, "origin": "scenario", "worst": 0.0, "cfg": cfg}
    b = sk.build(scen)
    try:
        E.sampling = smp
        for _ in range(3):
            b.app.stepForward()
    except Exception as exc:  # noqa: BLE001
        ctx.inconclusive_because(f"scenario run raised {type(exc).__name__}: {exc}"[:300])
    finally:
        E.sampling = None
        sk.teardown(b)
    ctx.count("scenario_runs")
    ctx.count("rhs_calls_during_scenarios", smp["calls"])
    _track(ctx, "prop_sampled", smp["worst"])


# ---------------------------------------------------------------------------------------------
def run(ctx):
    E = _env()
    rng = ctx.pyrng("c13")
    budget = BUDGET_S[ctx.tier]
    constants_check(ctx, E)
    for model in MODELS:
        coef_check(ctx, E, model)

    # 1. ephemerides ----------------------------------------------------------------------------
    run_ephemeris(ctx, E, ctx.pyrng("eph"))

    # 2. isolated harmonics: every (n, m) up to 20, cosine and sine, low and high orbit ------------
    hr = ctx.pyrng("harm")
    pairs = [(n, m, w) for n in range(2, 21) for m in range(n + 1) for w in ("C", "S") if not (w == "S" and m == 0)]
    pairs = pairs[ctx.shard:: ctx.nshards]
    for n, m, which in pairs:
        for _ in range(1 if ctx.quick else 6):
            rr = (E.Earth.radius + 200.0) * hr.choice([1.0, hr.uniform(1.0, 1.5), hr.uniform(1.0, 9.6)])
            harmonic_check(ctx, E, n, m, which, rr * _unit(hr))
        ctx.case(("h", n, m, which), nontrivial=True)

    # 3. direct grid ------------------------------------------------------------------------------
    n = ctx.scale(6000, 200_000)
    worst = 0.0
    worst_frame = 0.0
    for i in range(n):
        if ctx.time_left() < 0.42 * budget:
            ctx.count("grid_cut_by_time")
            break
        gi = i * ctx.nshards + ctx.shard
        start, t, elabel = gen_epoch(rng)
        cfg = gen_cfg(rng, gi, start)
        K = (gi % 13) + 1
        jd = float(E.dt2jd(start)) + t / 86400
        sun = np.array(E.body["sun"].getPosition(jd), dtype=float)
        states, kinds = [], []
        for _ in range(K):
            x, kind = gen_state(rng, E, sun)
            states.append(x)
            kinds.append(kind)
        Y = np.column_stack(states)
        res, fw = grid_case(ctx, E, cfg, t, Y)
        if fw is not None:
            worst_frame = max(worst_frame, fw)
        nontrivial = False
        if res is not None:
            worst = max(worst, res[0])
            nontrivial = res[1]
        ctx.case(("g", cfg["model"], cfg["degree"], cfg["order"], tuple(cfg["third_bodies"]), cfg["srp"], cfg["gr"], cfg["start"], round(t, 6), K,
                  tuple(np.round(Y[:3, 0], 3))), nontrivial=nontrivial)
        ctx.add_to_set("epoch_kinds", elabel)
        ctx.add_to_set("batch_sizes", K)
        ctx.add_to_set("third_body_subsets", "+".join(sorted(set(cfg["third_bodies"]))) or "none")
        ctx.add_to_set("geopotential_files", cfg["model"])
        ctx.add_to_set("degrees", cfg["degree"])
        ctx.add_to_set("orders", cfg["order"])
        if i % 4 == 0 and E.rot_last is not None:
            term_checks(ctx, E, cfg, jd, E.rot_last, states[0], rng)
        if i % 211 == 0:
            ctx.sample({"grid": {"cfg": cfg, "t": t, "epoch_kind": elabel, "K": K, "state_kinds": kinds, "alt_km": [round(float(np.linalg.norm(s[:3]) - E.Earth.radius), 1) for s in states][:4]}})
    _track(ctx, "deriv_post", worst)
    _track(ctx, "frame_epoch", worst_frame)

    # 4. the leap-second seam, deterministically (both leap seconds of the table, both sides of the rounding) ---
    if ctx.shard == 0 or not ctx.quick:
        for L in LEAPS:
            for off in (-0.8, -0.3, 0.3):
                start = L - timedelta(seconds=600)
                cfg = gen_cfg(rng, 7, start)
                x, _ = gen_state(rng, E, np.array(E.body["sun"].getPosition(float(E.dt2jd(start))), dtype=float), "rand")
                grid_case(ctx, E, cfg, 600.0 + off, x[:, None])
                ctx.case(("leap", L.isoformat(), off), nontrivial=True)

    # 5. real propagations with the sampled postcondition ------------------------------------------
    pr = ctx.pyrng("prop")
    every = 5 if ctx.quick else 7
    n_prop = ctx.scale(32, 960)
    for i in range(n_prop):
        if ctx.time_left() < 0.15 * budget:
            ctx.count("propagation_cut_by_time")
            break
        run_direct_propagation(ctx, E, pr, i * ctx.nshards + ctx.shard, every, 40 if ctx.quick else 120)
    n_scen = ctx.scale(8, 160)
    for i in range(n_scen):
        if ctx.time_left() < 0.05 * budget:
            break
        run_scenario(ctx, E, pr, every, 30 if ctx.quick else 60)
    for k, v in _WORST.items():
        ctx.add_to_set("worst_error_over_tolerance:" + k, float(f"{v:.2g}"))
    ctx.note("tolerances", f"total {TOL_TOTAL:g} |a| (+ SRP x {K_FRACTION:g} x shadow-formula conditioning); terms {TOL_TERM:g} (third body {TOL_TB_TERM:g}, single harmonic {TOL_HARMONIC:g}); "
                           f"frame {TOL_FRAME:g} rad; Sun {TOL_SUN_DEG} deg; Moon {TOL_MOON_DEG} deg; Chebyshev {TOL_CHEB:g}")


# ---------------------------------------------------------------------------------------------
def replay(ctx, w):
    E = _env()
    k = w.get("kind")
    A = lambda v: np.array(v, dtype=float)  # noqa: E731
    if k in ("deriv", "frame"):
        cfg = w["cfg"]
        dyn, jd0 = _build_dyn(E, cfg)
        jd0 = float(w.get("jd0", jd0))
        dyn.init_julian_date = E.JulianDate(jd0)
        y = A(w["y"])
        out = dyn._differentialEquation(w["t"], y.copy())  # noqa: SLF001
        R = E.rot_last
        post_check(ctx, E, cfg, jd0, w["t"], y, out, R, "deriv_post", w)
        frame_check(ctx, E, jd0, w["t"], R, w)
    elif k in ("geo_term", "tb_term", "fraction", "srp_term", "gr_term"):
        term_checks(ctx, E, w["cfg"], w["jd"], A(w["R"]).reshape(3, 3), A(w["x"]), _FixedChoice(w.get("body")))
    elif k == "harmonic":
        harmonic_check(ctx, E, w["n"], w["m"], w["which"], A(w["re"]))
    elif k == "coef":
        coef_check(ctx, E, w["model"])
    elif k == "constants":
        constants_check(ctx, E)
    elif k == "continuity":
        continuity_check(ctx, E, w["body"], w["jd"], w["label"])
    elif k == "analytic":
        analytic_check(ctx, E, w["jd"])
    elif k == "cheb":
        cheb_check(ctx, E, w["body"], w["jd"])
    elif k == "vector":
        vector_check(ctx, E, w["body"], w["jds"])


class _FixedChoice:
    def __init__(self, body):
        self.body = body

    def choice(self, seq):
        return self.body if self.body in seq else seq[0]
