"""C18 - multiple-model estimation keeps valid probabilities and moment-matched output.

The repository's real ``StaticMultipleModel`` / ``GeneralizedPseudoBayesian1`` objects are driven through whole
histories (predict / update ... until the filter closes) while recording wrappers on

    StaticMultipleModel.update, GeneralizedPseudoBayesian1.update, AdaptiveFilter.prune,
    AdaptiveFilter._resumeSequentialFiltering  (+ _compileUpdateStep as observation point, + predict)

evaluate a class invariant and postconditions after every call.  The wrappers record and return, they never raise
into the code they observe.  The ``models`` of the adaptive filter are real ``UnscentedKalmanFilter`` objects made by
the repository's own ``_createModels`` on linear stub dynamics / stub observations (rvmon/ukf_stubs.py); the adaptive
filter is populated through its constructor plus the public attributes ``initialize()`` fills (no database).  The
hand-over to the agent runs the real ``EstimateAgent._handleMMAE`` / ``_resetFilter`` on a minimal stand-in agent.
A second, small workload runs the repository's MMAE scenario (configs/json/mmae_init.json, both filter kinds) on the
in-process ray stand-in with the same wrappers active.

Monitors
  prob_valid       model_weights (GPB1: also mode_probabilities) finite, >= 0, sum to one - after update, prune, closure
  keep_one         at least one model remains; num_models and the per-model arrays stay aligned with ``models``
  bayes            weights after the likelihood step == prior x N(innovation_i; 0, S_i), renormalised (refs/mmaeref.py,
                   log space, from each model's own innovation / innovation covariance).  Where the total mass is below
                   finfo.resolution the documented reset (uniform weights / uniform likelihoods) is accepted as well.
  gpb1_mixing      GPB1: mode_probabilities == documented mixing matrix (diag : off-diag = mix_ratio : 1) @ weights
  prune_exact      prune removed exactly the selected models (all selected -> one model kept), survivors keep their
                   order, weights == old weights of the survivors renormalised, likelihood array follows
  moments_est      est_x == sum w_i x_i ; est_p == sum w_i (P_i + (x_i - est_x)(x_i - est_x)^T)
  moments_pred     same for pred_x / pred_p (after update / prune with the new weights, after predict with the current ones)
  cov_sym_psd      est_p / pred_p symmetric and positive semi-definite (floor follows the models' own covariances)
  closure          on _resumeSequentialFiltering: converged_filter exists, is of the models' filter class with the same
                   parameters, carries the adaptive filter's time / est / pred exactly, close flag set; for SMM exactly
                   one model is left and the converged filter equals it
  handover         EstimateAgent._handleMMAE swaps in the converged filter and clears the close flag
  converged_usable the converged filter runs one more predict/update and stays finite
  no_exception     update / predict / prune do not raise on admissible input
"""

from __future__ import annotations

import math
import traceback

import numpy as np

from .. import ukf_stubs as st
from ..refs import kfref as kf
from ..refs import mmaeref as mm

LEVEL = "exploration"
RULE = ("case = one history of a real SMM or GPB1 filter: 2..30 UKF models (state dim 2..6, spread / duplicated / one-far / "
        "line layouts, shared or per-model covariances), prune threshold in {1e-10, 1e-6..0.3, 1/k, 1/(k-1)}, convergence "
        "percentage 0.5..0.999, GPB1 mix ratio 0.5..1e3, uniform or pre-weighted (sum n-1) prior, steps drawn from "
        "{consistent with one model, NIS 1e1..1e5 (likelihood underflow to exactly 0), total mass aimed at the 1e-15 reset "
        "threshold, no observation}, until closure (max 10 steps); plus direct prune calls with every weight-threshold "
        "induced index set incl. 'all'; plus the repository MMAE scenario for both filter kinds; non-trivial = distinct "
        "history with at least one decided Bayes comparison (rounding bound < 1e-3 for every model that carries weight)")
ASSUME = ["refs/mmaeref.py (log-space Bayes, mixture moments) is the reference; it reads each model's own innovation and "
          "innovation covariance, so the models' Kalman updates are inputs here (they are C06's subject)",
          "zero-mass reset: accepted whenever the total mass computed with the true or with the filter's stale measurement "
          "dimension is below finfo.resolution*(1+1e-3); then uniform weights, prior weights or the Bayes posterior all pass",
          "SMM never reads mode_probabilities, so only their length is checked there (non-normalised values are counted)",
          "the weights left by SMM._preWeight are a prior and need not sum to one (property: 'after every update and pruning')",
          "linear stub dynamics/observations replace the environment of the model filters only; ray stand-in for the scenario runs"]
SHARDS = {"quick": 4, "thorough": 16}
BUDGET_S = {"quick": 70, "thorough": 540}
DECIDING = ["prob_valid", "keep_one", "bayes", "gpb1_mixing", "prune_exact", "moments_est", "moments_pred", "cov_sym_psd", "model_settings",
            "closure", "handover"]
MANIFEST = {"technique": "runtime monitoring: recording pre/post wrappers on the real SMM/GPB1 classes driven through generated histories",
            "level_text": "held on every history explored except the recorded violations (counts in evidence)",
            "level_note": "model filters run on linear stubs; the Bayes reference trusts each model's innovation and innovation covariance"}

EPS = mm.EPS
LOG_RES = math.log(float(np.finfo(float).resolution))   # log(1e-15): the repository's fpe_equals threshold
BAND = 1e-3            # relative band around the reset threshold inside which either behaviour is accepted
C_BAYES = 200.0        # calibrated: worst observed error / first-order unit over 2.6e5 decided updates (thorough, seed 0) is 1.28
C_MOM = 100.0          # calibrated: worst observed error / ((k+n) eps magnitude) over 3.2e6 comparisons is 0.63
DECIDE_REL = 1e-3

K_ZERO_SURV = "prune-all-selected-survivor-zero-mass"


# ---------------------------------------------------------------------------------------------
# monitor state
# ---------------------------------------------------------------------------------------------
class _S:
    ctx = None
    wit = None           # callable -> witness dict
    frames: list = []
    stats = None
    installed = False


def _witness():
    try:
        return _S.wit() if callable(_S.wit) else (_S.wit or {})
    except Exception:  # noqa: BLE001
        return {}


def _stat(name, n=1):
    if _S.stats is not None:
        _S.stats[name] = _S.stats.get(name, 0) + n


def _guard(fn, *a):
    try:
        fn(*a)
    except Exception:  # noqa: BLE001
        if _S.ctx is not None:
            _S.ctx.inconclusive_because("monitor raised: " + traceback.format_exc()[-900:])


def _f(a):
    return np.array(a, dtype=float)


def _mx(a):
    a = np.asarray(a, dtype=float)
    return float(np.max(np.abs(a))) if a.size else 0.0


def _track(name, err, unit):
    if _S.ctx is None or not (unit > 0 and math.isfinite(err)):
        return
    cur = _S.ctx.extra.setdefault("_calib", {})
    r = err / unit
    if r > cur.get(name, 0.0):
        cur[name] = r


def _is_gpb1(af):
    return type(af).__name__ == "GeneralizedPseudoBayesian1" or hasattr(af, "mix_ratio")


def _wrap(cls, name, kind, pre, post):
    orig = cls.__dict__[name]

    def wrapper(self, *a, **kw):
        if _S.ctx is None:
            return orig(self, *a, **kw)
        fr = {"kind": kind}
        outer = _S.frames[-1] if _S.frames else None
        if pre is not None:
            _guard(pre, fr, outer, self, a)
        _S.frames.append(fr)
        try:
            out = orig(self, *a, **kw)
        finally:
            _S.frames.pop()
        if post is not None:
            _guard(post, fr, outer, self, a)
        return out

    wrapper.__wrapped__ = orig
    wrapper.__name__ = name
    setattr(cls, name, wrapper)


def install():
    if _S.installed:
        return
    from resonaate.estimation.adaptive.adaptive_filter import AdaptiveFilter
    from resonaate.estimation.adaptive.gpb1 import GeneralizedPseudoBayesian1
    from resonaate.estimation.adaptive.smm import StaticMultipleModel

    _wrap(StaticMultipleModel, "update", "update", _pre_update, _post_update)
    _wrap(GeneralizedPseudoBayesian1, "update", "update", _pre_update, _post_update)
    _wrap(AdaptiveFilter, "prune", "prune", _pre_prune, _post_prune)
    _wrap(AdaptiveFilter, "_resumeSequentialFiltering", "resume", None, _post_resume)
    _wrap(AdaptiveFilter, "_compileUpdateStep", "compile", _pre_compile, None)
    _wrap(AdaptiveFilter, "predict", "predict", None, _post_predict)
    _S.installed = True


# ---------------------------------------------------------------------------------------------
# conditions
# ---------------------------------------------------------------------------------------------
def _pre_update(fr, outer, af, a):
    obs = a[0] if a else []
    fr["w0"] = _f(af.model_weights).reshape(-1).copy()
    fr["mu0"] = _f(af.mode_probabilities).reshape(-1).copy()
    fr["k0"] = len(af.models)
    ty = np.asarray(af.true_y)
    fr["m_stale"] = int(ty.shape[0]) if ty.ndim >= 1 else 0
    fr["obs"] = bool(obs)
    fr["bayes_done"] = False
    if _S.stats is not None:
        _S.stats["_last_prune_zero"] = False


def _pre_compile(fr, outer, af, a):
    if outer is not None and outer["kind"] == "update" and outer["obs"] and not outer["bayes_done"]:
        outer["bayes_done"] = True
        _check_bayes(outer, af)


def _post_update(fr, outer, af, a):
    if fr["obs"] and not fr["bayes_done"]:
        _stat("updates_without_compile")
    _check_state(af, "update", None)


def _pre_prune(fr, outer, af, a):
    fr["idx"] = [int(i) for i in np.asarray(a[0]).reshape(-1)]
    fr["w0"] = _f(af.model_weights).reshape(-1).copy()
    fr["l0"] = _f(af.model_likelihoods).reshape(-1).copy()
    fr["models0"] = list(af.models)


def _post_prune(fr, outer, af, a):
    ctx, w = _S.ctx, _witness()
    models0, idx, w0 = fr["models0"], fr["idx"], fr["w0"]
    k0 = len(models0)
    sel = set(i % k0 if -k0 <= i < k0 else i for i in idx) if k0 else set()
    keep = [i for i in range(k0) if i not in sel]
    now = list(af.models)
    pos = {id(m): i for i, m in enumerate(models0)}
    surv = [pos.get(id(m), -1) for m in now]
    all_sel = not keep
    fr["all_selected"] = all_sel
    if all_sel:
        _stat("prune_all_selected")
        ok = len(now) == 1 and surv[0] >= 0
        ctx.check(ok, "prune-all-selected-not-one-left", f"every one of {k0} models was selected for pruning and {len(now)} remain", w, mon="prune_exact")
        if ok and len(w0) == k0 and np.all(np.isfinite(w0)) and w0[surv[0]] < np.max(w0):
            _stat("prune_all_selected_kept_model_is_not_the_most_probable")
    else:
        ctx.check(surv == keep, "prune-wrong-models-removed", f"pruning indices {sorted(sel)} of {k0} models left the models with old indices {surv}, "
                  f"expected {keep}", w, mon="prune_exact")
    fr["zero_mass"] = False
    if surv and min(surv) >= 0 and len(w0) == k0 and np.all(np.isfinite(w0)):
        ws = w0[surv]
        tot = float(np.sum(ws))
        if tot > 0.0 and math.isfinite(tot):
            exp = ws / tot
            got = _f(af.model_weights).reshape(-1)
            ok = got.shape == exp.shape and bool(np.all(np.abs(got - exp) <= 8 * (len(exp) + 2) * EPS * np.maximum(exp, 1e-300) + 1e-300))
            ctx.check(ok, "prune-renormalisation", f"weights after pruning {got.tolist()[:6]} differ from the survivors' old weights renormalised "
                      f"{exp.tolist()[:6]} (sum after = {float(np.sum(got))!r})", w, mon="prune_exact")
        else:
            fr["zero_mass"] = True
            _stat("prune_survivors_zero_mass")
        l0 = fr["l0"]
        if len(l0) == k0:
            got_l = _f(af.model_likelihoods).reshape(-1)
            ctx.check(got_l.shape == (len(surv),) and np.array_equal(got_l, l0[surv], equal_nan=True), "prune-arrays-misaligned",
                      "model_likelihoods after pruning are not the survivors' likelihoods", w, mon="prune_exact")
    _check_state(af, "prune", fr)


def _post_predict(fr, outer, af, a):
    if outer is not None:
        return
    ws = _f(af.model_weights).reshape(-1)
    k = len(af.models)
    if ws.shape != (k,) or not np.all(np.isfinite(ws)) or k == 0:
        return
    # the prior may be un-normalised here only if someone set it so (pre-weighting happens after predict in initialize())
    if abs(float(np.sum(ws)) - 1.0) > 1e-9:
        return
    _check_moments(af, ws, "predict", pred=True, est=False)


def _post_resume(fr, outer, af, a):
    ctx, w = _S.ctx, _witness()
    _stat("closures")
    from resonaate.estimation.sequential_filter import FilterFlag

    cf = af.converged_filter
    if not ctx.check(cf is not None, "closure-no-converged-filter", "converged_filter is None after _resumeSequentialFiltering", w, mon="closure"):
        return
    models = list(af.models)
    ctx.check(len(models) >= 1, "no-model-left", "no model left at closure", w, mon="keep_one")
    if not models:
        return
    m0 = models[0]
    ctx.check(type(cf) is type(m0) and cf.extra_parameters == m0.extra_parameters and type(cf.dynamics) is type(m0.dynamics)
              and np.array_equal(_f(cf.q_matrix), _f(m0.q_matrix)),
              "closure-filter-kind-differs", f"converged filter {type(cf).__name__}{cf.extra_parameters} differs in kind/parameters from the models "
              f"{type(m0).__name__}{m0.extra_parameters}", w, mon="closure")
    same = (np.array_equal(_f(cf.est_x), _f(af.est_x), equal_nan=True) and np.array_equal(_f(cf.est_p), _f(af.est_p), equal_nan=True)
            and np.array_equal(_f(cf.pred_x), _f(af.pred_x), equal_nan=True) and np.array_equal(_f(cf.pred_p), _f(af.pred_p), equal_nan=True)
            and float(cf.time) == float(af.time))
    ctx.check(same, "closure-state-not-carried", "converged filter does not carry the adaptive filter's time / est_x / est_p / pred_x / pred_p", w, mon="closure")
    ctx.check(FilterFlag.ADAPTIVE_ESTIMATION_CLOSE in af.flags and FilterFlag.ADAPTIVE_ESTIMATION_START not in af.flags,
              "closure-flags", f"flags after closure: {af.flags!r}", w, mon="closure")
    fin = bool(np.all(np.isfinite(_f(cf.est_x))) and np.all(np.isfinite(_f(cf.est_p))))
    zero = bool((_S.stats or {}).get("_last_prune_zero", False))
    ctx.check(fin, K_ZERO_SURV if zero else "closure-converged-filter-not-finite", "converged filter has a non-finite estimate or covariance"
              + (" (all models were selected for pruning, the kept model 0 had weight exactly 0, 0/0)" if zero else ""), w, mon="closure")
    if not _is_gpb1(af):
        one = len(models) == 1
        ctx.check(one, "closure-several-models-left", f"SMM closed with {len(models)} models left", w, mon="closure")
        if one and fin:
            ex, ep = _f(m0.est_x), _f(m0.est_p)
            ok = (_mx(_f(cf.est_x) - ex) <= 8 * EPS * max(_mx(ex), 1e-300) and _mx(_f(cf.est_p) - ep) <= 8 * EPS * max(_mx(ep), 1e-300)
                  and _mx(_f(cf.pred_x) - _f(m0.pred_x)) <= 8 * EPS * max(_mx(m0.pred_x), 1e-300)
                  and _mx(_f(cf.pred_p) - _f(m0.pred_p)) <= 8 * EPS * max(_mx(m0.pred_p), 1e-300))
            ctx.check(ok, "closure-ne-surviving-model", f"converged filter differs from the one surviving model: d est_x {_mx(_f(cf.est_x) - ex):.3e}, "
                      f"d est_p {_mx(_f(cf.est_p) - ep):.3e}", w, mon="closure")
    _check_state(af, "closure", None)


def _check_state(af, where, prune_fr):
    ctx, w = _S.ctx, _witness()
    k = len(af.models)
    gp = _is_gpb1(af)
    ctx.check(k >= 1, "no-model-left", f"no model left after {where}", w, mon="keep_one")
    lens = (int(af.num_models), len(np.atleast_1d(af.model_weights)), len(np.atleast_1d(af.model_likelihoods)), len(np.atleast_1d(af.mode_probabilities)))
    ctx.check(all(v == k for v in lens), "arrays-misaligned", f"after {where}: {k} models but num_models/weights/likelihoods/mode_probabilities have "
              f"lengths {lens}", w, mon="keep_one")
    if k == 0:
        return
    if where == "prune":
        zero = bool(prune_fr and prune_fr.get("zero_mass") and prune_fr.get("all_selected"))
        if _S.stats is not None:
            _S.stats["_last_prune_zero"] = zero
    else:
        # the same update that pruned: a NaN left by that prune is the same defect, not a new one
        zero = bool((_S.stats or {}).get("_last_prune_zero", False))
    bad = mm.prob_defects(af.model_weights, k)
    if zero and bad:
        key = K_ZERO_SURV
        extra = " - every model was below the prune threshold, prune() kept model 0 whose weight was exactly 0 and renormalised 0/0"
    else:
        key, extra = f"weights-invalid-after-{where}", ""
    ctx.check(not bad, key, f"model_weights after {where} are not a probability vector: {'; '.join(bad)}; weights[:6]={np.asarray(af.model_weights).tolist()[:6]}{extra}",
              w, mon="prob_valid")
    badm = mm.prob_defects(af.mode_probabilities, k)
    if gp:
        ctx.check(not badm, f"mode-probabilities-invalid-after-{where}", f"GPB1 mode_probabilities after {where}: {'; '.join(badm)}", w, mon="prob_valid")
    elif badm:
        _stat("smm_unused_mode_probabilities_not_normalised")
    if bad:
        return
    ws = _f(af.model_weights).reshape(-1)
    _check_moments(af, ws, where, pred=True, est=True)


def _check_moments(af, ws, where, pred, est):
    ctx, w = _S.ctx, _witness()
    k = len(af.models)
    n = int(af.x_dim)
    for which, on, mon in (("est", est, "moments_est"), ("pred", pred, "moments_pred")):
        if not on:
            continue
        try:
            xs = np.array([_f(getattr(m, which + "_x")).reshape(-1) for m in af.models])
            ps = np.array([_f(getattr(m, which + "_p")) for m in af.models])
        except Exception:  # noqa: BLE001
            _stat("moments_models_unreadable")
            continue
        if xs.shape != (k, n) or ps.shape != (k, n, n) or not (np.all(np.isfinite(xs)) and np.all(np.isfinite(ps))):
            _stat("moments_models_not_finite")
            continue
        xbar, p, mag_x, mag_p = mm.mixture_moments(ws, xs, ps)
        gx, gp_ = _f(getattr(af, which + "_x")), _f(getattr(af, which + "_p"))
        if not ctx.check(gx.shape == (n,) and gp_.shape == (n, n), f"moments-shape-{which}", f"after {where}: {which}_x{gx.shape} {which}_p{gp_.shape}", w, mon=mon):
            continue
        ux, up = (k + 2) * EPS * max(mag_x, 1e-300), (k + n + 4) * EPS * max(mag_p, 1e-300)
        ex, ep = _mx(gx - xbar), _mx(gp_ - p)
        ok_fin = bool(np.all(np.isfinite(gx)) and np.all(np.isfinite(gp_)))
        if ok_fin:
            _track("mom_x", ex, ux)
            _track("mom_p", ep, up)
        ctx.check(ok_fin and ex <= C_MOM * ux, f"{which}-mean-ne-weighted-mean", f"after {where}: {which}_x differs from sum w_i x_i by {ex:.3e} "
                  f"(bound {C_MOM * ux:.3e}, k={k})", w, mon=mon)
        # classify a covariance mismatch: is it exactly the spread term that is missing?
        key = f"{which}-cov-ne-moment-matched"
        if ok_fin and ep > C_MOM * up:
            within = np.einsum("i,ijk->jk", ws, ps)
            if _mx(gp_ - within) <= C_MOM * up:
                key = f"{which}-cov-without-spread-term"
        ctx.check(ok_fin and ep <= C_MOM * up, key, f"after {where}: {which}_p differs from sum w_i (P_i + d_i d_i^T) by {ep:.3e} (bound {C_MOM * up:.3e}, "
                  f"|P|~{mag_p:.3e}, k={k})", w, mon=mon)
        if not ok_fin:
            continue
        asym_in = float(np.sum(np.abs(ws) * np.array([kf.asym(q) for q in ps])))
        neg_in = float(np.sum(np.abs(ws) * np.array([max(0.0, -kf.min_eig_sym(q)) for q in ps])))
        a = kf.asym(gp_)
        # the mixture sums k weighted terms; each adds its own rounding (k eps |P|) on top of the models' own asymmetry.
        # A genuinely asymmetric construction (e.g. outer(d, e) with d != e) is O(|P|), 1e12 times above this floor.
        ctx.check(a <= 4.0 * asym_in + 64 * (k + 2) * EPS * mag_p, f"{which}-cov-asymmetric", f"after {where}: {which}_p asymmetric by {a:.3e} (models: {asym_in:.3e})", w, mon="cov_sym_psd")
        lam = kf.min_eig_sym(gp_)
        floor = -(neg_in + 64 * (n + k) * EPS * mag_p)
        ctx.check(lam >= floor, f"{which}-cov-not-psd", f"after {where}: {which}_p has eigenvalue {lam:.3e} below {floor:.3e} (|P|~{mag_p:.3e})", w, mon="cov_sym_psd")


def _check_bayes(fr, af):
    ctx, w = _S.ctx, _witness()
    k = len(af.models)
    gp = _is_gpb1(af)
    prior = fr["mu0"] if gp else fr["w0"]
    if k != fr["k0"] or prior.shape != (k,) or not np.all(np.isfinite(prior)) or np.any(prior < 0) or float(np.sum(prior)) <= 0:
        _stat("bayes_undecided_bad_prior")
        return
    gs = [mm.gauss_loglik(m.innovation, m.innov_cvr) for m in af.models]
    if not all(g["ok"] for g in gs) or len({g["m"] for g in gs}) != 1:
        _stat("bayes_undecided_innovation_covariance_not_pd")
        return
    m_dim = gs[0]["m"]
    ll = np.array([g["loglik"] for g in gs])
    w_ref, log_mass = mm.bayes_log(prior, ll)
    log_mass_code = log_mass + 0.5 * (m_dim - fr["m_stale"]) * mm.LOG_2PI
    reset_allowed = min(log_mass, log_mass_code) < LOG_RES + BAND
    if (log_mass < LOG_RES) != (log_mass_code < LOG_RES):
        _stat("reset_decision_depends_on_stale_measurement_dimension")
    wts = _f(af.model_weights).reshape(-1)
    units = EPS * np.array([g["cond"] * (g["q"] + m_dim) + m_dim + k + 8 for g in gs])
    rbar = float(np.sum(w_ref * units))
    tol = C_BAYES * w_ref * (units + rbar) + 1e-290
    carry = w_ref > 1e-9
    decided = bool(np.all(C_BAYES * (units[carry] + rbar) < DECIDE_REL))
    shape_ok = wts.shape == (k,)
    fin = shape_ok and bool(np.all(np.isfinite(wts)))
    err = np.abs(wts - w_ref) if fin else np.full(k, np.inf)
    match_bayes = fin and bool(np.all(err <= tol))
    uniform = fin and bool(np.all(np.abs(wts - 1.0 / k) <= 8 * EPS))
    pri_n = prior / float(np.sum(prior))
    match_prior = fin and bool(np.all(np.abs(wts - pri_n) <= 8 * (k + 2) * EPS))
    if fin and not reset_allowed:
        # calibration record (only where the reset cannot have been taken, i.e. the weights must be the Bayes posterior)
        sel = carry & (units + rbar > 0)
        if np.any(sel):
            _track("bayes", float(np.max(err[sel] / (w_ref[sel] * (units[sel] + rbar)))), 1.0)
    if not decided:
        _stat("bayes_undecided_ill_conditioned")
        return
    fr["bayes_decided"] = True
    _stat("bayes_decided")
    if log_mass < LOG_RES + BAND:
        _stat("bayes_total_mass_below_reset_threshold")
        if not match_bayes and (uniform or match_prior):
            _stat("zero_mass_resets_seen")
    if float(np.max(w_ref)) < 1.0 - 1e-9 and float(np.max(np.abs(w_ref - pri_n))) > 1e-6:
        _stat("bayes_informative")
    ok = match_bayes or (reset_allowed and (uniform or match_prior))
    if ok:
        key = "ok"
    elif not fin:
        key = "bayes-weights-not-finite"
    elif uniform or match_prior:
        key = "reset-without-zero-mass"
    else:
        key = "weights-ne-bayes"
    i = int(np.argmax(err - tol)) if fin else 0
    ctx.check(ok, key, f"weights after the likelihood step differ from prior x Gaussian likelihood renormalised: model {i}: {wts[i] if shape_ok else None!r} vs "
              f"{w_ref[i]!r} (bound {tol[i]:.3e}); k={k}, m={m_dim}, log total mass {log_mass:.3f} (reset threshold {LOG_RES:.3f}), NIS range "
              f"{min(g['nis'] for g in gs):.3g}..{max(g['nis'] for g in gs):.3g}", w, mon="bayes")
    if gp and fin:
        mu = _f(af.mode_probabilities).reshape(-1)
        exp = mm.gpb1_mix_matrix(k, float(af.mix_ratio)) @ wts
        ctx.check(mu.shape == (k,) and bool(np.all(np.abs(mu - exp) <= 16 * (k + 2) * EPS)), "gpb1-mode-probabilities-ne-mixing",
                  f"mode_probabilities differ from the documented mixing of the weights by {_mx(mu - exp) if mu.shape == (k,) else float('nan'):.3e} "
                  f"(mix_ratio {float(af.mix_ratio)!r})", w, mon="gpb1_mixing")


# ---------------------------------------------------------------------------------------------
# building and driving one history
# ---------------------------------------------------------------------------------------------
def _L(m):
    return [[float(v) for v in row] for row in np.atleast_2d(m)]


class _LinDyn:
    """Picklable linear flow x -> F x (module level, so that a filter holding it can cross the job boundary)."""

    def __init__(self, f):
        self.F = np.array(f, dtype=float)

    def propagate(self, initial_time, final_time, initial_state, station_keeping=None, scheduled_events=None, error_flags=None):
        return self.F @ initial_state


def _job_boundary(obj):
    """What a Ray task argument / result goes through: pickle protocol 5, out-of-band buffers come back read-only.

    (Checked against real Ray in this sandbox: ``arr.flags.writeable`` is False inside a task, for direct arguments and
    for ``ray.get`` of a ``ray.put`` handle alike, also for tiny arrays.)
    """
    import pickle

    bufs = []
    data = pickle.dumps(obj, protocol=5, buffer_callback=bufs.append)
    return pickle.loads(data, buffers=[bytes(b.raw()) for b in bufs])


def build_filter(spec):
    from resonaate.common.labels import StackingLabel
    from resonaate.estimation.adaptive.gpb1 import GeneralizedPseudoBayesian1
    from resonaate.estimation.adaptive.mmae_stacking_utils import stackingFactory
    from resonaate.estimation.adaptive.smm import StaticMultipleModel
    from resonaate.estimation.kalman.unscented_kalman_filter import UnscentedKalmanFilter
    from resonaate.estimation.maneuver_detection import StandardNis
    from resonaate.estimation.sequential_filter import FilterFlag

    n, k = spec["n"], spec["k"]
    dyn = _LinDyn(spec["F"]) if spec.get("boundary") else st.linear_dynamics(np.array(spec["F"], dtype=float))
    u = spec["ukf"]
    nominal = UnscentedKalmanFilter(10001, st.scenario_time(0.0), np.array(spec["x_nom"], dtype=float), np.array(spec["P0"], dtype=float), dyn,
                                    np.array(spec["Q"], dtype=float), StandardNis(0.01), False, True, resample=bool(u["resample"]),
                                    alpha=u["alpha"], beta=u["beta"], kappa=u["kappa"])
    args = (nominal, float(spec["dt"]), None, stackingFactory(StackingLabel.ECI_STACKING), 1, float(spec["dt"]),
            spec["prune_threshold"], spec["prune_percentage"])
    if spec["cls"] == "gpb1":
        af = GeneralizedPseudoBayesian1(*args, mix_ratio=spec["mix_ratio"])
    else:
        af = StaticMultipleModel(*args)
    # what AdaptiveFilter.initialize() fills after its database queries
    af.num_models = k
    af.mmae_antecedent_time = st.scenario_time(0.0)
    af.flags |= FilterFlag.ADAPTIVE_ESTIMATION_START
    af.models = af._createModels(np.array(spec["states"], dtype=float))  # noqa: SLF001
    # every model is a copy of the nominal filter in everything but its state: in particular the same update variant
    # (sigma points redrawn before the update or not) and the same tuning
    if _S.ctx is not None:
        same = all(bool(getattr(m, "_resample", None)) == bool(u["resample"]) and float(m.gamma) == float(nominal.gamma) for m in af.models)
        _S.ctx.check(same, "models-differ-from-nominal-filter-settings", f"models built from a nominal filter with resample={bool(u['resample'])} have "
                     f"resample={[bool(getattr(m, '_resample', None)) for m in af.models][:4]} / gamma {[float(m.gamma) for m in af.models][:2]} vs {float(nominal.gamma)}",
                     dict(spec), mon="model_settings")
    if spec.get("p_scale"):
        for mdl, s in zip(af.models, spec["p_scale"]):
            mdl.est_p = np.array(spec["P0"], dtype=float) * float(s)
    af.model_likelihoods = np.ones(k)
    af.model_weights = np.ones(k) / k
    af.mode_probabilities = np.ones(k) / k
    assert n == af.x_dim
    return af


class _AgentStub:
    """Just enough of an EstimateAgent for the repository's own _handleMMAE / _resetFilter."""

    def __init__(self, flt):
        self._filter = flt
        self.maneuver_detected = False

    @property
    def nominal_filter(self):
        return self._filter

    def _resetFilter(self, new_filter):
        from resonaate.agents.estimate_agent import EstimateAgent

        EstimateAgent._resetFilter(self, new_filter)  # noqa: SLF001


def _gen_obs(rng, spec, af, truth, kind):
    """Observation specs for one step, aimed with the *predicted* state of the designated true model."""
    if kind == "none":
        return []
    n = spec["n"]
    xm, pm = _f(truth.pred_x), kf.sym(_f(truth.pred_p))
    n_obs = 1 if kind == "band" or rng.random() < 0.7 else 2
    out = []
    for _ in range(n_obs):
        m = int(rng.integers(1, min(3, n) + 1))
        if rng.random() < 0.4:
            h = np.zeros((m, n))
            cols = rng.choice(n, size=m, replace=False)
            for i, c in enumerate(cols):
                h[i, c] = 1.0
        else:
            h = rng.standard_normal((m, n))
        hph = kf.sym(h @ pm @ h.T)
        ref = float(np.mean(np.diag(hph)))
        ref = ref if ref > 0 and math.isfinite(ref) else 1.0
        r = kf.rand_spd(rng, m, ref * float(10 ** rng.uniform(-3, 2)), float(10 ** rng.uniform(0, 3)))
        s = hph + r
        ls = np.linalg.cholesky(s)
        d = rng.standard_normal(m)
        d /= max(float(np.linalg.norm(d)), 1e-300)
        if kind == "fit":
            y = h @ xm + ls @ rng.standard_normal(m) * float(rng.choice([0.3, 1.0, 1.0, 2.5]))
        elif kind == "far":
            y = h @ xm + ls @ d * math.sqrt(float(10 ** rng.uniform(1, 5)))
        else:  # band: aim the total mass at the reset threshold
            wt = _f(af.model_weights).reshape(-1)
            try:
                j = [id(mm_) for mm_ in af.models].index(id(truth))
                lw = math.log(max(float(wt[j]) / max(float(np.sum(wt)), 1e-300), 1e-300))
            except (ValueError, IndexError):
                lw = 0.0
            logdet = 2.0 * float(np.sum(np.log(np.diag(ls))))
            target = 2.0 * (-LOG_RES + float(rng.uniform(-4, 4)) - 0.5 * (m * mm.LOG_2PI + logdet) + lw)
            y = h @ xm + (ls @ d * math.sqrt(target) if target > 0 else ls @ rng.standard_normal(m))
        out.append({"H": _L(h), "R": _L(r), "y": [float(v) for v in y]})
    return out


def _mk_obs(ospecs):
    return [st.linear_observation(np.array(o["H"], dtype=float), np.array(o["R"], dtype=float), np.array(o["y"], dtype=float), f"o{j}_")
            for j, o in enumerate(ospecs)]


def run_history(ctx, spec, rng=None):
    """Drive one history; returns per-history stats.  ``spec['steps']`` is extended when ``rng`` is given."""
    from resonaate.estimation.sequential_filter import FilterFlag

    install()
    stats = {"ended": None, "steps": 0}
    steps = spec.setdefault("steps", [])
    cur = {"k": 0}

    def wit():
        w = dict(spec)
        w["steps"] = steps[:cur["k"] + 1]
        return w

    _S.ctx, _S.wit, _S.stats, _S.frames = ctx, wit, stats, []
    try:
        try:
            af = build_filter(spec)
        except Exception as e:  # noqa: BLE001
            ctx.inconclusive_because(f"could not build the adaptive filter: {type(e).__name__}: {e}"[:400])
            return stats
        truth = af.models[int(spec.get("truth", 0)) % len(af.models)]
        agent = _AgentStub(af)
        boundary = bool(spec.get("boundary"))
        t = 0.0
        n_max = spec["max_steps"] if rng is not None else len(steps)
        for k in range(n_max):
            cur["k"] = k
            t += float(spec["dt"])
            try:
                if boundary and k > 0:
                    # (step 0 is initialize(): models are created, predicted and updated inside one job, on fresh arrays)
                    # asyncPredict: the filter travels to the job, the AdaptivePredictResult travels back and is applied
                    wf = _job_boundary(af)
                    wf.predict(st.scenario_time(t))
                    _job_boundary(wf.getPredictionResult()).apply(af)
                else:
                    af.predict(st.scenario_time(t))
            except np.linalg.LinAlgError:
                stats["ended"] = "model-covariance-not-pd"
                break
            except Exception as e:  # noqa: BLE001
                ctx.check(False, f"predict-raised-{type(e).__name__}", f"step {k}: predict raised {type(e).__name__}: {e}"[:300], wit(), mon="no_exception")
                stats["ended"] = "raised"
                break
            ctx.mon("no_exception")
            j_truth = 0
            if boundary and k > 0:
                # asyncUpdateEstimate: the whole agent (with its filter) is fetched inside the job
                j_truth = [id(m_) for m_ in af.models].index(id(truth)) if truth in af.models else 0
                af = _job_boundary(af)
                agent._filter = af  # noqa: SLF001
                truth = af.models[j_truth]
            if k == 0 and spec.get("prior") is not None:
                af.model_weights = np.array(spec["prior"], dtype=float)   # what SMM._preWeight leaves behind (after predict, before update)
            if k >= len(steps):
                if truth not in af.models:
                    truth = af.models[int(rng.integers(len(af.models)))]
                kind = str(rng.choice(spec["step_kinds"])) if k > 0 or spec["step_kinds"] != ["none"] else "fit"
                if k == 0 and kind == "none":
                    kind = "fit"      # MMAE is only ever started on a step that has observations
                steps.append({"kind": kind, "obs": _gen_obs(rng, spec, af, truth, kind)})
            step = steps[k]
            obs = _mk_obs(step["obs"])
            if "prune" in step:
                # direct pruning call with a weight-threshold induced index set (what _prunedToSingleModel would pass for that threshold)
                try:
                    af.update(obs)
                    ws = _f(af.model_weights).reshape(-1)
                    if af.converged_filter is None and np.all(np.isfinite(ws)):
                        tau = step["prune"]
                        idx = np.argwhere(ws < (math.inf if tau is None else tau)).flatten()
                        if len(idx):
                            stats["direct_prunes"] = stats.get("direct_prunes", 0) + 1
                            af.prune(idx, obs)
                except np.linalg.LinAlgError:
                    stats["ended"] = "model-covariance-not-pd"
                    break
                except Exception as e:  # noqa: BLE001
                    ctx.check(False, f"update-raised-{type(e).__name__}", f"step {k}: update/prune raised {type(e).__name__}: {e}"[:300], wit(), mon="no_exception")
                    stats["ended"] = "raised"
                    break
                stats["steps"] += 1
                if len(af.models) == 1:
                    stats["ended"] = "direct-prune-to-one"
                    break
                continue
            try:
                af.update(obs)
            except np.linalg.LinAlgError:
                stats["ended"] = "model-covariance-not-pd"
                break
            except Exception as e:  # noqa: BLE001
                if boundary and isinstance(e, ValueError) and "read-only" in str(e):
                    tb = traceback.extract_tb(e.__traceback__)
                    where = next((f"{fr_.filename.rsplit('/', 1)[-1]}:{fr_.lineno} `{fr_.line}`" for fr_ in reversed(tb) if "estimation/adaptive" in fr_.filename), "?")
                    ctx.check(False, f"{spec['cls']}-update-writes-read-only-array-in-job", f"step {k}: {type(af).__name__}.update assigns in place into an array that "
                              f"arrived through the job boundary (read-only, as in a Ray task): {where}", wit(), mon="no_exception")
                else:
                    ctx.check(False, f"update-raised-{type(e).__name__}", f"step {k}: update raised {type(e).__name__}: {e}"[:300], wit(), mon="no_exception")
                stats["ended"] = "raised"
                break
            ctx.mon("no_exception")
            stats["steps"] += 1
            closed = FilterFlag.ADAPTIVE_ESTIMATION_CLOSE in af.flags
            if obs:
                # the agent only looks at the flags on steps with observations (EstimateAgent._update)
                _handover(ctx, agent, af, obs, closed, wit())
            if boundary and not closed:
                j_truth = [id(m_) for m_ in af.models].index(id(truth)) if truth in af.models else 0
                af = _job_boundary(af)          # EstUpdateResult.updated_filter travels back to the driver
                agent._filter = af  # noqa: SLF001
                truth = af.models[j_truth]
            if closed:
                stats["ended"] = "closed"
                stats["closed_with_models"] = len(af.models)
                if obs:
                    _after_closure(ctx, agent, spec, t, wit())
                break
        else:
            stats["ended"] = "max-steps"
    finally:
        _S.ctx, _S.wit, _S.stats, _S.frames = None, None, None, []
    return stats


def _handover(ctx, agent, af, obs, closed, w):
    from resonaate.agents.estimate_agent import EstimateAgent
    from resonaate.estimation.sequential_filter import FilterFlag

    cf = af.converged_filter
    try:
        EstimateAgent._handleMMAE(agent, obs)  # noqa: SLF001
    except Exception as e:  # noqa: BLE001
        ctx.check(False, f"handover-raised-{type(e).__name__}", f"EstimateAgent._handleMMAE raised {type(e).__name__}: {e}"[:300], w, mon="handover")
        return
    if closed and cf is not None and hasattr(cf, "_resample") and af.models:
        m0 = af.models[0]
        ctx.check(bool(cf._resample) == bool(getattr(m0, "_resample", cf._resample)) and float(cf.gamma) == float(m0.gamma), "handed-back-filter-settings-differ",  # noqa: SLF001
                  f"the filter handed back has resample={bool(cf._resample)}, gamma={float(cf.gamma)}; the surviving model had resample={bool(getattr(m0, '_resample', None))}, gamma={float(m0.gamma)}", w, mon="model_settings")  # noqa: SLF001
    if closed:
        ok = agent.nominal_filter is cf and cf is not None and FilterFlag.ADAPTIVE_ESTIMATION_CLOSE not in af.flags
        ctx.check(ok, "handover-not-converged-filter", "after the close flag the agent's filter is not the adaptive filter's converged_filter", w, mon="handover")
    else:
        ctx.check(agent.nominal_filter is af, "handover-without-close", "the agent replaced the adaptive filter although it has not closed", w, mon="handover")


def _after_closure(ctx, agent, spec, t, w):
    cf = agent.nominal_filter
    if cf is None or not (np.all(np.isfinite(_f(cf.est_x))) and np.all(np.isfinite(_f(cf.est_p)))):
        return
    n = spec["n"]
    try:
        cf.predict(st.scenario_time(t + float(spec["dt"])))
        h = np.eye(1, n)
        px = _f(cf.pred_x)
        r = np.array([[max(float(_f(cf.pred_p)[0, 0]), 1e-300)]])
        cf.update([st.linear_observation(h, r, h @ px)])
        ok = bool(np.all(np.isfinite(_f(cf.est_x))) and np.all(np.isfinite(_f(cf.est_p))))
        ctx.check(ok, "converged-filter-not-finite-after-step", "the converged filter's next predict/update gave non-finite values", w, mon="converged_usable")
    except np.linalg.LinAlgError:
        ctx.count("converged_filter_covariance_not_pd")
    except Exception as e:  # noqa: BLE001
        ctx.check(False, f"converged-filter-raised-{type(e).__name__}", f"the converged filter's next predict/update raised {type(e).__name__}: {e}"[:300], w,
                  mon="converged_usable")


# ---------------------------------------------------------------------------------------------
# generation
# ---------------------------------------------------------------------------------------------
def _gen_f(rng, n):
    kind = str(rng.choice(["identity", "kinematic", "stable", "rotation"]))
    if kind == "kinematic" and n % 2 == 0:
        h = n // 2
        dt = float(10 ** rng.uniform(-2, 1))
        return np.block([[np.eye(h), dt * np.eye(h)], [np.zeros((h, h)), np.eye(h)]])
    if kind == "stable":
        g = rng.standard_normal((n, n)) / math.sqrt(n)
        rho = max(float(max(abs(np.linalg.eigvals(g)))), 1e-3)
        return g * (float(rng.uniform(0.5, 0.99)) / rho)
    if kind == "rotation":
        return kf.rand_orth(rng, n)
    return np.eye(n)


def _pick_k(rng):
    r = rng.random()
    if r < 0.15:
        return 2
    if r < 0.25:
        return 3
    if r < 0.35:
        return 30
    if r < 0.75:
        return int(rng.integers(4, 12))
    return int(rng.integers(12, 31))


def gen_spec(rng, quick=True, direct_prune=False):
    n = int(rng.choice([2, 3, 4, 6]))
    k = _pick_k(rng)
    cls = "smm" if direct_prune or rng.random() < 0.6 else "gpb1"
    scale = float(10 ** rng.uniform(-3, 3))
    p0 = kf.rand_spd(rng, n, scale, float(10 ** rng.uniform(0, 4)))
    q = kf.rand_spd(rng, n, scale * float(10 ** rng.uniform(-6, -1)), float(10 ** rng.uniform(0, 3)))
    lp = np.linalg.cholesky(p0)
    x_nom = rng.standard_normal(n) * math.sqrt(scale) * float(10 ** rng.uniform(-1, 2))
    layout = str(rng.choice(["spread", "spread", "dups", "one_far", "line", "tight"]))
    if layout == "spread":
        sep = float(10 ** rng.uniform(-1, 2.5))
        states = [x_nom + sep * (lp @ rng.standard_normal(n)) for _ in range(k)]
    elif layout == "tight":
        sep = float(10 ** rng.uniform(-3, -0.5))
        states = [x_nom + sep * (lp @ rng.standard_normal(n)) for _ in range(k)]
    elif layout == "dups":
        nd = int(rng.integers(1, max(2, k // 2) + 1))
        base = [x_nom + float(10 ** rng.uniform(-1, 2)) * (lp @ rng.standard_normal(n)) for _ in range(nd)]
        states = [base[int(rng.integers(nd))].copy() for _ in range(k)]
    elif layout == "one_far":
        far = int(rng.choice([0, 0, k - 1, int(rng.integers(k))]))
        near = float(rng.choice([0.0, 0.0, 10 ** rng.uniform(-3, -1)]))
        states = [x_nom + near * (lp @ rng.standard_normal(n)) for _ in range(k)]
        states[far] = x_nom + float(10 ** rng.uniform(2, 4)) * (lp @ rng.standard_normal(n))
    else:
        d = lp @ rng.standard_normal(n) * float(10 ** rng.uniform(-1, 2))
        states = [x_nom + i * d for i in range(k)]
    r = rng.random()
    if r < 0.2:
        thr = 0.3
    elif r < 0.3:
        thr = 1e-6
    elif r < 0.38:
        thr = 1e-10
    elif r < 0.46:
        thr = 1.0 / k if k > 3 else 0.3
    elif r < 0.54:
        thr = min(0.3, float(np.nextafter(1.0 / (k - 1), 1.0))) if k > 4 else 0.3
    else:
        thr = float(10 ** rng.uniform(-6, math.log10(0.3)))
    pct = float(rng.choice([0.5, 0.9, 0.997, 0.999, rng.uniform(0.5, 0.999)]))
    kinds = [["fit"], ["fit", "fit", "far"], ["fit", "far", "band", "none"], ["far"], ["band", "fit"], ["fit", "none"], ["band"]][int(rng.integers(7))]
    prior = None
    if cls == "smm" and not direct_prune and rng.random() < 0.15:
        e = np.abs(rng.standard_normal(k)) * float(10 ** rng.uniform(-3, 1))
        if rng.random() < 0.2:
            e[int(rng.integers(k))] = 0.0
        prior = [float(v) for v in np.abs(1.0 - e / float(np.sum(e)))]      # the formula of SMM._preWeight
    spec = {"kind": "history", "cls": cls, "n": n, "k": k, "layout": layout, "dt": 60.0,
            "F": _L(_gen_f(rng, n)), "Q": _L(q), "P0": _L(p0), "x_nom": [float(v) for v in x_nom],
            "states": [[float(v) for v in s] for s in states],
            "p_scale": [float(10 ** rng.uniform(-1, 1)) for _ in range(k)] if rng.random() < 0.35 else None,
            "ukf": {"alpha": float(rng.choice([0.05, 0.05, 1e-3, 1.0, 0.5])), "beta": 2.0, "kappa": [None, 0.0][int(rng.integers(2))],
                    "resample": bool(rng.integers(2))},
            "prune_threshold": float(thr), "prune_percentage": pct, "mix_ratio": float(rng.choice([1.5, 1.5, 1.0, 0.5, 10 ** rng.uniform(0, 3)])),
            "prior": prior, "truth": int(rng.integers(k)), "step_kinds": kinds, "boundary": bool(rng.random() < 0.3) and not direct_prune,
            "max_steps": int(rng.integers(2, 7 if quick else 11)), "steps": []}
    if direct_prune:
        spec["kind"] = "prune"
        spec["prune_threshold"], spec["prune_percentage"] = 0.0, 2.0     # the filter itself never prunes or closes in these cases
    return spec


def edge_specs():
    """Hand-made histories around the corner cases named in the plan (all inside the quantifier of the property)."""
    out = []
    eye2 = [[1.0, 0.0], [0.0, 1.0]]
    base = {"kind": "history", "n": 2, "dt": 60.0, "F": eye2, "Q": [[1e-4, 0.0], [0.0, 1e-4]], "P0": eye2, "x_nom": [0.0, 0.0], "p_scale": None,
            "ukf": {"alpha": 0.05, "beta": 2.0, "kappa": None, "resample": False}, "mix_ratio": 1.5, "prior": None, "truth": 1,
            "step_kinds": ["fit"], "max_steps": 3}
    ob = {"H": eye2, "R": [[0.1, 0.0], [0.0, 0.1]]}
    for cls in ("smm", "gpb1"):
        # every model explains the observation equally well, threshold above 1/k: everything is selected for pruning
        out.append(dict(base, cls=cls, k=5, layout="edge-all-equal", states=[[0.0, 0.0]] * 5, prune_threshold=0.3, prune_percentage=0.997,
                        steps=[{"kind": "fit", "obs": [dict(ob, y=[0.3, -0.2])]}]))
        # same, but model 0 is wildly inconsistent (likelihood underflows to exactly 0)
        out.append(dict(base, cls=cls, k=5, layout="edge-first-far", states=[[500.0, 500.0]] + [[0.0, 0.0]] * 4, prune_threshold=0.3, prune_percentage=0.997,
                        steps=[{"kind": "fit", "obs": [dict(ob, y=[0.3, -0.2])]}]))
        # nobody explains the observation: total mass underflows to exactly 0 -> documented reset
        out.append(dict(base, cls=cls, k=3, layout="edge-all-far", states=[[0.0, 0.0], [1.0, 0.0], [0.0, 1.0]], prune_threshold=1e-6, prune_percentage=0.997,
                        steps=[{"kind": "far", "obs": [dict(ob, y=[400.0, 400.0])]}, {"kind": "fit", "obs": [dict(ob, y=[0.9, 0.1])]}]))
        # two models, convergence percentage exactly 0.5
        out.append(dict(base, cls=cls, k=2, layout="edge-two", states=[[0.0, 0.0], [3.0, 0.0]], prune_threshold=1e-6, prune_percentage=0.5,
                        steps=[{"kind": "fit", "obs": [dict(ob, y=[1.5, 0.0])]}, {"kind": "fit", "obs": [dict(ob, y=[2.5, 0.0])]}, {"kind": "none", "obs": []}]))
        # thirty models on a line, one clearly right
        out.append(dict(base, cls=cls, k=30, layout="edge-thirty", states=[[float(i), 0.0] for i in range(30)], prune_threshold=1e-6, prune_percentage=0.9,
                        steps=[{"kind": "fit", "obs": [dict(ob, y=[7.1, 0.0])]}, {"kind": "fit", "obs": [dict(ob, y=[7.0, 0.1])]}]))
    return out


# ---------------------------------------------------------------------------------------------
# the repository's MMAE scenario on the ray stand-in
# ---------------------------------------------------------------------------------------------
def run_scenario(ctx, w):
    """configs/json/mmae_init.json with the chosen adaptive filter; wrappers observe every update inside the jobs."""
    import json
    import os
    from datetime import timedelta

    from .. import scenario_kit as sk

    sk.init()
    install()
    from resonaate.scenario.config import ScenarioConfig

    stats = {"ended": None, "steps": 0}
    src = os.environ.get("RESONAATE_SRC", "/repo/src")
    cfg_path = os.path.join(os.path.dirname(os.path.dirname(os.path.abspath(src))), "configs", "json", "mmae_init.json")
    if not os.path.exists(cfg_path):
        cfg_path = "/repo/configs/json/mmae_init.json"
    cfg = ScenarioConfig.parseConfigFile(cfg_path) if hasattr(ScenarioConfig, "parseConfigFile") else json.load(open(cfg_path))
    cfg["estimation"]["adaptive_filter"]["name"] = w["name"]
    cfg["estimation"]["adaptive_filter"]["prune_threshold"] = w["prune_threshold"]
    cfg["estimation"]["adaptive_filter"]["prune_percentage"] = w["prune_percentage"]
    cfg["noise"]["random_seed"] = int(w["seed"])
    _S.ctx, _S.wit, _S.stats, _S.frames = ctx, (lambda: dict(w)), stats, []
    b = None
    try:
        b = sk.build(cfg, base_seed=int(w["seed"]))
        app = b.app
        orig_step = app.stepForward

        def stepped():
            # agent-level hand-over: after every step each estimate agent holds a filter that is at the current time and has no
            # pending close request (a closed adaptive filter was replaced by its surviving model in the step in which it closed)
            from resonaate.estimation.sequential_filter import FilterFlag

            orig_step()
            now = float(app.clock.time)
            for aid, ag in app.estimate_agents.items():
                flt = ag.nominal_filter
                ctx.check(abs(float(flt.time) - now) < 1e-6, "scenario-agent-filter-not-at-current-time",
                          f"MMAE scenario ({w['name']}): after the step ending at t={now:.0f}s estimate agent {aid} holds a {type(flt).__name__} whose time is {float(flt.time):.0f}s", dict(w), mon="handover")
                # (the surviving model inherits the flag word and clears it at its next predict: only an adaptive filter that is
                # still installed although it has closed is a missed hand-over)
                still_adaptive = hasattr(flt, "converged_filter")
                ctx.check(not (still_adaptive and FilterFlag.ADAPTIVE_ESTIMATION_CLOSE in flt.flags), "scenario-closed-adaptive-filter-not-handed-back",
                          f"MMAE scenario ({w['name']}): after the step ending at t={now:.0f}s estimate agent {aid} still holds the closed {type(flt).__name__} instead of its surviving model", dict(w), mon="handover")

        app.stepForward = stepped
        try:
            sk.run_like_cli(b.app, timedelta(hours=float(w["hours"])))
        except Exception as e:  # noqa: BLE001
            tb = traceback.extract_tb(e.__traceback__)
            inside = any("estimation/adaptive" in fr.filename for fr in tb)
            if inside and isinstance(e, ValueError) and "read-only" in str(e):
                where = next((f"{fr.filename.rsplit('/', 1)[-1]}:{fr.lineno} `{fr.line}`" for fr in reversed(tb) if "estimation/adaptive" in fr.filename), "?")
                ctx.check(False, f"{w['name']}-update-writes-read-only-array-in-job", f"MMAE scenario ({w['name']}, mmae_init.json) on the ray stand-in: update assigns "
                          f"in place into an array that arrived through the job boundary (read-only, as in a Ray task): {where}", dict(w), mon="no_exception")
            elif inside:
                ctx.check(False, f"scenario-update-raised-{type(e).__name__}", f"MMAE scenario ({w['name']}) raised inside the adaptive filter: "
                          f"{type(e).__name__}: {e}"[:300], dict(w), mon="no_exception")
            else:
                ctx.inconclusive_because(f"MMAE scenario raised outside the adaptive filter: {type(e).__name__}: {e}"[:300])
    finally:
        _S.ctx, _S.wit, _S.stats, _S.frames = None, None, None, []
        if b is not None:
            sk.teardown(b)
    return stats


# ---------------------------------------------------------------------------------------------
def _finish(ctx, spec, stats, idx):
    nontrivial = stats.get("bayes_decided", 0) > 0
    key = (spec["kind"], spec["cls"], spec["n"], spec["k"], spec["prune_threshold"], spec["prune_percentage"], tuple(spec["states"][0]), len(spec["steps"]))
    smp = None
    if idx % 97 == 0:
        smp = {"kind": spec["kind"], "cls": spec["cls"], "n": spec["n"], "k": spec["k"], "layout": spec["layout"], "prune_threshold": spec["prune_threshold"],
               "prune_percentage": spec["prune_percentage"], "prior": "pre-weighted" if spec.get("prior") else "uniform",
               "steps": [s["kind"] for s in spec["steps"]], "stats": {k: v for k, v in stats.items() if not k.startswith("_")}}
    ctx.case(key, nontrivial=bool(nontrivial), sample=smp)
    for name in ("bayes_decided", "bayes_informative", "bayes_undecided_ill_conditioned", "bayes_undecided_innovation_covariance_not_pd",
                 "bayes_total_mass_below_reset_threshold", "zero_mass_resets_seen", "reset_decision_depends_on_stale_measurement_dimension",
                 "prune_all_selected", "prune_all_selected_kept_model_is_not_the_most_probable", "prune_survivors_zero_mass", "closures",
                 "smm_unused_mode_probabilities_not_normalised", "direct_prunes", "steps", "updates_without_compile"):
        if stats.get(name):
            ctx.count(name, stats[name])
    ctx.count("histories_" + spec["cls"])
    ctx.count("ended_" + str(stats.get("ended")))
    ctx.add_to_set("model_counts", spec["k"])
    if stats.get("closed_with_models"):
        ctx.add_to_set("models_left_at_closure", stats["closed_with_models"])


def run_initialize(ctx, w):
    """A real episode opening: ``AdaptiveFilter.initialize`` generates the manoeuvre hypotheses from a stored estimate history,
    screens out the infeasible ones (delta-v cap / Earth impact) and runs the first predict + update.  The database is replaced
    by fixed query results (as the repository's own unit tests do); hypothesis generation, screening, models and update are real."""
    import resonaate.estimation.adaptive.adaptive_filter as af_mod
    from resonaate.common.labels import SensorLabel
    from resonaate.data.ephemeris import EstimateEphemeris
    from resonaate.data.observation import Observation
    from resonaate.dynamics.two_body import TwoBody
    from resonaate.estimation.adaptive.gpb1 import GeneralizedPseudoBayesian1
    from resonaate.estimation.adaptive.initialization import lambertInitializationFactory
    from resonaate.estimation.adaptive.mmae_stacking_utils import stackingFactory
    from resonaate.estimation.adaptive.smm import StaticMultipleModel
    from resonaate.estimation.kalman.unscented_kalman_filter import UnscentedKalmanFilter
    from resonaate.estimation.maneuver_detection import StandardNis
    from resonaate.physics.measurements import Measurement
    from resonaate.physics.time.stardate import JulianDate

    install()
    stats = {"ended": None, "steps": 0}
    _S.ctx, _S.wit, _S.stats, _S.frames = ctx, (lambda: dict(w)), stats, []
    jd_start, jd_prior, jd_now = JulianDate(2459304.16666666665), JulianDate(2459304.208333333), JulianDate(2459304.270833333)
    x_prior = np.array([1042.1334518641331, 1033.37035125107, 6705.6390684495655, 7.454413970030313, 0.916571711200926, -1.295920318595538])
    dyn = TwoBody()

    def est(jd, eci):
        return EstimateEphemeris().fromCovarianceMatrix(julian_date=jd, agent_id=10001, source="Observation", covariance=np.zeros((6, 6)), eci=list(eci))

    history = [est(jd_prior, x_prior), est(JulianDate(2459304.2152777775), dyn.propagate(3600, 4200, x_prior)), est(JulianDate(2459304.2638888885), dyn.propagate(3600, 8400, x_prior))]
    est_x = dyn.propagate(3600, 9300, x_prior) + np.array([*w["offset"], 0.0, 0.0, 0.0])
    sensor = np.array([-1.55267475e03, 1.47362430e03, 5.98812597e03, -1.07453539e-01, -1.14109571e-01, 2.19474290e-04])
    labels = ["azimuth_rad", "elevation_rad"] if w["sensor"] == "optical" else ["azimuth_rad", "elevation_rad", "range_km", "range_rate_km_p_sec"]
    meas = Measurement.fromMeasurementLabels(labels, np.diagflat([2.4e-11, 3.7e-11, 2.5e-5, 4.0e-8][: len(labels)]))
    kind = SensorLabel.OPTICAL if w["sensor"] == "optical" else SensorLabel.ADV_RADAR
    ob = Observation.fromMeasurement(epoch_jd=jd_now, target_id=10001, tgt_eci_state=est_x, sensor_id=100001, sensor_eci=sensor, sensor_type=kind, measurement=meas, noisy=False)
    ob_prior = Observation.fromMeasurement(epoch_jd=jd_prior, target_id=10001, tgt_eci_state=x_prior, sensor_id=100001, sensor_eci=sensor, sensor_type=kind, measurement=meas, noisy=False)
    saved = (af_mod.getDBConnection, af_mod.fetchEstimatesByJDInterval, af_mod.fetchObservationsByJDInterval)
    af_mod.getDBConnection = lambda *a, **k: None
    af_mod.fetchEstimatesByJDInterval = lambda *a, **k: history
    af_mod.fetchObservationsByJDInterval = lambda *a, **k: [ob_prior]
    try:
        p0 = np.diagflat([1.0, 2.0, 1.0, 1, 1, 1])
        nominal = UnscentedKalmanFilter(10001, 0.0, est_x, p0, TwoBody(), 3 * p0, StandardNis(0.01), None, False)
        cls = StaticMultipleModel if w["name"] == "smm" else GeneralizedPseudoBayesian1
        af = cls(nominal, 300, lambertInitializationFactory("lambert_universal"), stackingFactory("eci_stack"), 1, 300, w["prune_threshold"], 0.997)
        af.time = 9300
        gen = {}
        orig = af._initialPruning  # noqa: SLF001

        def spy(maneuvers, crashed, states):
            gen["n"] = int(states.shape[0])
            return orig(maneuvers, crashed, states)

        af._initialPruning = spy  # noqa: SLF001
        try:
            started = af.initialize([ob], jd_start)
        except Exception as e:  # noqa: BLE001
            ctx.check(False, "initialize-raised", f"{cls.__name__}.initialize raised {type(e).__name__}: {str(e)[:160]} (hypotheses generated {gen.get('n')}, models kept {len(getattr(af, 'models', []))}, "
                      f"{len(np.atleast_1d(getattr(af, 'model_weights', [])))} probabilities; {w['sensor']} detection)", dict(w), mon="prob_valid")
            return {"screened": None}
        n_models = len(af.models)
        screened = gen.get("n", n_models) - n_models
        if started and n_models >= 1:
            pw = np.asarray(af.model_weights, dtype=float)
            ok = pw.shape == (n_models,) and bool(np.all(np.isfinite(pw))) and bool(np.all(pw >= 0)) and abs(float(pw.sum()) - 1.0) <= 1e-9
            ctx.check(ok, "initialize-probabilities-invalid", f"after {cls.__name__}.initialize: {pw.size} probabilities for {n_models} models, sum {float(pw.sum()) if pw.size else None!r} "
                      f"({screened} of {gen.get('n')} hypotheses screened out; {w['sensor']} detection)", dict(w), mon="prob_valid")
        return {"screened": screened, "models": n_models, "started": bool(started)}
    finally:
        af_mod.getDBConnection, af_mod.fetchEstimatesByJDInterval, af_mod.fetchObservationsByJDInterval = saved


def run(ctx):
    np.seterr(all="ignore")
    import logging
    import warnings

    warnings.filterwarnings("ignore")
    from .. import scenario_kit as sk

    sk.init()      # ray stand-in first: EstimateAgent (used for the hand-over) imports the parallel layer
    logging.getLogger("resonaate").setLevel(logging.CRITICAL + 10)
    install()
    rng = ctx.rng("c18")
    idx = 0
    if ctx.shard == 0:
        for spec in edge_specs():
            idx += 1
            _finish(ctx, spec, run_history(ctx, spec), idx)
    # real episode openings (hypothesis generation + feasibility screening + first update), both filters, both detection kinds
    irng = ctx.pyrng("init")
    for name in ("smm", "gpb1"):
        for sensor in ("optical", "radar"):
            w = {"kind": "initialize", "name": name, "sensor": sensor, "prune_threshold": irng.choice([0.0, 1e-20]),
                 "offset": [irng.choice([250.0, 120.0, 400.0, 5.0]) * irng.choice([1, -1]), irng.choice([150.0, 60.0, 0.5]), irng.choice([-200.0, -80.0, 1.0])]}
            r = run_initialize(ctx, w)
            ctx.case(("initialize", name, sensor, tuple(w["offset"])), nontrivial=bool(r.get("screened")), sample={"initialize": w, "result": r} if name == "smm" else None)
            ctx.count("initialize_episodes")
            ctx.count("initialize_episodes_with_screened_hypotheses", int(bool(r.get("screened"))))
    # the repository scenario: one run per filter kind in the quick tier (shards 1, 2), several seeds in the thorough tier
    scen = []
    if ctx.quick:
        if ctx.shard == 1 % ctx.nshards:
            scen.append({"kind": "scenario", "name": "gpb1", "prune_threshold": 1e-10, "prune_percentage": 0.997, "seed": 1234567890987654321 % (2 ** 31), "hours": 4.0})
        if ctx.shard == 2 % ctx.nshards:
            scen.append({"kind": "scenario", "name": "smm", "prune_threshold": 1e-10, "prune_percentage": 0.997, "seed": 1234567890987654321 % (2 ** 31), "hours": 4.0})
    else:
        srng = ctx.pyrng("scen")
        name = ["gpb1", "smm"][ctx.shard % 2]
        for _ in range(2):
            scen.append({"kind": "scenario", "name": name, "prune_threshold": srng.choice([1e-10, 1e-6, 1e-3, 0.3]),
                         "prune_percentage": srng.choice([0.5, 0.9, 0.997, 0.999]), "seed": srng.randrange(1, 2 ** 31), "hours": 8.0})
    for w in scen:
        if ctx.time_left() < 40:
            break
        stats = run_scenario(ctx, w)
        ctx.case(("scenario", w["name"], w["seed"], w["prune_threshold"], w["prune_percentage"]), nontrivial=stats.get("bayes_decided", 0) > 0,
                 sample={"scenario": "mmae_init.json", **w, "stats": {k: v for k, v in stats.items() if not k.startswith("_")}})
        ctx.count("scenario_runs")
        ctx.count("scenario_mmae_updates_observed", stats.get("bayes_decided", 0) + stats.get("bayes_undecided_ill_conditioned", 0))
        ctx.count("scenario_closures", stats.get("closures", 0))
    total = ctx.scale(1750, 100_000)       # every 7th case is a direct prune call
    for i in range(total):
        if ctx.time_left() < 6:
            ctx.note("stopped_by_budget", True)
            break
        direct = i % 7 == 6
        spec = gen_spec(rng, ctx.quick, direct_prune=direct)
        if direct:
            # step 0: an ordinary update (filter-side pruning disabled); then a direct prune with a weight-threshold index set
            mode = rng.random()
            spec["max_steps"] = 1
            stats = None
            spec["steps"] = []
            spec["_prune_mode"] = "all" if mode < 0.3 else "tau"
            stats = _run_direct(ctx, spec, rng)
        else:
            stats = run_history(ctx, spec, rng)
        idx += 1
        _finish(ctx, spec, stats, idx)
    cal = ctx.extra.pop("_calib", {})
    ctx.add_to_set("calibration_worst_error_over_unit", f"shard {ctx.shard}: " + ", ".join(f"{k}={v:.3g}" for k, v in sorted(cal.items()))
                   + f" (C_BAYES={C_BAYES}, C_MOM={C_MOM})")


def _run_direct(ctx, spec, rng):
    """One generated update, then prune() called with the index set a threshold tau would select (tau=None: every model)."""
    mode = spec.pop("_prune_mode")
    # generate the observation of step 0 with a throw-away filter so that the recorded step is complete before the monitored run
    probe = build_filter(spec)
    probe.predict(st.scenario_time(float(spec["dt"])))
    truth = probe.models[int(spec["truth"]) % len(probe.models)]
    kind = str(rng.choice(["fit", "fit", "far", "band"]))
    obs = _gen_obs(rng, spec, probe, truth, kind)
    tau = None
    if mode == "tau":
        try:
            probe.update(_mk_obs(obs))
            ws = np.sort(_f(probe.model_weights).reshape(-1))
            j = int(rng.integers(1, len(ws)))
            tau = float(0.5 * (ws[j - 1] + ws[j])) if ws[j] > ws[j - 1] else float(ws[j])
        except Exception:  # noqa: BLE001
            tau = None
    spec["steps"] = [{"kind": kind, "obs": obs, "prune": tau}]
    return run_history(ctx, spec, None)


def replay(ctx, w):
    np.seterr(all="ignore")
    import logging
    import warnings

    warnings.filterwarnings("ignore")
    from .. import scenario_kit as sk

    sk.init()
    logging.getLogger("resonaate").setLevel(logging.CRITICAL + 10)
    if w.get("kind") == "scenario":
        run_scenario(ctx, w)
        return
    if w.get("kind") == "initialize":
        run_initialize(ctx, w)
        return
    run_history(ctx, dict(w), None)
