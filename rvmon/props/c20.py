"""C20 - Lambert solutions and orbit determination reproduce the arc they were given.

Three parts, all on the repository's real functions, with refs/keplerref.py (closed-form two-body
propagation) as the oracle:

1. ``lambertUniversal`` / ``lambertBattin`` on generated Keplerian arcs (told the true sense):
   monitors
     lambert_closure    propagate(r1, v1_returned, tof) == (r2, v2_returned)
     lambert_velocity   (v1_returned, v2_returned) == the velocities of the arc that was given
     lambert_sense      the returned orbit turns the same way as the given arc (h_ret . h_true > 0)
2. ``radarObs2eciPosition`` on real ``Observation`` objects made by ``Observation.fromMeasurement`` with
   the real ``Measurement`` (``noisy=False``):
     radar_inversion    returned position == the target position the measurement was computed from
3. ``LambertIOD.determineNewEstimateState`` against a real sqlite database holding the earlier observation:
     iod_converged      two noise-free radar observations 1 %..39.9 % of a period apart are accepted
     iod_position       state_vector[:3] == true position at the second observation
     iod_velocity       state_vector[3:] == true velocity at the second observation

Classifier (mechanism keys, from observed facts only): a refusal whose message is the single-pass test's gets
``iod-single-pass-rejects-spacing-ge-0.354P`` when the spacing is at least (1/2)^1.5 of the circular period at the
observed radius (= the period of an orbit with semi-major axis r/2, what ``checkSinglePass`` computes from a
position-only vector) and ``iod-single-pass-rejected`` otherwise; a stored observation that the query does not
return gets ``iod-stored-observation-not-found``; solver keys carry the solver name and what failed
(``-raises``, ``-nonfinite``, ``-wrong-way``, ``-velocity``, ``-closure``).

Tolerances (DESIGN 3.7) follow the conditioning: the state-transition matrix of the *true* arc is obtained
from keplerref by central differences and multiplies the calibrated per-solver velocity budget / the Julian-date
time resolution.  Every check also files ``log10(error / tolerance)`` into ``coverage.margin.*`` decades.
"""

from __future__ import annotations

import math
import os
from datetime import datetime, timedelta

import numpy as np

from ..refs import geomref as g
from ..refs import keplerref as K
from ..refs import timeref

LEVEL = "exploration"
RULE = ("lambert cases = Keplerian arcs (a 6600..105000 km, e in {0, 1e-12..1e-3, U(0,.05), U(0,.7), .7}, i incl. 0/90/180 deg, "
        "start at peri/apoapsis or anywhere) given as (r1, r2, tof, true sense): transfer angle in (5,175)U(185,355) deg drawn "
        "uniformly or within 1e-6..1 deg of 5/175/185/355 or 90/270, tof in [2%, 98%] of the period incl. 2%+ and 98%-; each arc "
        "is fed to both solvers; radar cases = (site or orbiting sensor, target, epoch): sites incl. poles/equator/antimeridian, "
        "targets LEO..GEO incl. geodetic zenith, due-north (azimuth 0/2pi seam) and below-horizon geometry, epochs 2014..2022 with "
        "non-zero seconds (some with microseconds, some at 23:59:59 and on leap-second days); IOD cases = (epoch, near-circular orbit "
        "e<=0.02 LEO..GEO, spacing 1%..39.9% of the period in whole seconds incl. both ends and both sides of 35.4%, two sites that "
        "see the target or random sites, solver, distractor rows in the database: other target / optical / older radar observations). "
        "non-trivial = distinct case inside the quantified domain on which at least one solver / the inversion / the IOD was "
        "executed and compared (all generated cases are; rejected draws are not counted)")
ASSUME = ["refs/keplerref.py (eccentric-anomaly-difference f and g propagation) is the two-body reference; mu is the repository's Earth.mu",
          "sensor ECI states are inputs: ground sites are placed with refs/geomref.ellipsoid_point and rotated to ECI by the repository's "
          "ecef2eci (C04 covers that conversion); the oracle (true target position) does not depend on it",
          "Lambert velocity budget: universal 2e-8*|v| (bisection stops at |dt| < 1.48e-8 s; worst seen 1.4e-10*|v| on 1e6 arcs), Battin "
          "1e-5*|v| (fixed-point tolerance 1.48e-8 on x and 21-term continued fractions; worst seen 6.1e-8*|v| on 1.1e6 arcs, at e=0.7, "
          "transfer 185 deg, tof 0.91 P); closure "
          "tolerance = |d(r2,v2)/d v1| (from keplerref) * budget",
          "radar inversion tolerance = range * (2e-12 + min(3e-14/cos(el), 2e-6)): arcsin in the measurement model loses sqrt(eps) at the "
          "zenith (worst seen 1.5e-14 relative away from, 8e-9 at the zenith)",
          "IOD transit time is formed from float64 Julian dates (resolution 4.0e-5 s): velocity tolerance = |dv2/dtof| * 4e-3 s + solver "
          "budget + |dv2/dr| * inversion tolerance; observation epochs are whole seconds (julianDateToDatetime rounds to whole seconds)",
          "IOD lower query bound (detection time) is kept >= 1 s before the stored observation (equality would be decided by one ulp of a Julian date)"]
SHARDS = {"quick": 4, "thorough": 16}
BUDGET_S = {"quick": 60, "thorough": 560}
DECIDING = ["lambert_closure", "lambert_velocity", "lambert_other_mu", "lambert_sense", "radar_inversion", "iod_converged", "iod_position", "iod_velocity"]
MANIFEST = {
    "technique": "runtime monitoring: direct drive of lambertUniversal/lambertBattin, radarObs2eciPosition on real Observation objects and "
                 "LambertIOD.determineNewEstimateState on a real sqlite database, compared with closed-form two-body propagation (refs/keplerref)",
    "level_text": "held on every generated arc / observation / observation pair: returned end-point velocities reproduce the given arc under "
                  "independent propagation and equal its velocities; radar observations invert to the observed position; IOD returns the orbit's state",
    "level_note": "tolerances follow the arc's state-transition matrix (from the reference) times calibrated solver budgets; IOD velocity is "
                  "limited by the 40 us resolution of float Julian dates; neighbourhoods of 0/180/360 deg transfer angle are outside the property",
}

SOLVERS = ("universal", "battin")
REL_BUDGET = {"universal": 2e-8, "battin": 1e-5}
DT_BUDGET_S = 4e-3           # 100 x resolution of a float64 Julian date near 2.46e6 (4.0e-5 s)
SINGLE_PASS_FACTOR = 0.5 ** 1.5   # period of an orbit with sma = r/2, relative to the circular period at r
D0 = datetime(2014, 1, 3)
D1 = datetime(2022, 9, 29)
LEAP_DAYS = [datetime(2015, 6, 30), datetime(2016, 12, 31), datetime(2015, 7, 1), datetime(2017, 1, 1)]
LABELS4 = ["azimuth_rad", "elevation_rad", "range_km", "range_rate_km_p_sec"]


# ---------------------------------------------------------------------------------------------
# helpers
# ---------------------------------------------------------------------------------------------
def _margin(ctx, mon, err, tol):
    """File log10(err/tol) into decades (calibration evidence, merged by summation)."""
    if not (tol > 0) or not math.isfinite(err):
        ctx.count(f"margin.{mon}.nan")
        return
    k = -99 if err <= 0 else max(-9, math.ceil(math.log10(err / tol)))
    ctx.count(f"margin.{mon}." + ("exact" if k == -99 else f"le1e{k:+d}"))


def _M_from_nu(nu, e):
    E = 2.0 * math.atan2(math.sqrt(1.0 - e) * math.sin(nu / 2.0), math.sqrt(1.0 + e) * math.cos(nu / 2.0))
    return E - e * math.sin(E)


def _stm(x1, tof, cols=range(6)):
    """d propagate(x1, tof) / d x1 (selected columns) by central differences on the reference."""
    r = float(np.linalg.norm(x1[:3]))
    J = np.zeros((6, 6))
    for k in cols:
        h = 1e-7 * r if k < 3 else 1e-6
        d = np.zeros(6)
        d[k] = h
        J[:, k] = (K.propagate(x1 + d, tof) - K.propagate(x1 - d, tof)) / (2.0 * h)
    return J


def _solver(name):
    from resonaate.physics.orbit_determination import lambert

    return {"universal": lambert.lambertUniversal, "battin": lambert.lambertBattin}[name]


def _transfer_angle(x1, x2):
    h = np.cross(x1[:3], x1[3:])
    c = np.cross(x1[:3], x2[:3])
    return math.atan2(float(np.dot(h, c)) / float(np.linalg.norm(h)), float(np.dot(x1[:3], x2[:3]))) % (2.0 * math.pi)


def _in_domain(dnu_deg, frac):
    return (5.0 < dnu_deg < 175.0 or 185.0 < dnu_deg < 355.0) and 0.02 <= frac <= 0.98


# ---------------------------------------------------------------------------------------------
# part 1: Lambert solvers
# ---------------------------------------------------------------------------------------------
def gen_arc(rng):
    """One arc inside the quantified domain: dict of elements + tof (seconds)."""
    while True:
        a = 6600.0 * 10 ** rng.uniform(0, 1.2)
        e = rng.choice([0.0, rng.uniform(0, 0.7), rng.uniform(0, 0.05), 0.7, 10 ** rng.uniform(-12, -3), 0.7 - 10 ** rng.uniform(-9, -2)])
        inc = rng.choice([math.acos(rng.uniform(-1, 1))] * 3 + [0.0, math.pi, math.pi / 2, 1e-9, math.pi - 1e-9])
        raan, argp = rng.uniform(0, 2 * math.pi), rng.uniform(0, 2 * math.pi)
        nu1 = rng.choice([rng.uniform(0, 2 * math.pi)] * 3 + [0.0, math.pi])
        P = 2.0 * math.pi * math.sqrt(a ** 3 / K.MU)
        mode = rng.random()
        if mode < 0.75:   # transfer angle first
            if rng.random() < 0.3:
                d = rng.choice([5 + 10 ** rng.uniform(-6, 0), 175 - 10 ** rng.uniform(-6, 0), 185 + 10 ** rng.uniform(-6, 0),
                                355 - 10 ** rng.uniform(-6, 0), 90.0, 270.0])
            else:
                d = rng.uniform(5, 175) if rng.random() < 0.5 else rng.uniform(185, 355)
            dn = math.radians(d)
            frac = ((_M_from_nu(nu1 + dn, e) - _M_from_nu(nu1, e)) % (2 * math.pi)) / (2 * math.pi)
            how = "angle"
        else:             # time of flight first, at the ends of the allowed interval
            frac = rng.choice([0.02 + 10 ** rng.uniform(-9, -2), 0.98 - 10 ** rng.uniform(-9, -2), 0.02, 0.98, 0.5, rng.uniform(0.02, 0.98)])
            how = "tof"
        tof = frac * P
        arc = {"a": a, "e": e, "inc": inc, "raan": raan, "argp": argp, "nu1": nu1, "tof": tof, "how": how}
        x1, x2, dnu = arc_states(arc)
        if _in_domain(math.degrees(dnu), tof / K.period(x1)):   # the very test chk_lambert repeats
            return arc


def arc_states(arc):
    x1 = K.state_from_coe(arc["a"], arc["e"], arc["inc"], arc["raan"], arc["argp"], arc["nu1"])
    x2 = K.propagate(x1, arc["tof"])
    return x1, x2, _transfer_angle(x1, x2)


def chk_lambert(ctx, arc, solvers=SOLVERS):
    x1, x2, dnu = arc_states(arc)
    P = K.period(x1)
    frac = arc["tof"] / P
    if not _in_domain(math.degrees(dnu), frac):
        return False
    tof = float(arc["tof"])
    sense = 1 if dnu < math.pi else -1
    J = _stm(x1, tof, cols=(3, 4, 5))
    s_r = float(np.linalg.norm(J[:3, 3:], 2))
    s_v = float(np.linalg.norm(J[3:, 3:], 2))
    sp1, sp2 = float(np.linalg.norm(x1[3:])), float(np.linalg.norm(x2[3:]))
    h_true = np.cross(x1[:3], x1[3:])
    desc = f"a={arc['a']:.1f} e={arc['e']:.3g} dnu={math.degrees(dnu):.6f}deg tof={frac:.6f}P sense={sense:+d}"
    for name in solvers:
        w = {"kind": "lambert", "solver": name, **arc}
        try:
            v1, v2 = _solver(name)(x1[:3].copy(), x2[:3].copy(), tof, sense)
            v1, v2 = np.asarray(v1, dtype=float).reshape(3), np.asarray(v2, dtype=float).reshape(3)
        except Exception as ex:  # noqa: BLE001
            ctx.check(False, f"lambert-{name}-raises", f"{name} raised {type(ex).__name__}: {ex} on {desc}", w, mon="lambert_closure")
            continue
        if not (np.all(np.isfinite(v1)) and np.all(np.isfinite(v2))):
            ctx.check(False, f"lambert-{name}-nonfinite", f"{name} returned v1={v1} v2={v2} on {desc}", w, mon="lambert_closure")
            continue
        B = REL_BUDGET[name]
        # the arc that was given
        e1, e2 = float(np.linalg.norm(v1 - x1[3:])), float(np.linalg.norm(v2 - x2[3:]))
        _margin(ctx, f"lambert_velocity.{name}", max(e1 / sp1, e2 / sp2), B)
        turned = float(np.dot(np.cross(x1[:3], v1), h_true)) > 0.0
        ctx.check(turned, f"lambert-{name}-wrong-way", f"{name} returned the arc that turns the other way round on {desc}", w, mon="lambert_sense")
        if turned:
            ctx.check(e1 <= B * sp1 and e2 <= B * sp2, f"lambert-{name}-velocity",
                      f"{name} velocities differ from the given arc's by {e1:.3e} / {e2:.3e} km/s (budget {B * sp1:.1e}) on {desc}", w, mon="lambert_velocity")
        else:
            ctx.mon("lambert_velocity")
        # the solver's optional gravitational parameter: with mu' = s*mu the same two positions are joined in tof/sqrt(s) by sqrt(s)*v
        if turned and int(arc["tof"] * 1e3) % 5 == 0:
            from resonaate.physics.bodies.earth import Earth

            sc = (0.5, 2.0, 1.001, 4902.800066 / 398600.4418)[int(arc["a"] * 10) % 4]
            try:
                u1, u2 = _solver(name)(x1[:3].copy(), x2[:3].copy(), tof / math.sqrt(sc), sense, mu=Earth.mu * sc)
                u1, u2 = np.asarray(u1, dtype=float).reshape(3) / math.sqrt(sc), np.asarray(u2, dtype=float).reshape(3) / math.sqrt(sc)
                d1, d2 = float(np.linalg.norm(u1 - v1)), float(np.linalg.norm(u2 - v2))
                ctx.check(d1 <= 2 * B * sp1 and d2 <= 2 * B * sp2, f"lambert-{name}-other-mu",
                          f"{name} with mu = {sc:.6g} x Earth and tof/sqrt(s): velocities / sqrt(s) differ from the Earth-mu solution by {d1:.3e} / {d2:.3e} km/s (budget {2 * B * sp1:.1e}) on {desc}",
                          {**w, "mu_scale": sc}, mon="lambert_other_mu")
            except Exception as ex:  # noqa: BLE001
                ctx.check(False, f"lambert-{name}-other-mu-raises", f"{name} with mu = {sc:.6g} x Earth raised {type(ex).__name__}: {ex} on {desc}", {**w, "mu_scale": sc}, mon="lambert_other_mu")
        # closure under independent propagation
        xr = np.concatenate([x1[:3], v1])
        if not (K.energy(xr) < 0.0):
            ctx.check(False, f"lambert-{name}-closure", f"{name} returned an unbound orbit for a bound arc on {desc}", w, mon="lambert_closure")
            continue
        xe = K.propagate(xr, tof)
        mr, mv = float(np.linalg.norm(xe[:3] - x2[:3])), float(np.linalg.norm(xe[3:] - v2))
        tol_r = 1.5 * s_r * B * sp1 + 1e-9 * float(np.linalg.norm(x2[:3]))
        tol_v = 1.5 * (s_v * sp1 + sp2) * B + 1e-12
        _margin(ctx, f"lambert_closure.{name}", max(mr / tol_r, mv / tol_v), 1.0)
        ctx.check(mr <= tol_r and mv <= tol_v, f"lambert-{name}-closure",
                  f"propagating (r1, v1 of {name}) for tof misses r2 by {mr:.3e} km (tol {tol_r:.1e}) and v2 by {mv:.3e} km/s (tol {tol_v:.1e}) on {desc}",
                  w, mon="lambert_closure")
    return True


# ---------------------------------------------------------------------------------------------
# part 2: radar observation -> inertial position
# ---------------------------------------------------------------------------------------------
def _epoch(rng, micro_ok=True):
    r = rng.random()
    t = D0 + timedelta(seconds=rng.randrange(int((D1 - D0).total_seconds())))
    if r < 0.08:
        t = rng.choice(LEAP_DAYS) + timedelta(seconds=rng.choice([86399, 86340 + rng.randrange(1, 60), rng.randrange(1, 86400)]))
    elif r < 0.16:
        t = t.replace(hour=23, minute=59, second=59)
    if t.second == 0 and rng.random() < 0.9:
        t += timedelta(seconds=rng.randrange(1, 60))
    if micro_ok and rng.random() < 0.1:
        t += timedelta(microseconds=rng.randrange(1, 1_000_000))
    return t


def _site_ecef(rng):
    lat = rng.choice([math.asin(rng.uniform(-1, 1))] * 4 + [math.pi / 2, -math.pi / 2, 0.0,
                                                            math.copysign(math.pi / 2 - 10 ** rng.uniform(-9, -2), rng.uniform(-1, 1))])
    lon = rng.choice([rng.uniform(-math.pi, math.pi)] * 4 + [math.pi, 0.0, math.copysign(math.pi - 10 ** rng.uniform(-12, -3), rng.uniform(-1, 1))])
    alt = rng.choice([0.0, rng.uniform(0, 5)])
    return lat, lon, alt, np.concatenate([g.ellipsoid_point(lat, lon, alt), [0.0, 0.0, 0.0]])


def _orbit_state(rng, amin=6600.0, span=0.83, emax=0.7):
    a = amin * 10 ** rng.uniform(0, span)
    e = rng.choice([0.0, rng.uniform(0, emax)])
    return K.state_from_coe(a, e, math.acos(rng.uniform(-1, 1)), rng.uniform(0, 2 * math.pi), rng.uniform(0, 2 * math.pi), rng.uniform(0, 2 * math.pi))


def gen_radar(rng):
    from resonaate.physics.transforms.methods import ecef2eci

    t = _epoch(rng)
    lat, lon, alt, site = _site_ecef(rng)
    sen = ecef2eci(site, t)
    geom = "any"
    r = rng.random()
    if r < 0.12:
        sen, geom = _orbit_state(rng, 6700.0, 0.8, 0.3), "space-sensor"
        tgt = _orbit_state(rng)
    elif r < 0.24:   # geodetic zenith of the site (elevation 90 deg, azimuth undefined)
        up = np.concatenate([g.ellipsoid_point(lat, lon, alt + 10 ** rng.uniform(2, 4.6)), [0.0, 0.0, 0.0]])
        tgt, geom = ecef2eci(up, t), "zenith"
        tgt[3:] += np.array([rng.gauss(0, 1) for _ in range(3)])
    elif r < 0.36:   # due north / south at low elevation, a hair east or west: azimuth 0/2pi and pi seams
        rho = 10 ** rng.uniform(2.5, 4.6)
        el = math.radians(rng.choice([rng.uniform(0.5, 30), 10 ** rng.uniform(-6, 0), -rng.uniform(0, 5)]))
        az = rng.choice([0.0, math.pi]) + rng.choice([0.0, 1e-15, -1e-15, 10 ** rng.uniform(-12, -3), -(10 ** rng.uniform(-12, -3))])
        sez = rho * np.array([-math.cos(el) * math.cos(az), math.cos(el) * math.sin(az), math.sin(el)])
        rel = g.sez_basis(lat, lon).T @ sez
        tgt, geom = ecef2eci(np.concatenate([site[:3] + rel, [0.0, 0.0, 0.0]]), t), "north-south-seam"
        tgt[3:] += np.array([rng.gauss(0, 1) for _ in range(3)])
    else:
        tgt = _orbit_state(rng)
    return {"kind": "radar", "t": t.isoformat(), "sensor_eci": [float(c) for c in sen], "target_eci": [float(c) for c in tgt],
            "with_range_rate": rng.random() < 0.5, "geometry": geom, "sensor_type": rng.choice(["adv_radar", "radar"])}


def _radar_tol(rho, el):
    c = abs(math.cos(el)) if math.isfinite(el) else 1.0
    return rho * (2e-12 + min(3e-14 / max(c, 1e-300), 2e-6))


def _make_obs(t, target_id, tgt, sensor_id, sen, sensor_type, with_rr=True, optical=False, epoch_jd=None):
    from resonaate.data.observation import Observation
    from resonaate.physics.measurements import Measurement

    if optical:
        labels, sensor_type = LABELS4[:2], "optical"
    else:
        labels = LABELS4 if with_rr else LABELS4[:3]
    meas = Measurement.fromMeasurementLabels(labels, np.eye(len(labels)) * 1e-12)
    return Observation.fromMeasurement(epoch_jd=timeref.jd_float(t) if epoch_jd is None else epoch_jd, target_id=target_id, tgt_eci_state=np.asarray(tgt, dtype=float),
                                       sensor_id=sensor_id, sensor_eci=np.asarray(sen, dtype=float), sensor_type=sensor_type,
                                       measurement=meas, noisy=False)


def chk_radar(ctx, w):
    from resonaate.physics.transforms.methods import radarObs2eciPosition

    t = datetime.fromisoformat(w["t"])
    sen, tgt = np.array(w["sensor_eci"], dtype=float), np.array(w["target_eci"], dtype=float)
    ob = _make_obs(t, 10001, tgt, 20001, sen, w.get("sensor_type", "adv_radar"), w["with_range_rate"])
    rho = float(np.linalg.norm(tgt[:3] - sen[:3]))
    desc = f"{w['geometry']} t={w['t']} range={rho:.3f} km az={ob.azimuth_rad!r} el={ob.elevation_rad!r}"
    try:
        p = np.asarray(radarObs2eciPosition(ob), dtype=float)
    except Exception as ex:  # noqa: BLE001
        ctx.check(False, "radar-inversion-raises", f"radarObs2eciPosition raised {type(ex).__name__}: {ex} on {desc}", w, mon="radar_inversion")
        return
    if p.shape != (3,) or not np.all(np.isfinite(p)):
        ctx.check(False, "radar-inversion-nonfinite", f"radarObs2eciPosition returned {p} on {desc}", w, mon="radar_inversion")
        return
    err = float(np.linalg.norm(p - tgt[:3]))
    tol = _radar_tol(rho, float(ob.elevation_rad))
    _margin(ctx, "radar_inversion", err, tol)
    ctx.check(err <= tol, "radar-inversion", f"radarObs2eciPosition is {err:.3e} km (tol {tol:.1e}) from the observed target position on {desc}",
              w, mon="radar_inversion")


# ---------------------------------------------------------------------------------------------
# part 3: LambertIOD against a real database
# ---------------------------------------------------------------------------------------------
def _site_seeing(rng, x, t, off_deg):
    """ECEF of a ground site whose geocentric direction is ``off_deg`` away from the sub-satellite point."""
    from resonaate.physics.transforms.methods import eci2ecef

    e = eci2ecef(np.asarray(x, dtype=float), t)[:3]
    u = e / np.linalg.norm(e)
    k = np.array([rng.gauss(0, 1) for _ in range(3)])
    k -= k.dot(u) * u
    k /= np.linalg.norm(k)
    ang = math.radians(off_deg)
    d = math.cos(ang) * u + math.sin(ang) * k
    return [float(c) for c in g.ellipsoid_point(math.asin(max(-1.0, min(1.0, d[2]))), math.atan2(d[1], d[0]), rng.choice([0.0, rng.uniform(0, 3)]))]


def gen_iod(rng):
    t0 = _epoch(rng, micro_ok=False)
    a = 6650.0 * 10 ** rng.uniform(0, 0.81)
    e = rng.choice([0.0, 10 ** rng.uniform(-7, -2), rng.uniform(0, 0.02)])
    orb = {"a": a, "e": e, "inc": rng.choice([math.acos(rng.uniform(-1, 1))] * 4 + [0.0, math.pi / 2, math.pi]),
           "raan": rng.uniform(0, 2 * math.pi), "argp": rng.uniform(0, 2 * math.pi), "nu": rng.uniform(0, 2 * math.pi)}
    P = 2.0 * math.pi * math.sqrt(a ** 3 / K.MU)
    r = rng.random()
    if r < 0.55:
        f = rng.uniform(0.01, 0.399)
    elif r < 0.70:
        f = rng.choice([0.01, 0.399])
    elif r < 0.85:   # both sides of (1/2)^1.5 = 35.36 % (period of an orbit with sma = r/2)
        f = SINGLE_PASS_FACTOR + rng.choice([-1, 1]) * 10 ** rng.uniform(-4, -1.5)
    else:
        f = rng.uniform(0.36, 0.399)
    tof = int(round(f * P))
    while tof > 0.399 * P:
        tof -= 1
    while tof < 0.01 * P:
        tof += 1
    lead = rng.choice([2, rng.randrange(2, 900)])
    det = rng.choice([0, lead - 1, rng.randrange(0, lead), lead])  # lead: the stored observation sits exactly on the window start
    x1 = K.state_from_coe(orb["a"], orb["e"], orb["inc"], orb["raan"], orb["argp"], orb["nu"])
    t1 = t0 + timedelta(seconds=lead)
    t2 = t1 + timedelta(seconds=tof)
    x2 = K.propagate(x1, tof)
    seen = rng.random() < 0.8
    o1, o2 = (rng.choice([0.0, rng.uniform(0, 8)]), rng.uniform(0, 8)) if seen else (rng.uniform(0, 180), rng.uniform(0, 180))
    w = {"kind": "iod", "t0": t0.isoformat(), "lead": lead, "det": det, "tof": tof, **orb,
         "site1_ecef": _site_seeing(rng, x1, t1, o1), "site2_ecef": _site_seeing(rng, x2, t2, o2),
         "solver": rng.choice(SOLVERS), "with_range_rate": rng.random() < 0.7, "sensor_type": rng.choice(["adv_radar", "radar"]),
         "distractors": rng.random() < 0.45, "min_spacing": rng.choice([60, 1, 3600])}
    return w


def _iod_velocity_tol(x1, x2, tof, tol_r1, tol_r2, solver):
    """How far the exact Lambert velocity at r2 can move when tof / r1 / r2 carry their stated errors."""
    J = _stm(x1, tof)
    Prr, Prv, Pvr, Pvv = J[:3, :3], J[:3, 3:], J[3:, :3], J[3:, 3:]
    if np.linalg.cond(Prv) > 1e9:
        return None
    G = Pvv @ np.linalg.inv(Prv)                      # dv2/dr2 at fixed r1, tof
    acc2 = -K.MU * x2[:3] / np.linalg.norm(x2[:3]) ** 3
    s_t = float(np.linalg.norm(acc2 - G @ x2[3:]))    # |dv2/dtof| at fixed r1, r2
    n2 = float(np.linalg.norm(G, 2))
    n1 = float(np.linalg.norm(Pvr - G @ Prr, 2))
    return s_t * DT_BUDGET_S + n2 * tol_r2 + n1 * tol_r1 + REL_BUDGET[solver] * float(np.linalg.norm(x2[3:])) + 1e-12


def chk_iod(ctx, w):
    from .. import scenario_kit as sk

    sk.init()
    from resonaate.data import AgentModel, Epoch, clearDBPath, getDBConnection, setDBPath
    from resonaate.estimation.initial_orbit_determination import LambertIOD
    from resonaate.physics.time.stardate import JulianDate, ScenarioTime
    from resonaate.physics.transforms.methods import ecef2eci

    t0 = datetime.fromisoformat(w["t0"])
    lead, det, tof = int(w["lead"]), int(w["det"]), int(w["tof"])
    t1 = t0 + timedelta(seconds=lead)
    t2 = t1 + timedelta(seconds=tof)
    x1 = K.state_from_coe(w["a"], w["e"], w["inc"], w["raan"], w["argp"], w["nu"])
    x2 = K.propagate(x1, tof)
    P = K.period(x1)
    frac = tof / P
    if not (0.01 <= frac <= 0.399 and w["e"] <= 0.02 and det <= lead):
        return False
    tid, sid1, sid2, other = 10001, 20001, 20002, 10002
    s1 = ecef2eci(np.array([*w["site1_ecef"], 0.0, 0.0, 0.0]), t1)
    s2 = ecef2eci(np.array([*w["site2_ecef"], 0.0, 0.0, 0.0]), t2)
    stype = w.get("sensor_type", "adv_radar")
    jd1 = None
    if det == lead:
        # as in the pipeline (the observation that flagged the manoeuvre): its epoch and the window start come from the same expression
        jd1 = float(ScenarioTime(lead).convertToJulianDate(JulianDate(timeref.jd_float(t0))))
        ctx.count("iod_cases_with_observation_on_window_start")
    ob1 = _make_obs(t1, tid, x1, sid1, s1, stype, w["with_range_rate"], epoch_jd=jd1)
    ob2 = _make_obs(t2, tid, x2, sid2, s2, stype, w["with_range_rate"])
    tol_r1 = _radar_tol(float(np.linalg.norm(x1[:3] - s1[:3])), float(ob1.elevation_rad))
    tol_r2 = _radar_tol(float(np.linalg.norm(x2[:3] - s2[:3])), float(ob2.elevation_rad))
    current = [ob2]
    rows = [(t1, ob1)]
    if w.get("distractors"):
        # same sensor, *another* target, later than ob1 -> must be excluded by target id
        xo = K.propagate(x1, 0.3 * P)
        tm = t1 + timedelta(seconds=max(1, tof // 2))
        if tm not in (t1, t2):
            rows.append((tm, _make_obs(tm, other, xo, sid1, ecef2eci(np.array([*w["site1_ecef"], 0.0, 0.0, 0.0]), tm), stype, True)))
        # optical observation of the target between the two radar observations -> excluded by sensor type
        tm2 = t1 + timedelta(seconds=max(1, (2 * tof) // 3))
        if tm2 not in (t1, t2, tm):
            xm = K.propagate(x1, (tm2 - t1).total_seconds())
            rows.append((tm2, _make_obs(tm2, tid, xm, sid2, ecef2eci(np.array([*w["site2_ecef"], 0.0, 0.0, 0.0]), tm2), stype, optical=True)))
        # older radar observation of the target before the detection time -> excluded by the lower bound;
        # and one inside the window but older than ob1 -> the latest one (ob1) has to be used
        for back in [(lead - det) + 40] + ([1] if lead - det >= 3 else []):
            tb = t1 - timedelta(seconds=back)
            xb = K.propagate(x1, (tb - t1).total_seconds())
            if tb not in [r[0] for r in rows]:
                rows.append((tb, _make_obs(tb, tid, xb, sid1, ecef2eci(np.array([*w["site1_ecef"], 0.0, 0.0, 0.0]), tb), stype, True)))
        # an optical observation of the target in the current time step, listed first
        current = [_make_obs(t2, tid, x2, sid1, s2, stype, optical=True), ob2]
    path = sk.new_db_path("c20")
    setDBPath("sqlite:///" + path)
    db = None
    try:
        db = getDBConnection()
        db.insertData(AgentModel(unique_id=tid, name="tgt"), AgentModel(unique_id=other, name="other"),
                      AgentModel(unique_id=sid1, name="s1"), AgentModel(unique_id=sid2, name="s2"))
        db.insertData(*[Epoch(julian_date=float(o.julian_date), timestampISO=t.isoformat(timespec="microseconds")) for t, o in rows])
        db.insertData(*[o for _, o in rows])
        iod = LambertIOD(int(w.get("min_spacing", 60)), _solver(w["solver"]), tid, JulianDate(timeref.jd_float(t0)))
        res, raised = None, None
        try:
            res = iod.determineNewEstimateState(current, ScenarioTime(det), ScenarioTime(lead + tof))
        except Exception as ex:  # noqa: BLE001
            raised = ex
    finally:
        try:
            if db is not None:
                db.engine.dispose()
        except Exception:  # noqa: BLE001
            pass
        clearDBPath()
        sk._drop_db_cache()  # noqa: SLF001
        try:
            os.remove(path)
        except OSError:
            pass
    r2 = float(np.linalg.norm(x2[:3]))
    p_circ_r2 = 2.0 * math.pi * math.sqrt(r2 ** 3 / K.MU)
    desc = (f"a={w['a']:.1f} km e={w['e']:.3g} spacing={tof}s = {frac:.5f} P (= {tof / p_circ_r2:.5f} of the circular period at r2) "
            f"solver={w['solver']} t0={w['t0']} distractors={bool(w.get('distractors'))}")
    if raised is not None:
        ctx.check(False, "iod-raises", f"determineNewEstimateState raised {type(raised).__name__}: {raised} on {desc}", w, mon="iod_converged")
        return True
    ok = bool(res.convergence) and res.state_vector is not None
    if not ok:
        msg = str(res.message)
        if "single pass" in msg:
            # classifier from observed facts: is the spacing at or beyond the period of an orbit with sma = r2/2 ?
            key = ("iod-single-pass-rejects-spacing-ge-0.354P" if tof >= SINGLE_PASS_FACTOR * p_circ_r2 * (1 - 1e-9)
                   else "iod-single-pass-rejected")
        elif "No observations in database" in msg or "Not enough observations" in msg:
            key = "iod-stored-observation-not-found"
        else:
            key = "iod-not-converged"
        ctx.check(False, key, f"IOD refused two noise-free radar observations {frac * 100:.2f}% of a period apart: '{msg}' on {desc}", w, mon="iod_converged")
        return True
    ctx.check(True, "iod-converged", "", w, mon="iod_converged")
    sv = np.asarray(res.state_vector, dtype=float).reshape(-1)
    if sv.shape != (6,) or not np.all(np.isfinite(sv)):
        ctx.check(False, "iod-state-malformed", f"IOD state vector {sv} on {desc}", w, mon="iod_position")
        return True
    er, ev = float(np.linalg.norm(sv[:3] - x2[:3])), float(np.linalg.norm(sv[3:] - x2[3:]))
    _margin(ctx, "iod_position", er, tol_r2)
    ctx.check(er <= tol_r2, "iod-position", f"IOD position is {er:.3e} km (tol {tol_r2:.1e}) from the true position on {desc}", w, mon="iod_position")
    tol_v = _iod_velocity_tol(x1, x2, float(tof), tol_r1, tol_r2, w["solver"])
    if tol_v is None:
        ctx.count("iod_velocity_ill_conditioned")
        return True
    _margin(ctx, "iod_velocity", ev, tol_v)
    ctx.check(ev <= tol_v, "iod-velocity", f"IOD velocity is {ev:.3e} km/s (tol {tol_v:.1e}) from the true velocity on {desc}", w, mon="iod_velocity")
    return True


# ---------------------------------------------------------------------------------------------
def chk_agent_iod(ctx, w):
    """The agent-level hand-over: a real Scenario in which a tracked satellite manoeuvres, the detector fires and the estimate
    agent calls the IOD pipeline over the observations the run itself stored.  Whenever that attempt converges, the state it
    hands to the filter must be the satellite's state at that epoch (radar noise of micro-radians / millimetres: 'noise-free')."""
    from datetime import datetime, timedelta

    from .. import netkit
    from .. import scenario_kit as sk
    from resonaate.agents.estimate_agent import EstimateAgent

    net = w["net"]
    start = datetime.fromisoformat(net["start"])
    cfg = netkit.net_cfg(net, maneuver_detection={"name": "standard_nis", "threshold": 0.01},
                         iod={"name": w["solver"], "minimum_observation_spacing": w["min_spacing"]})
    tid = net["targets"][0]["id"]
    cfg["events"].append({"scope": "agent_propagation", "scope_instance_id": tid, "start_time": sk.iso(start + timedelta(seconds=w["t_burn"])), "event_type": "impulse",
                          "thrust_vector": w["dv"], "thrust_frame": "ntw", "planned": False})
    log = []
    orig = EstimateAgent._attemptInitialOrbitDetermination  # noqa: SLF001

    def attempt(self, observations):
        ok, state = orig(self, observations)
        log.append((int(self.simulation_id), float(self.time), bool(ok), None if state is None else np.array(state, dtype=float), len(observations)))
        return ok, state

    EstimateAgent._attemptInitialOrbitDetermination = attempt  # noqa: SLF001
    orig_handle = EstimateAgent._handleIOD  # noqa: SLF001
    handed = []

    def handle(self, observations):
        n0 = len(log)
        orig_handle(self, observations)
        for rec in log[n0:]:
            if rec[2] and rec[3] is not None:   # converged in this call: the filter now carries that state and IOD is switched off
                handed.append((rec[0], rec[1], np.array_equal(np.asarray(self.nominal_filter.est_x, dtype=float), rec[3]), bool(self.iod_active)))

    EstimateAgent._handleIOD = handle  # noqa: SLF001
    b = None
    truth = {}
    err = None
    try:
        b = sk.build(cfg, base_seed=net["seed"])
        for k in range(1, net["nsteps"] + 1):
            b.app.stepForward()
            b.app.saveDatabaseOutput()
            truth[float(b.app.clock.time)] = {int(i): np.array(a.eci_state, dtype=float) for i, a in b.app.target_agents.items()}
    except Exception as e:  # noqa: BLE001
        err = f"{type(e).__name__}: {str(e)[:200]}"
    finally:
        EstimateAgent._attemptInitialOrbitDetermination = orig  # noqa: SLF001
        EstimateAgent._handleIOD = orig_handle  # noqa: SLF001
        if b is not None:
            sk.teardown(b)
    if err:
        if "LinAlgError" in err or "invalid numeric entries" in err:
            ctx.count("agent_iod_runs_skipped_filter_divergence")
            return False
        ctx.check(False, "agent-iod-run-raised", f"scenario with IOD enabled raised {err}", w, mon="agent_iod")
        return False
    ctx.count("agent_iod_attempts", len(log))
    done = False
    for aid, t, ok, state, nobs in log:
        if not ok or state is None or t not in truth or aid not in truth[t]:
            continue
        x = truth[t][aid]
        dr, dv = float(np.linalg.norm(state[:3] - x[:3])), float(np.linalg.norm(state[3:] - x[3:]))
        ctx.check(dr <= 0.05 and dv <= 2e-3, "agent-iod-state", f"the state handed over by a converged orbit determination at t={t:.0f}s is {dr:.3e} km / {dv:.3e} km/s from the satellite's "
                  f"state at that epoch (radar noise ~2e-3 km; step {net['step']} s, {nobs} observation(s) in the step)", w, mon="agent_iod")
        done = True
    for aid, t, same, still_active in handed:
        ctx.check(same and not still_active, "agent-iod-hand-over", f"after a converged orbit determination at t={t:.0f}s the filter of {aid} "
                  f"{'carries another state than the one determined' if not same else 'is still flagged as waiting for an orbit determination'}", w, mon="agent_iod")
    if done:
        ctx.count("agent_iod_converged_runs")
    return done


def gen_agent_iod(rng):
    from .. import netkit

    for _ in range(50):
        net = netkit.gen_network(rng, policies=("MunkresDecision",), max_sensors=2, max_targets=1)
        if net["sensors"]:
            break
    for sdesc in net["sensors"]:
        sdesc.update({"kind": "adv_radar", "fov": "wide", "slew": 180.0})
    net["targets"][0].update({"radius": rng.choice([7200.0, 7800.0, 9000.0]), "off": [rng.uniform(-2, 2), rng.uniform(-2, 2)]})
    net.update({"step": rng.choice([30, 60]), "nsteps": 9, "init_pos_std": 1e-3, "background": False, "maneuver_detection": None, "save_filter_steps": False,
                "reward": "SimpleSummationReward"})
    return {"kind": "agent_iod", "net": net, "solver": rng.choice(["lambert_universal", "lambert_battin"]), "min_spacing": rng.choice([20, 60]),
            "t_burn": net["step"] * rng.randrange(1, 3) + rng.choice([0, 1, net["step"] // 2]), "dv": [0.0, rng.choice([-1, 1]) * rng.uniform(0.02, 0.08), rng.uniform(-0.02, 0.02)]}


def run(ctx):
    from .. import scenario_kit as sk

    sk.init()   # ray stand-in first (part 3 needs the key-value store), then the repository is importable
    import warnings

    warnings.filterwarnings("ignore")
    np.seterr(all="ignore")
    share = {"lambert": 0.45, "radar": 0.25, "iod": 0.30}
    total = BUDGET_S[ctx.tier]
    t_end = {}
    acc = 0.0
    for k in ("lambert", "radar", "iod"):
        acc += share[k]
        t_end[k] = total * (1.0 - acc) + 5.0     # ctx.time_left() value at which the part has to stop

    rng = ctx.pyrng("c20-lambert")
    n = ctx.scale(24_000, 1_600_000)
    for i in range(n):
        if ctx.time_left() < t_end["lambert"]:
            break
        arc = gen_arc(rng)
        if not chk_lambert(ctx, arc):
            ctx.count("lambert_out_of_domain")
            continue
        ctx.case(("L", arc["a"], arc["e"], arc["nu1"], arc["tof"]))
        ctx.count("lambert_arcs")
        if i % 2500 == 0:
            x1, x2, dnu = arc_states(arc)
            ctx.sample({"part": "lambert", "a_km": round(arc["a"], 1), "e": arc["e"], "transfer_deg": round(math.degrees(dnu), 6),
                        "tof_over_period": round(arc["tof"] / K.period(x1), 6)})

    rng = ctx.pyrng("c20-radar")
    n = ctx.scale(6_000, 400_000)
    for i in range(n):
        if ctx.time_left() < t_end["radar"]:
            break
        w = gen_radar(rng)
        chk_radar(ctx, w)
        ctx.case(("R", w["t"], w["sensor_eci"][0], w["target_eci"][0]))
        ctx.count("radar_observations")
        ctx.count("radar_geometry." + w["geometry"])
        if i % 1500 == 0:
            ctx.sample({"part": "radar", "t": w["t"], "geometry": w["geometry"]})

    rng = ctx.pyrng("c20-agent-iod")
    for i in range(ctx.scale(5, 80)):
        if ctx.time_left() < t_end["radar"]:
            break
        w = gen_agent_iod(rng)
        if chk_agent_iod(ctx, w):
            ctx.case(("A", w["net"]["start"], w["t_burn"], w["solver"]))

    rng = ctx.pyrng("c20-iod")
    n = ctx.scale(800, 48_000)
    for i in range(n):
        if ctx.time_left() < t_end["iod"]:
            break
        w = gen_iod(rng)
        if not chk_iod(ctx, w):
            continue
        ctx.case(("I", w["t0"], w["a"], w["tof"], w["solver"]))
        ctx.count("iod_pairs")
        if i % 200 == 0:
            ctx.sample({"part": "iod", "t0": w["t0"], "a_km": round(w["a"], 1), "spacing_s": w["tof"],
                        "spacing_over_period": round(w["tof"] / (2 * math.pi * math.sqrt(w["a"] ** 3 / K.MU)), 5), "solver": w["solver"]})


def replay(ctx, w):
    from .. import scenario_kit as sk

    sk.init()
    import warnings

    warnings.filterwarnings("ignore")
    np.seterr(all="ignore")
    k = w.get("kind")
    if k == "lambert":
        arc = {f: w[f] for f in ("a", "e", "inc", "raan", "argp", "nu1", "tof", "how")}
        chk_lambert(ctx, arc, solvers=(w["solver"],))
    elif k == "radar":
        chk_radar(ctx, w)
    elif k == "iod":
        chk_iod(ctx, w)
    elif k == "agent_iod":
        chk_agent_iod(ctx, w)
