"""C16 - filter updates are invariant to angle representation and observation order.

Three workloads, all on the repository's real code:

  helpers   direct relation tests of residual / residuals / vecResiduals / angularMean / wrapAngle2Pi / wrapAngleNegPiPi /
            vecWrapAngleNeg / vecWrapAngle2Pi against exact rational arithmetic (refs/kfref.exact_residual) and the
            circular-mean definition, on grids containing exactly 0, +-pi, +-2pi, their floating-point neighbours and
            offsets of up to +-1000 turns.
  stub      the real UnscentedKalmanFilter.update() on stub measurements  theta = wrap_at(atan2(b.x+b0, a.x+a0) + phi, cut)
            mixed with linear components (rvmon/ukf_stubs.py).  Metamorphic variants of one and the same update:
              turns      2*pi*k added to every measured angle
              wrap       phi/cut/flag moved so that the target sits on the +-pi seam, on the 0/2pi seam, in the middle of
                         either interval, or under an arbitrary cut (measured value moved consistently)
              perm       every permutation (up to 4! = 24) of the stacked observations
            plus a seam-free reference update (refs/kfref.sigma_update: circular-mean definition + IEEE remainder).
  real      the repository's Measurement/Observation classes (azimuth, elevation, range, range rate) with real frame
            geometry, the target placed within 1e-9..1e-2 rad of azimuth 0/2pi so that the sigma points straddle the seam.

Monitors
  wrap_helpers, residual_helpers, mean_helper          helper identities
  innovation_range                                     angular innovations in (-pi, pi]
  turn_invariance, wrap_point_invariance, order_invariance   posterior unchanged (tolerance = first-order propagation of the
                                                        rounding of the shift through the update, times C_TOL)
  circular_reference                                   posterior == seam-free reference update
"""

from __future__ import annotations

import itertools
import math
from datetime import datetime, timedelta

import numpy as np

from .. import ukf_stubs as st
from ..refs import kfref as kf

LEVEL = "exploration"
RULE = ("helper cases: (function, angle pair / vector) from seam-biased grids with turn offsets up to +-1000; stub cases: random n=2..6 "
        "filter priors, 1..4 stacked observations of 1..4 mixed angular/linear components, alpha in {1, 1e-3, 10^U(-3,0), U(0.3,1)} "
        "(negative centre weight whenever alpha^2 (n+kappa) < n), both resample modes, angular spread 1e-6..0.3 rad; real cases: ground "
        "sensors observing a target within 1e-9..1e-2 rad of azimuth 0/2pi; non-trivial = distinct case in which at least one "
        "metamorphic comparison was decided (bound < 1e-3 of the update term) and, for seam variants, the sigma points actually "
        "straddled the seam")
ASSUME = ["exact rational arithmetic modulo the double 2*pi is the reference for wrapping/residual helpers",
          "the weighted circular mean atan2(sum w sin, sum w cos) is the documented definition of angularMean",
          "stub measurement objects replace only the environment of the filter; real-geometry cases use the repository's own "
          "frame conversions to *construct* inputs (the oracle is metamorphic / the seam-free reference, not those conversions)"]
SHARDS = {"quick": 4, "thorough": 16}
BUDGET_S = {"quick": 80, "thorough": 540}
DECIDING = ["wrap_helpers", "residual_helpers", "mean_helper", "innovation_range", "turn_invariance", "wrap_point_invariance",
            "order_invariance", "circular_reference"]
MANIFEST = {"technique": "runtime monitoring: metamorphic re-execution of the real UKF update (angle turns, wrap-point moves, observation "
                         "permutations) + exact-arithmetic relation tests of the angle helpers",
            "level_text": "held on every case explored (counts in evidence) except the listed helper findings",
            "level_note": "stub measurements replace the filter's environment only; seam-free reference in refs/kfref.py is trusted"}

EPS = kf.EPS
PI = math.pi
TWOPI = 2.0 * math.pi
C_TOL = 100.0
# per-comparison constants = ~100 x the worst (error / first-order bound) seen in calibration (7.2e4 stub cases, 1.3e6 comparisons;
# worst ratios: turns 0.46, wrap 0.12, perm 7.9 [LU inverse of a permuted, unequilibrated S], reference 0.05)
C_KIND = {"turns": 100.0, "wrap": 16.0, "perm": 1000.0, "reference": 100.0}
DECIDE_REL = 1e-3
ULP_2PI = float(np.spacing(TWOPI))

K_VECNEG = "vecwrapneg-pi-maps-to-minus-pi"
K_VEC2PI = "vecwrap2pi-not-reduced-outside-one-turn"


def _n2(a):
    a = np.atleast_2d(np.asarray(a, dtype=float))
    return float(np.linalg.norm(a, 2)) if a.size else 0.0


def _mx(a):
    a = np.asarray(a, dtype=float)
    return float(np.max(np.abs(a))) if a.size else 0.0


def _L(m):
    return [[float(v) for v in row] for row in np.atleast_2d(m)]


# =============================================================================================
# A. helpers
# =============================================================================================
def _seam_values(rng):
    nx = math.nextafter
    base = [0.0, -0.0, PI, -PI, TWOPI, -TWOPI, PI / 2, -PI / 2, 3 * PI / 2, -3 * PI / 2, nx(PI, 4.0), nx(PI, 0.0), nx(-PI, -4.0), nx(-PI, 0.0),
            nx(TWOPI, 7.0), nx(TWOPI, 0.0), nx(0.0, 1.0), nx(0.0, -1.0), 1e-300, -1e-300, 1e-20, -1e-20, 1e-17, -1e-17, 1e-9, -1e-9,
            PI - 1e-9, PI + 1e-9, -PI + 1e-9, -PI - 1e-9, TWOPI - 1e-9, TWOPI + 1e-9, 1.0, -1.0, 3.0, 6.0]
    return base


def _grid_angle(rng):
    r = rng.random()
    if r < 0.45:
        a = float(rng.choice(_seam_values(rng)))
    elif r < 0.8:
        a = float(rng.uniform(-TWOPI, TWOPI))
    else:
        a = float(rng.choice([0.0, PI, -PI, TWOPI])) + float(rng.choice([-1, 1])) * float(10 ** rng.uniform(-16, -1))
    r = rng.random()
    if r < 0.4:
        k = 0
    elif r < 0.7:
        k = int(rng.choice([-2, -1, 1, 2, 3, 7]))
    elif r < 0.85:
        k = int(rng.choice([-1000, 1000, 999, -999, 512, -512]))
    else:
        k = int(rng.integers(-1000, 1001))
    return a + k * TWOPI, k


def _in_band(exact: float, edge: float, nulp=8):
    return abs(exact - edge) <= nulp * ULP_2PI


def chk_wrap_helpers(ctx, rng):
    from resonaate.physics import maths as M

    a, k = _grid_angle(rng)
    w = {"kind": "wrap", "a": a}
    mag = abs(a) + TWOPI
    tol = 16 * ULP_2PI                       # fmod/remainder are exact; one +-2pi add (<= 1 ulp(2pi)) in each helper
    # --- scalar (-pi, pi] ---------------------------------------------------------------------
    ex = kf.exact_residual(a, 0.0)           # exact representative in (-pi, pi] w.r.t. the double 2*pi
    r = float(M.wrapAngleNegPiPi(a))
    ok = math.isfinite(r) and kf.circ_dist(r, ex) <= tol
    ctx.check(ok, "wrapnegpipi-not-congruent", f"wrapAngleNegPiPi({a!r}) = {r!r}, exact {ex!r}", w, mon="wrap_helpers")
    if not _in_band(ex, -PI) or ex == PI:
        ctx.check(-PI < r <= PI and abs(r - ex) <= tol, "wrapnegpipi-range", f"wrapAngleNegPiPi({a!r}) = {r!r} is outside (-pi, pi] / not the "
                  f"documented representative (exact {ex!r})", w, mon="wrap_helpers")
    # --- scalar [0, 2pi) ----------------------------------------------------------------------
    e2 = kf.exact_wrap_2pi(a)
    r2 = float(M.wrapAngle2Pi(a))
    ctx.check(math.isfinite(r2) and kf.circ_dist(r2, e2) <= tol, "wrap2pi-not-congruent", f"wrapAngle2Pi({a!r}) = {r2!r}, exact {e2!r}", w, mon="wrap_helpers")
    if r2 == TWOPI and _in_band(e2, TWOPI):
        ctx.count("wrap2pi_returned_2pi_inside_rounding_band")      # correctly rounded value of 2pi - tiny; not decided
    elif not _in_band(e2, TWOPI):
        ctx.check(0.0 <= r2 < TWOPI and abs(r2 - e2) <= tol, "wrap2pi-range", f"wrapAngle2Pi({a!r}) = {r2!r} outside [0, 2pi) (exact {e2!r})", w, mon="wrap_helpers")
    # --- vectorised versions -------------------------------------------------------------------
    vec = np.array([a, a])
    vn = np.asarray(M.vecWrapAngleNeg(vec), dtype=float)
    tol_v = tol + 4 * float(np.spacing(mag))                      # (a + pi) is rounded at the magnitude of a
    ctx.check(vn.shape == (2,) and kf.circ_dist(float(vn[0]), ex) <= tol_v, "vecwrapneg-not-congruent", f"vecWrapAngleNeg({a!r}) = {float(vn[0])!r}, exact {ex!r}",
              w, mon="wrap_helpers")
    exact_pi = (a + PI) - a == PI and math.fmod(a + PI, TWOPI) == 0.0 and ex == PI     # every operation exact, exact answer is +pi
    if exact_pi:
        ctx.check(float(vn[0]) == PI, K_VECNEG, f"vecWrapAngleNeg({a!r}) = {float(vn[0])!r}: the input is exactly an odd multiple of the double pi, "
                  f"the documented range is (-pi, pi] and the scalar wrapAngleNegPiPi returns {r!r}", w, mon="wrap_helpers")
    elif abs(abs(ex) - PI) > 4 * tol_v:
        ctx.check(-PI < float(vn[0]) <= PI and abs(float(vn[0]) - ex) <= tol_v, "vecwrapneg-range", f"vecWrapAngleNeg({a!r}) = {float(vn[0])!r} (exact {ex!r})", w, mon="wrap_helpers")
    v2 = np.asarray(M.vecWrapAngle2Pi(vec), dtype=float)
    r2v = float(v2[0])
    ctx.check(kf.circ_dist(r2v, e2) <= tol_v, "vecwrap2pi-not-congruent", f"vecWrapAngle2Pi({a!r}) = {r2v!r}, exact {e2!r}", w, mon="wrap_helpers")
    if -TWOPI <= a < TWOPI:
        if not _in_band(e2, TWOPI) and not (r2v == TWOPI and _in_band(e2, 0.0)):
            ctx.check(0.0 <= r2v < TWOPI, "vecwrap2pi-range", f"vecWrapAngle2Pi({a!r}) = {r2v!r} outside [0, 2pi)", w, mon="wrap_helpers")
    elif not _in_band(e2, TWOPI) or a == TWOPI:
        # documented: "Force angle into range of [0, 2pi)" - nothing restricts the input to one turn
        ctx.check(0.0 <= r2v < TWOPI, K_VEC2PI, f"vecWrapAngle2Pi({a!r}) = {r2v!r} is outside the documented range [0, 2pi) "
                  f"(exact reduction {e2!r}); inputs >= 2pi are returned unchanged and inputs < -2pi get a single +2pi", w, mon="wrap_helpers")


def chk_residual_helpers(ctx, rng):
    from resonaate.physics import maths as M

    a, ka = _grid_angle(rng)
    if rng.random() < 0.5:
        b, kb = _grid_angle(rng)
    else:                                    # difference exactly / nearly on the seam
        d = float(rng.choice([PI, -PI, 0.0, TWOPI, PI - 1e-12, PI + 1e-12, -PI + 1e-12, 1e-15, -1e-15, math.nextafter(PI, 0), math.nextafter(PI, 4)]))
        kb = int(rng.choice([0, 0, 1, -1, 1000, -1000]))
        b = a - d + kb * TWOPI
    w = {"kind": "residual", "a": a, "b": b}
    ex = kf.exact_residual(a, b)
    r = float(M.residual(a, b, True))
    # wrap2pi(a), wrap2pi(b): <= 1 ulp(2pi) each; their difference and the final +-2pi: 2 more
    tol = 16 * ULP_2PI
    ctx.check(math.isfinite(r) and kf.circ_dist(r, ex) <= tol, "residual-not-congruent", f"residual({a!r}, {b!r}) = {r!r}, exact {ex!r}", w, mon="residual_helpers")
    ctx.check(-PI < r <= PI, "residual-out-of-range", f"residual({a!r}, {b!r}) = {r!r} not in (-pi, pi]", w, mon="residual_helpers")
    if not _in_band(abs(ex), PI, 64):
        ctx.check(abs(r - ex) <= tol, "residual-wrong-representative", f"residual({a!r}, {b!r}) = {r!r}, exact {ex!r}", w, mon="residual_helpers")
        rb = float(M.residual(b, a, True))
        ctx.check(abs(rb + r) <= 2 * tol, "residual-not-antisymmetric", f"residual(a,b)={r!r}, residual(b,a)={rb!r}", w, mon="residual_helpers")
    rl = M.residual(a, b, False)
    ctx.check(float(rl) == a - b, "residual-linear", f"residual({a!r}, {b!r}, False) = {float(rl)!r}", w, mon="residual_helpers")
    # full-turn metamorphic relation (tolerance = rounding of the shifted arguments)
    k1, k2 = int(rng.integers(-1000, 1001)), int(rng.integers(-1000, 1001))
    a2, b2 = a + k1 * TWOPI, b + k2 * TWOPI
    r2 = float(M.residual(a2, b2, True))
    tol_s = tol + 2 * (float(np.spacing(abs(a2) + TWOPI)) + float(np.spacing(abs(b2) + TWOPI)) + float(np.spacing(abs(a) + TWOPI)) + float(np.spacing(abs(b) + TWOPI)))
    ctx.check(kf.circ_dist(r2, r) <= tol_s and -PI < r2 <= PI, "residual-turn-shift", f"residual({a2!r}, {b2!r}) = {r2!r} but residual({a!r}, {b!r}) = {r!r}",
              {**w, "k1": k1, "k2": k2}, mon="residual_helpers")
    # vector forms
    c, _ = _grid_angle(rng)
    dd, _ = _grid_angle(rng)
    v1, vb = np.array([a, c, a, 1.5]), np.array([b, dd, b, -2.5])
    ang = np.array([True, True, False, False])
    rs = np.asarray(M.residuals(v1, vb, ang), dtype=float)
    exp = np.array([float(M.residual(x, y, g)) for x, y, g in zip(v1, vb, ang)])
    ctx.check(rs.shape == (4,) and np.array_equal(rs, exp), "residuals-ne-elementwise", f"residuals() {rs.tolist()} != elementwise residual() {exp.tolist()}", w, mon="residual_helpers")
    vr = np.asarray(M.vecResiduals(v1, vb, ang), dtype=float)
    tol_v = tol + 4 * float(np.spacing(abs(a) + abs(b) + TWOPI))
    ok_lin = vr[2] == a - b and vr[3] == 4.0
    ctx.check(bool(ok_lin), "vecresiduals-linear", f"vecResiduals non-angular entries {vr[2:].tolist()}", w, mon="residual_helpers")
    ctx.check(kf.circ_dist(float(vr[0]), ex) <= tol_v, "vecresiduals-not-congruent", f"vecResiduals({a!r}, {b!r}) = {float(vr[0])!r}, exact {ex!r}", w, mon="residual_helpers")
    if -TWOPI <= a < TWOPI and -TWOPI <= b < TWOPI:
        wa = a + TWOPI if a < 0 else a
        wb = b + TWOPI if b < 0 else b
        d0 = wa - wb
        exact_pi = ex == PI and (d0 + PI) - d0 == PI and math.fmod(d0 + PI, TWOPI) == 0.0
    else:
        exact_pi = False
    if exact_pi:
        ctx.check(float(vr[0]) == PI, K_VECNEG, f"vecResiduals({a!r}, {b!r}) = {float(vr[0])!r}: the difference is exactly pi, documented range (-pi, pi], "
                  f"scalar residual() returns {r!r}", w, mon="residual_helpers")
    elif abs(abs(ex) - PI) > 4 * tol_v:
        ctx.check(abs(float(vr[0]) - ex) <= tol_v, "vecresiduals-wrong-representative", f"vecResiduals({a!r}, {b!r}) = {float(vr[0])!r}, exact {ex!r}", w, mon="residual_helpers")


def chk_mean_helper(ctx, rng):
    from resonaate.physics import maths as M

    n = int(rng.integers(1, 9))
    s_ = 2 * n + 1
    kind = rng.random()
    if kind < 0.6:
        alpha = float(rng.choice([1.0, 1e-3, 10 ** rng.uniform(-3, 0)]))
        wts, _, g = kf.ut_weights(n, alpha, 2.0, [None, 0.0, 1.0][int(rng.integers(3))])
    elif kind < 0.8:
        wts, g = rng.uniform(0.1, 1.0, s_), 1.0
    else:
        wts, g = None, 1.0
    centre, _k = _grid_angle(rng)
    spread = float(10 ** rng.uniform(-8, -0.5))
    dev = np.zeros(s_)
    col = rng.standard_normal(n) * spread
    dev[1:n + 1], dev[n + 1:] = g * col, -g * col
    if kind >= 0.6:
        dev = rng.standard_normal(s_) * spread
    low, high = [(0.0, TWOPI), (-PI, PI)][int(rng.integers(2))]
    raw = centre + dev
    rep = rng.integers(0, 3)
    if rep == 0:
        ang = np.array([st.wrap_at(v, low) for v in raw])            # the representation the filter sees
    elif rep == 1:
        ang = raw
    else:
        ang = raw + TWOPI * rng.integers(-3, 4, s_)
    w = {"kind": "mean", "angles": [float(v) for v in ang], "weights": None if wts is None else [float(v) for v in wts], "low": low, "high": high}
    _mean_relations(ctx, M, ang, wts, low, high, w, rng)


def _mean_relations(ctx, M, ang, wts, low, high, w, rng):
    wv = np.ones(len(ang)) if wts is None else np.asarray(wts, dtype=float)
    ref, rrel = kf.circular_mean(ang, wv)
    a_mag = float(np.max(np.abs(ang))) + TWOPI
    unit = (len(ang) + 4) * EPS * a_mag / max(rrel, 1e-300)      # rounding of each angle's sin/cos argument, amplified by cancellation
    tol = C_TOL * unit + 16 * ULP_2PI
    m = float(M.angularMean(np.asarray(ang, dtype=float), weights=None if wts is None else np.asarray(wts, dtype=float), high=high, low=low))
    if tol > 1e-6:
        ctx.count("undecided_mean_cases")
        return
    d = kf.circ_dist(m, ref)
    _track(ctx, "mean_def", d, unit)
    ctx.check(math.isfinite(m) and d <= tol, "angularmean-ne-definition", f"angularMean = {m!r}, atan2(sum w sin, sum w cos) = {ref!r} (resultant {rrel:.3e})", w, mon="mean_helper")
    ctx.check(low - 16 * ULP_2PI <= m <= high + 16 * ULP_2PI, "angularmean-out-of-range", f"angularMean = {m!r} outside [{low}, {high}]", w, mon="mean_helper")
    # shift equivariance / full-turn invariance / permutation invariance
    c = float(rng.choice([TWOPI, -TWOPI, PI, 1000 * TWOPI, rng.uniform(-10, 10)]))
    sh = np.asarray(ang, dtype=float) + c
    m2 = float(M.angularMean(sh, weights=None if wts is None else np.asarray(wts, dtype=float), high=high, low=low))
    unit2 = (len(ang) + 4) * EPS * (a_mag + abs(c)) / max(rrel, 1e-300)
    tol2 = 2 * C_TOL * unit2 + 32 * ULP_2PI + 4 * float(np.spacing(abs(c) + a_mag))
    _track(ctx, "mean_shift", kf.circ_dist(m2, m + c), 2 * unit2)
    ctx.check(kf.circ_dist(m2, m + c) <= tol2, "angularmean-not-shift-equivariant", f"angularMean(angles + {c!r}) = {m2!r}, angularMean(angles) + c = {m + c!r}",
              {**w, "shift": c}, mon="mean_helper")
    ks = rng.integers(-1000, 1001, len(ang))
    tw = np.asarray(ang, dtype=float) + TWOPI * ks
    m3 = float(M.angularMean(tw, weights=None if wts is None else np.asarray(wts, dtype=float), high=high, low=low))
    unit3 = (len(ang) + 4) * EPS * (a_mag + 1001 * TWOPI) / max(rrel, 1e-300)
    _track(ctx, "mean_turns", kf.circ_dist(m3, m), 2 * unit3)
    ctx.check(kf.circ_dist(m3, m) <= 2 * C_TOL * unit3 + 32 * ULP_2PI, "angularmean-not-turn-invariant", f"adding full turns to single angles changed the mean from {m!r} to {m3!r}",
              {**w, "turns": [int(v) for v in ks]}, mon="mean_helper")
    if wts is None or len(set(np.round(wv, 15))) == 1:
        perm = rng.permutation(len(ang))
        m4 = float(M.angularMean(np.asarray(ang, dtype=float)[perm], weights=None if wts is None else np.asarray(wts, dtype=float)[perm], high=high, low=low))
        ctx.check(kf.circ_dist(m4, m) <= 2 * tol, "angularmean-order-dependent", f"permuting the angles changed the mean from {m!r} to {m4!r}", w, mon="mean_helper")


# =============================================================================================
# B/C. metamorphic filter updates
# =============================================================================================
class _Snap:
    __slots__ = ("x", "p", "k", "s", "c", "nu", "ang", "ybar", "yres", "xres", "sp", "pred_x", "pred_p")


def _update(f, pres, obs, ctx=None, w=None, what="update"):
    """Restore the predicted state from the repository's own result object and run the real update.

    An exception on admissible input is a violation whose mechanism is the exception type (returns None)."""
    try:
        f.applyFilterResult(pres)
        f.update(obs)
    except Exception as e:  # noqa: BLE001
        if ctx is None:
            raise
        ctx.check(False, f"filter-raised-{type(e).__name__}", f"{what}: update raised {type(e).__name__}: {e}"[:300], w, mon="filter_no_exception")
        return None
    s = _Snap()
    s.x, s.p = np.array(f.est_x, dtype=float), np.array(f.est_p, dtype=float)
    s.k, s.s, s.c = np.array(f.kalman_gain, dtype=float), np.array(f.innov_cvr, dtype=float), np.array(f.cross_cvr, dtype=float)
    s.nu, s.ang, s.ybar = np.array(f.innovation, dtype=float), np.array(f.is_angular, dtype=bool), np.array(f.mean_pred_y, dtype=float)
    s.yres, s.xres, s.sp = np.array(f.sigma_y_res, dtype=float), np.array(f.sigma_x_res, dtype=float), np.array(f.sigma_points, dtype=float)
    s.pred_x, s.pred_p = np.array(f.pred_x, dtype=float), np.array(f.pred_p, dtype=float)
    return s


def _scales(b):
    """Diagonal equilibration of state and measurement space (mixed units: rad vs km, km vs km/s)."""
    dx = 1.0 / np.sqrt(np.clip(np.diag(b.pred_p), 1e-300, None))
    dy = 1.0 / np.sqrt(np.clip(np.diag(b.s), 1e-300, None))
    return dx, dy


def _bounds(b, wm, wc, d_sig, d_meas, e_rows=None, kind="reference"):
    """First-order effect on the posterior of perturbing every angular sigma measurement by d_sig (rad) and every measured angle
    by d_meas (rad).  Everything is evaluated in equilibrated coordinates (state / sqrt(diag pred_p), measurement / sqrt(diag S))
    so that mixed units do not masquerade as ill-conditioning; the returned bounds are for the equilibrated differences."""
    n, m = b.x.shape[0], b.nu.shape[0]
    if not (np.all(np.isfinite(b.s)) and np.all(np.isfinite(b.k)) and np.all(np.diag(b.s) > 0) and np.all(np.diag(b.pred_p) > 0)):
        return None
    dx, dy = _scales(b)
    s_ = kf.sym(b.s) * np.outer(dy, dy)
    k_ = b.k * np.outer(dx, 1.0 / dy)
    c_ = b.c * np.outer(dx, dy)
    nu_ = b.nu * dy
    yres = b.yres * dy[:, None]
    xres = b.xres * dx[:, None]
    ev = np.linalg.eigvalsh(s_)
    if not np.all(np.isfinite(ev)) or ev[0] <= 0:
        return None
    sinv, ns = 1.0 / float(ev[0]), float(ev[-1])
    w1 = float(np.sum(np.abs(wm)))
    rmin = 1.0
    for i in np.where(b.ang)[0]:
        rmin = min(rmin, math.hypot(float(np.dot(wm, np.cos(b.yres[i]))), float(np.dot(wm, np.sin(b.yres[i])))))
    if rmin <= 1e-3:
        return None
    angf = b.ang.astype(float)
    e_y = w1 * d_sig / rmin * np.ones(m) if e_rows is None else np.asarray(e_rows, dtype=float)   # error of the predicted mean, per row
    d_res = float(np.linalg.norm(angf * dy * (d_sig + e_y)))          # perturbation of one measurement residual column
    awc = np.abs(wc)
    ny = np.linalg.norm(yres, axis=0)
    nxr = np.linalg.norm(xres, axis=0)
    s_noise = (2 * n + 4) * EPS * float(np.dot(awc, ny * ny))
    c_noise = (2 * n + 4) * EPS * float(np.dot(awc, nxr * ny))
    d_s = 2 * float(np.dot(awc, ny)) * d_res + s_noise
    d_c = float(np.dot(awc, nxr)) * d_res + c_noise
    nk, nc = _n2(k_), _n2(c_)
    alg_k = 4 * (m + 2) * EPS * ns * sinv * nc * sinv
    d_k = (d_c + nk * d_s) * sinv + alg_k
    nnu = float(np.linalg.norm(nu_))
    d_nu_vec = angf * dy * (e_y + d_sig + d_meas) + dy * EPS * (np.abs(b.ybar) + np.abs(b.nu)) * 4
    d_nu = float(np.linalg.norm(d_nu_vec))
    d_x = d_k * nnu + nk * d_nu + 4 * (m + 2) * EPS * (float(np.linalg.norm(dx * b.pred_x)) + nk * nnu)
    d_p = 2 * d_k * ns * nk + nk * nk * d_s + 4 * (m + n + 2) * EPS * (_n2(b.pred_p * np.outer(dx, dx)) + nk * nk * ns)
    upd_p = _n2(k_ @ s_ @ k_.T)
    upd_x = max(float(np.linalg.norm(k_ @ nu_)), math.sqrt(max(upd_p, 0.0)))
    ck = C_KIND[kind]
    decided = ck * d_p <= DECIDE_REL * max(upd_p, 1e-300) and ck * d_x <= DECIDE_REL * max(upd_x, 1e-300)
    return {"x": d_x, "p": d_p, "nu": d_nu, "decided": decided, "dx": dx, "dy": dy, "upd_x": upd_x, "upd_p": upd_p, "negw": bool(wm[0] < 0), "w1": w1, "c": ck}


def _compare(ctx, name, mon, key, what, w, b, v, bd, perm=None):
    """Posterior of variant v against base b under bound bd (equilibrated coordinates). perm: row permutation of the stacked measurement."""
    if bd is None or not bd["decided"]:
        ctx.count("undecided_" + name)
        return False
    dx, dy = bd["dx"], bd["dy"]
    if bd["negw"]:
        ctx.count(f"decided_{name}_with_negative_centre_weight")
    if bd["w1"] > 1e3:
        ctx.count(f"decided_{name}_with_sum_abs_weights_above_1e3")
    ex, ep = _mx(dx * (v.x - b.x)), _mx((v.p - b.p) * np.outer(dx, dx))
    _track(ctx, name + "_x", ex, bd["x"])
    _track(ctx, name + "_p", ep, bd["p"])
    ctx.check(ex <= bd["c"] * bd["x"], key, f"{what}: est_x changed by {ex:.3e} prior sigmas (rounding bound {bd["c"] * bd['x']:.3e}, update size {bd['upd_x']:.3e})", w, mon=mon)
    ctx.check(ep <= bd["c"] * bd["p"], key, f"{what}: est_p changed by {ep:.3e} of the prior variance (rounding bound {bd["c"] * bd['p']:.3e}, update size {bd['upd_p']:.3e})", w, mon=mon)
    nu_b, dy_b = (b.nu, dy) if perm is None else (b.nu[perm], dy[perm])
    en = _mx((v.nu - nu_b) * dy_b)
    ctx.check(en <= bd["c"] * bd["nu"], key, f"{what}: innovation changed by {en:.3e} innovation sigmas (bound {bd["c"] * bd['nu']:.3e})", w, mon=mon)
    return True


def _chk_innovation(ctx, w, what, s):
    for i in np.where(s.ang)[0]:
        v = float(s.nu[i])
        ctx.check(-PI < v <= PI, "innovation-outside-(-pi,pi]", f"{what}: angular innovation component {i} = {v!r}", w, mon="innovation_range")


def _track(ctx, name, err, unit):
    if unit > 0 and math.isfinite(err):
        r = err / unit
        cur = ctx.extra.setdefault("_calib", {})
        if r > cur.get(name, 0.0):
            cur[name] = r


def _eval_sigma(obs, sp, utc=None):
    rows = []
    for j in range(sp.shape[1]):
        col = []
        for ob in obs:
            col.extend(list(ob.measurement.calculateMeasurement(ob.sensor_eci, sp[:, j], utc, noisy=False).values()))
        rows.append(col)
    return np.array(rows, dtype=float).T


def _row_mean_error(theta, wm, low):
    """Rounding bound of the repository's weighted circular mean of one row (angularMean with this row's interval) plus the
    reference's own (atan2 of the plain sums).  Angle aware: near 0 the sine sum is tiny and the mean is accurate far below
    eps * sum|w|; for the (-pi, pi) interval the argument (theta - low) itself is rounded."""
    s_ = len(theta)
    wn = wm / np.linalg.norm(wm)
    out = 0.0
    # repository path: arg = (theta - low) * TWOPI / (high - low): one rounding for the shift (low != 0), two for the scale/unscale
    arg_repo = theta - low
    d_repo = 2.0 * EPS * np.abs(arg_repo) + (2.0 * EPS * (np.abs(theta) + abs(low)) if low != 0.0 else 0.0)
    for arg, d_arg in ((arg_repo, d_repo), (theta, np.zeros(s_))):
        sn, cs = np.sin(arg), np.cos(arg)
        aw = np.abs(wn)
        ds = float(np.dot(aw, np.abs(cs) * d_arg + (s_ + 2) * EPS * np.abs(sn)))
        dc = float(np.dot(aw, np.abs(sn) * d_arg + (s_ + 2) * EPS * np.abs(cs)))
        sm, cm = float(np.dot(wn, sn)), float(np.dot(wn, cs))
        rr = math.hypot(sm, cm)
        if rr <= 0:
            return math.inf
        out += (abs(cm) * ds + abs(sm) * dc) / (rr * rr) + 4 * EPS
    return out + 8 * ULP_2PI


def _reference_check(ctx, w, what, b, obs, wm, wc, r, y, utc=None):
    from resonaate.physics.measurements import IsAngle

    y_sig = _eval_sigma(obs, b.sp, utc)
    ref = kf.sigma_update(b.pred_x, b.pred_p, b.xres, y_sig, wm, wc, b.ang, r, y)
    flags = [int(a) for ob in obs for a in ob.measurement.angular_values]
    m = len(flags)
    if not (np.all(np.diag(b.s) > 0) and np.all(np.isfinite(b.s))) or ref["resultant"] < 1e-3:
        ctx.count("undecided_reference")
        return
    key = "update-ne-circular-reference"
    e_rows = np.zeros(m)
    sig_row = np.sqrt(np.diag(b.s))
    # ---- row-wise: predicted mean, innovation, sigma residuals (these see a seam error directly) -------------------
    for i in range(m):
        if not b.ang[i]:
            continue
        low = 0.0 if flags[i] == int(IsAngle.ANGLE_0_2PI) else -PI
        e_rows[i] = _row_mean_error(y_sig[i], wm, low)
        tol_i = C_TOL * e_rows[i]
        if tol_i > DECIDE_REL * sig_row[i]:
            ctx.count("undecided_reference_rows")
            continue
        dm = kf.circ_dist(float(b.ybar[i]), float(ref["ybar"][i]))
        _track(ctx, "reference_row_mean", dm, e_rows[i])
        ctx.check(dm <= tol_i, key, f"{what}: predicted mean of angular row {i} = {float(b.ybar[i])!r}, weighted circular mean = {float(ref['ybar'][i])!r} "
                  f"(difference {dm:.3e}, bound {tol_i:.3e})", w, mon="circular_reference")
        t_res = tol_i + 16 * ULP_2PI + 4 * EPS * float(np.max(np.abs(y_sig[i])) + abs(float(y[i])))
        dr = max(kf.circ_dist(float(b.yres[i, j]), float(ref["y_res"][i, j])) for j in range(y_sig.shape[1]))
        ok_rng = bool(np.all(b.yres[i] > -PI) and np.all(b.yres[i] <= PI))
        ctx.check(dr <= t_res and ok_rng, key, f"{what}: sigma-point residuals of angular row {i} differ from the wrapped differences by {dr:.3e} "
                  f"(bound {t_res:.3e}; all in (-pi, pi]: {ok_rng})", w, mon="circular_reference")
        dn = abs(float(b.nu[i]) - float(ref["nu"][i]))
        ctx.check(dn <= t_res, key, f"{what}: innovation of angular row {i} = {float(b.nu[i])!r}, seam-free value {float(ref['nu'][i])!r}", w, mon="circular_reference")
        ctx.count("reference_rows_decided")
    # ---- whole posterior ------------------------------------------------------------------------------------------
    bd = _bounds(b, wm, wc, 4 * EPS * (TWOPI + (_mx(y_sig[b.ang]) if np.any(b.ang) else 0.0)), 4 * EPS * (TWOPI + (_mx(y[b.ang]) if np.any(b.ang) else 0.0)), e_rows=e_rows)
    if bd is None or not bd["decided"]:
        ctx.count("undecided_reference")
        return
    dx, dy = bd["dx"], bd["dy"]
    ex, ep = _mx(dx * (b.x - ref["x"])), _mx((b.p - ref["p"]) * np.outer(dx, dx))
    _track(ctx, "reference_x", ex, bd["x"])
    _track(ctx, "reference_p", ep, bd["p"])
    ctx.check(ex <= C_TOL * bd["x"], key, f"{what}: est_x differs from the seam-free reference update by {ex:.3e} prior sigmas (bound {C_TOL * bd['x']:.3e})", w, mon="circular_reference")
    ctx.check(ep <= C_TOL * bd["p"], key, f"{what}: est_p differs from the seam-free reference update by {ep:.3e} of the prior variance (bound {C_TOL * bd['p']:.3e})", w, mon="circular_reference")
    ctx.count("reference_posteriors_decided")


def _blk(mats):
    n = sum(m.shape[0] for m in mats)
    out = np.zeros((n, n))
    i = 0
    for m in mats:
        k = m.shape[0]
        out[i:i + k, i:i + k] = m
        i += k
    return out


# ---------------------------------------------------------------------------------------------
# stub cases
# ---------------------------------------------------------------------------------------------
def gen_stub(rng):
    n = int(rng.integers(2, 7))
    r = rng.random()
    alpha = 1.0 if r < 0.25 else 1e-3 if r < 0.5 else float(10 ** rng.uniform(-3, 0)) if r < 0.75 else float(rng.uniform(0.3, 1.0))
    beta = float(rng.choice([2.0, 2.0, 0.0, rng.uniform(0, 4)]))
    kappa = [None, 0.0, 1.0, 3.0 - n][int(rng.integers(4))]
    resample = bool(rng.integers(2))
    scale = float(10 ** rng.uniform(-2, 4))
    p0 = kf.rand_spd(rng, n, scale, float(10 ** rng.uniform(0, 3)))
    q = kf.rand_spd(rng, n, scale * float(10 ** rng.uniform(-6, -1)), 10.0)
    x0 = rng.standard_normal(n) * math.sqrt(scale) * float(10 ** rng.uniform(-1, 2))
    l0 = np.linalg.cholesky(p0 + q)
    xt = x0 + 0.7 * l0 @ rng.standard_normal(n)
    n_obs = int(rng.choice([1, 2, 3, 4, 4, 4]))
    obs = []
    for _j in range(n_obs):
        mcomp = int(rng.integers(1, 5)) if n_obs < 4 else int(rng.integers(1, 4))
        kinds = [("ang" if rng.random() < 0.55 else "lin") for _ in range(mcomp)]
        if _j == 0 and "ang" not in kinds:
            kinds[0] = "ang"
        comps, sig = [], []
        for kd in kinds:
            if kd == "lin":
                h = rng.standard_normal(n) * float(10 ** rng.uniform(-1, 1))
                comps.append({"t": "lin", "h": [float(v) for v in h], "h0": float(rng.standard_normal() * math.sqrt(scale))})
                sig.append(math.sqrt(float(h @ (p0 + q) @ h)) * float(10 ** rng.uniform(-1.5, 1)))
            else:
                u = kf.rand_orth(rng, n)[:2] if n > 2 else kf.rand_orth(rng, 2)
                a, bvec = u[0] * float(10 ** rng.uniform(-0.3, 0.3)), u[1] * float(10 ** rng.uniform(-0.3, 0.3))
                s_ang = float(10 ** (rng.uniform(-4, -0.5) if rng.random() < 0.7 else rng.uniform(-6, -4)))
                rho = math.sqrt(max(float(a @ (p0 + q) @ a), float(bvec @ (p0 + q) @ bvec))) / s_ang
                th = float(rng.uniform(-PI, PI))
                a0 = rho * math.cos(th) - float(a @ x0)
                b0 = rho * math.sin(th) - float(bvec @ x0)
                # base representation: target in the middle of (-pi, pi]
                comps.append({"t": "ang", "a": [float(v) for v in a], "a0": a0, "b": [float(v) for v in bvec], "b0": b0,
                              "phi": -th, "cut": -PI, "flag": 3, "spread": s_ang})
                sig.append(s_ang * float(10 ** rng.uniform(-1.5, 1)))
        m = len(comps)
        if rng.random() < 0.5 or m == 1:
            rm = np.diag(np.array(sig) ** 2)
        else:
            dsg = np.diag(sig)
            cm = kf.rand_spd(rng, m, 1.0, float(10 ** rng.uniform(0, 2)))
            dd = np.sqrt(np.diag(cm))
            rm = kf.sym(dsg @ (cm / np.outer(dd, dd)) @ dsg)
        yv = np.array([st.eval_component(c, xt) for c in comps]) + np.linalg.cholesky(rm) @ rng.standard_normal(m)
        for i, c in enumerate(comps):
            if c["t"] == "ang":
                yv[i] = st.wrap_at(float(yv[i]), c["cut"])
        obs.append({"comps": comps, "R": _L(rm), "y": [float(v) for v in yv]})
    return {"kind": "stub", "n": n, "alpha": alpha, "beta": beta, "kappa": kappa, "resample": resample,
            "x0": [float(v) for v in x0], "P0": _L(p0), "Q": _L(q), "obs": obs}


def _mk_obs(ospecs, prefix="o"):
    return [st.spec_observation(o["comps"], np.array(o["R"], dtype=float), np.array(o["y"], dtype=float), f"{prefix}{j}_") for j, o in enumerate(ospecs)]


def _wrap_variant(ospecs, place, delta, rng):
    """Move the wrap point of every angular component; the measured angle moves with it."""
    out = []
    for o in ospecs:
        comps, y = [], list(o["y"])
        for i, c in enumerate(o["comps"]):
            if c["t"] != "ang":
                comps.append(c)
                continue
            c2 = dict(c)
            centre = c["phi"]                     # phi that puts the target at angle 0
            if place == "pm-pi-seam":
                c2.update(phi=centre + PI - delta, cut=-PI, flag=3)
            elif place == "zero-seam":
                c2.update(phi=centre + delta, cut=0.0, flag=2)
            elif place == "zero-centre":
                c2.update(phi=centre + PI, cut=0.0, flag=2)
            elif place == "flag-swap":
                c2.update(phi=centre, cut=-PI, flag=2)
            else:  # arbitrary cut / offset / flag
                c2.update(phi=float(rng.uniform(-50, 50)), cut=float(rng.choice([rng.uniform(-50, 50), 0.0, -PI, PI, TWOPI, -TWOPI])), flag=int(rng.choice([2, 3])))
            y[i] = st.wrap_at(o["y"][i] + (c2["phi"] - c["phi"]), c2["cut"])
            comps.append(c2)
        out.append({"comps": comps, "R": o["R"], "y": y})
    return out


def _straddles(snap, seam):
    """Do the measurement sigma points of some angular row lie on both sides of the seam (0/2pi or +-pi)?"""
    hit = False
    for i in np.where(snap.ang)[0]:
        vals = snap.ybar[i] + snap.yres[i]
        v = np.array([kf.wrap_pm(float(t) - seam) for t in vals])
        if np.any(v > 0) and np.any(v < 0) and np.max(np.abs(v)) < 1.0:
            hit = True
    return hit


def run_stub(ctx, spec, only=None):
    n = spec["n"]
    wm, wc, _g = kf.ut_weights(n, spec["alpha"], spec["beta"], spec["kappa"])
    f = st.make_ukf(spec["x0"], spec["P0"], st.linear_dynamics(np.eye(n)), spec["Q"], spec["resample"], spec["alpha"], spec["beta"], spec["kappa"])
    f.predict(st.scenario_time(60.0))
    pres = f.getPredictionResult()
    ospecs = spec["obs"]
    rng = np.random.default_rng([int(abs(spec["x0"][0]) * 1e6) % (2 ** 31), n, len(ospecs)])
    base = _update(f, pres, _mk_obs(ospecs), ctx, {**spec, "variant": {"type": "base"}}, "base update")
    if base is None:
        return {"decided": 0, "seam": 0}
    r = _blk([np.array(o["R"], dtype=float) for o in ospecs])
    y = np.concatenate([np.array(o["y"], dtype=float) for o in ospecs])
    w0 = dict(spec)
    stats = {"decided": 0, "seam": 0}
    _chk_innovation(ctx, {**w0, "variant": {"type": "base"}}, "base update", base)
    if only is None or only["type"] == "reference":
        _reference_check(ctx, {**w0, "variant": {"type": "reference"}}, "stub update", base, _mk_obs(ospecs), wm, wc, r, y)
    ang_idx = [(j, i) for j, o in enumerate(ospecs) for i, c in enumerate(o["comps"]) if c["t"] == "ang"]
    # ---- full turns -----------------------------------------------------------------------------
    turn_sets = []
    if only is None:
        for _ in range(2):
            turn_sets.append([int(rng.choice([1, -1, 2, -3, 1000, -1000, int(rng.integers(-1000, 1001))])) for _ in ang_idx])
    elif only["type"] == "turns":
        turn_sets.append(only["k"])
    for ks in turn_sets:
        o2 = [dict(o, y=list(o["y"])) for o in ospecs]
        d_meas = 0.0
        for (j, i), k in zip(ang_idx, ks):
            o2[j]["y"][i] = ospecs[j]["y"][i] + k * TWOPI
            d_meas += 2 * float(np.spacing(abs(o2[j]["y"][i]) + TWOPI))
        wv = {**w0, "variant": {"type": "turns", "k": [int(k) for k in ks]}}
        v = _update(f, pres, _mk_obs(o2), ctx, wv, "measured angles + 2*pi*k")
        if v is None:
            continue
        _chk_innovation(ctx, wv, "measured angles + 2*pi*k", v)
        if _compare(ctx, "turns", "turn_invariance", "posterior-changes-with-full-turns", f"adding 2*pi*{[int(k) for k in ks]} to the measured angles", wv, base, v,
                    _bounds(base, wm, wc, 0.0, d_meas, kind="turns")):
            stats["decided"] += 1
    # ---- wrap point -----------------------------------------------------------------------------
    spread = min([c["spread"] for o in ospecs for c in o["comps"] if c["t"] == "ang"] or [1e-3])
    plan = []
    if only is None:
        deltas = [0.0, 1e-12, -1e-12, float(rng.choice([1e-6, -1e-6])), 0.5 * spread, -0.5 * spread]
        for place in ("pm-pi-seam", "zero-seam"):
            for d in (deltas[0], float(rng.choice(deltas[1:]))):
                plan.append((place, d))
        plan += [("zero-centre", 0.0), ("flag-swap", 0.0), ("arbitrary", 0.0)]
    elif only["type"] == "wrap":
        plan.append((only["place"], only["delta"]))
    for place, d in plan:
        if only is not None and "obs" in only:
            o2 = only["obs"]
        else:
            o2 = _wrap_variant(ospecs, place, d, rng)
        a_mag = max([abs(c["phi"]) + abs(c["cut"]) for o in o2 for c in o["comps"] if c["t"] == "ang"] or [0.0]) + TWOPI + PI
        wv = {**w0, "variant": {"type": "wrap", "place": place, "delta": d, "obs": o2}}
        v = _update(f, pres, _mk_obs(o2), ctx, wv, f"wrap point moved ({place}, delta={d})")
        if v is None:
            continue
        _chk_innovation(ctx, wv, f"wrap point moved ({place}, delta={d})", v)
        key = {"pm-pi-seam": "posterior-changes-at-pm-pi-seam", "zero-seam": "posterior-changes-at-0-2pi-seam", "zero-centre": "posterior-changes-with-wrap-interval",
               "flag-swap": "posterior-changes-with-angle-flag", "arbitrary": "posterior-changes-with-wrap-cut"}[place]
        seam = {"pm-pi-seam": PI, "zero-seam": 0.0}.get(place)
        on_seam = seam is not None and _straddles(v, seam)
        if on_seam:
            # the seam-free reference on the variant itself (angle-aware row bounds stay decided for small alpha)
            r2 = _blk([np.array(o["R"], dtype=float) for o in o2])
            y2 = np.concatenate([np.array(o["y"], dtype=float) for o in o2])
            _reference_check(ctx, wv, f"update with the target on the {'+-pi' if seam else '0/2pi'} seam (delta={d:+.1e})", v, _mk_obs(o2), wm, wc, r2, y2)
            ctx.count("seam_straddling_updates_checked_against_reference")
        if _compare(ctx, "wrap", "wrap_point_invariance", key, f"moving the wrap point ({place}, target at {d:+.1e} rad from the seam/centre"
                    f"{', sigma points straddle the seam' if on_seam else ''})", wv, base, v, _bounds(base, wm, wc, 2 * EPS * a_mag, 2 * EPS * a_mag, kind="wrap")):
            stats["decided"] += 1
            if on_seam:
                stats["seam"] += 1
                ctx.count("seam_straddling_updates_compared")
    # ---- observation order -----------------------------------------------------------------------
    if len(ospecs) > 1:
        rows = []
        k0 = 0
        for o in ospecs:
            rows.append(list(range(k0, k0 + len(o["y"]))))
            k0 += len(o["y"])
        if only is None:
            perms = [p for p in itertools.permutations(range(len(ospecs))) if p != tuple(range(len(ospecs)))]
        elif only["type"] == "perm":
            perms = [tuple(only["order"])]
        else:
            perms = []
        bd = _bounds(base, wm, wc, 0.0, 0.0, kind="perm")
        for p in perms:
            wv = {**w0, "variant": {"type": "perm", "order": [int(q) for q in p]}}
            v = _update(f, pres, _mk_obs([ospecs[q] for q in p], prefix="p"), ctx, wv, f"observation order {list(p)}")
            if v is None:
                continue
            idx = np.array([q for jj in p for q in rows[jj]], dtype=int)
            _chk_innovation(ctx, wv, f"observation order {list(p)}", v)
            if _compare(ctx, "perm", "order_invariance", "posterior-changes-with-observation-order", f"stacking the observations in order {list(p)}", wv, base, v, bd, perm=idx):
                stats["decided"] += 1
            ctx.count("permutations_executed")
        if len(ospecs) == 4 and only is None:
            ctx.count("cases_with_all_24_orders")
    return stats


# ---------------------------------------------------------------------------------------------
# real measurement classes, real geometry
# ---------------------------------------------------------------------------------------------
def gen_real(rng):
    t = datetime(2016, 1, 1) + timedelta(seconds=int(rng.integers(0, 5 * 365 * 86400)))
    r = rng.random()
    alpha = 1.0 if r < 0.3 else 1e-3 if r < 0.7 else float(10 ** rng.uniform(-3, 0))
    sensors = []
    for j in range(int(rng.choice([1, 2, 2, 3]))):
        radar = (j == 0 and rng.random() < 0.6) or rng.random() < 0.3
        labels = ["azimuth_rad", "elevation_rad", "range_km", "range_rate_km_p_sec"] if radar else ["azimuth_rad", "elevation_rad"]
        sig = [float(10 ** rng.uniform(-6, -3)), float(10 ** rng.uniform(-6, -3)), float(10 ** rng.uniform(-3, -1)), float(10 ** rng.uniform(-6, -4))][: 4 if radar else 2]
        if rng.random() < 0.4:
            # the component layout of a measurement is the caller's choice (e.g. range first): labels and noise permuted together
            perm = [int(i) for i in rng.permutation(len(labels))]
            labels, sig = [labels[i] for i in perm], [sig[i] for i in perm]
        sensors.append({"lat": float(rng.uniform(-1.1, 1.1)), "lon": float(rng.uniform(-PI, PI)), "alt": float(rng.uniform(0, 3)), "labels": labels, "sig": sig})
    rho = float(10 ** rng.uniform(2.7, 4.5))
    side = float(rng.choice([-1.0, 1.0]))
    s_ang = float(10 ** rng.uniform(-6, -2))
    # azimuth of the *estimate* relative to the 0/2pi seam, in units of the sigma-point spread gamma*s_ang (|frac| < 1: the cloud straddles)
    kap = [None, 0.0][int(rng.integers(2))]
    gam = alpha * math.sqrt(3.0 if kap is None else 6.0)
    frac = float(rng.choice([0.0, 0.01, 0.3, 0.7, 0.95, 3.0, 1e3]))
    daz = frac * gam * s_ang if rng.random() < 0.8 else float(rng.choice([0.0, 1e-12, 1e-9, 1e-6]))
    return {"kind": "real", "t": t.isoformat(), "alpha": alpha, "beta": 2.0, "kappa": kap, "resample": bool(rng.integers(2)),
            "sensors": sensors, "az": side * daz, "el": float(rng.uniform(0.2, 1.3)), "rho": rho, "vel": [float(v) for v in rng.standard_normal(3) * 3.0],
            "sig_r": s_ang * rho, "sig_v": float(10 ** rng.uniform(-5, -2)), "err": [float(v) for v in rng.standard_normal(6)], "noise": [float(v) for v in rng.standard_normal(12)]}


def run_real(ctx, spec, only=None):
    from resonaate.data.observation import Observation
    from resonaate.physics.measurements import Measurement
    from resonaate.physics.time.stardate import JulianDate, datetimeToJulianDate, julianDateToDatetime
    from resonaate.physics.transforms.methods import ecef2eci, lla2ecef, sez2ecef

    t = datetime.fromisoformat(spec["t"])
    jd = float(datetimeToJulianDate(t))
    utc = julianDateToDatetime(JulianDate(jd))
    s0 = spec["sensors"][0]
    sen0 = lla2ecef(np.array([s0["lat"], s0["lon"], s0["alt"]]))
    az, el, rho = spec["az"], spec["el"], spec["rho"]
    sez = np.array([-rho * math.cos(el) * math.cos(az), rho * math.cos(el) * math.sin(az), rho * math.sin(el), 0.0, 0.0, 0.0])
    tgt_ecef = sen0 + sez2ecef(sez, s0["lat"], s0["lon"])
    x0 = np.array(ecef2eci(tgt_ecef, utc), dtype=float)          # the *estimate* sits at the chosen azimuth offset from the seam
    x0[3:] = x0[3:] + np.array(spec["vel"])
    sd = np.array([spec["sig_r"]] * 3 + [spec["sig_v"]] * 3)
    tgt = x0 + 0.5 * sd * np.array(spec["err"])                   # truth (generates the measurements)
    p0 = np.diag(sd ** 2)
    q = np.diag((sd * 1e-2) ** 2)
    wm, wc, _g = kf.ut_weights(6, spec["alpha"], spec["beta"], spec["kappa"])
    f = st.make_ukf(x0, p0, st.linear_dynamics(np.eye(6)), q, spec["resample"], spec["alpha"], spec["beta"], spec["kappa"])
    f.predict(st.scenario_time(60.0))
    pres = f.getPredictionResult()

    given = []  # the measured values in each observation's own component layout (independent of Observation.measurement_states)

    def build(turns=None):
        obs, k = [], 0
        given.clear()
        for j, s in enumerate(spec["sensors"]):
            sen = np.array(ecef2eci(lla2ecef(np.array([s["lat"], s["lon"], s["alt"]])), utc), dtype=float)
            meas = Measurement.fromMeasurementLabels(s["labels"], np.diag(np.array(s["sig"]) ** 2))
            vals = meas.calculateMeasurement(sen, tgt, utc, noisy=False)
            kw = {}
            for i, lab in enumerate(s["labels"]):
                v = float(vals[lab]) + s["sig"][i] * spec["noise"][(4 * j + i) % 12]
                if turns is not None and lab in ("azimuth_rad", "elevation_rad"):
                    v = v + turns[k] * TWOPI
                    k += 1
                kw[lab] = v
            given.append([kw[lab] for lab in s["labels"]])
            obs.append(Observation(jd, 10001, 20001 + j, "Radar" if len(s["labels"]) == 4 else "Optical", sen, meas, **kw))
        return obs

    obs = build()
    w0 = dict(spec)
    stats = {"decided": 0, "seam": 0}
    base = _update(f, pres, obs, ctx, {**w0, "variant": {"type": "base"}}, "real-geometry update")
    if base is None:
        return stats
    _chk_innovation(ctx, {**w0, "variant": {"type": "base"}}, "real-geometry update", base)
    r = _blk([np.array(o.r_matrix, dtype=float) for o in obs])
    y = np.concatenate([np.array(g_, dtype=float) for g_ in given])
    if any(s_["labels"][0] != "azimuth_rad" or (len(s_["labels"]) == 4 and s_["labels"][1:] != ["elevation_rad", "range_km", "range_rate_km_p_sec"]) for s_ in spec["sensors"]):
        ctx.count("real_updates_with_permuted_component_layout")
    seam = _straddles(base, 0.0)
    if seam:
        ctx.count("real_updates_straddling_azimuth_seam")
    if only is None or only["type"] == "reference":
        _reference_check(ctx, {**w0, "variant": {"type": "reference"}}, "real-geometry update" + (" (sigma azimuths straddle 0/2pi)" if seam else ""), base, obs, wm, wc, r, y, utc)
    n_ang = 2 * len(spec["sensors"])
    rng = np.random.default_rng([int(rho * 1e3) % (2 ** 31), n_ang])
    if only is None:
        tsets = [[int(rng.choice([1, -1, 2, 1000, -1000, int(rng.integers(-1000, 1001))])) for _ in range(n_ang)]]
    else:
        tsets = [only["k"]] if only["type"] == "turns" else []
    for ks in tsets:
        o2 = build(ks)
        d_meas = sum(2 * float(np.spacing(abs(k) * TWOPI + 2 * TWOPI)) for k in ks)
        wv = {**w0, "variant": {"type": "turns", "k": [int(k) for k in ks]}}
        v = _update(f, pres, o2, ctx, wv, "real geometry, measured angles + 2*pi*k")
        if v is None:
            continue
        _chk_innovation(ctx, wv, "real geometry, measured angles + 2*pi*k", v)
        if _compare(ctx, "turns", "turn_invariance", "posterior-changes-with-full-turns", f"real geometry: adding 2*pi*{[int(k) for k in ks]} to measured az/el", wv, base, v,
                    _bounds(base, wm, wc, 0.0, d_meas, kind="turns")):
            stats["decided"] += 1
    if len(obs) > 1:
        rows, k0 = [], 0
        for o in obs:
            m = len(o.measurement_states)
            rows.append(list(range(k0, k0 + m)))
            k0 += m
        if only is None:
            perms = [p for p in itertools.permutations(range(len(obs))) if p != tuple(range(len(obs)))]
        else:
            perms = [tuple(only["order"])] if only["type"] == "perm" else []
        bd = _bounds(base, wm, wc, 0.0, 0.0, kind="perm")
        for p in perms:
            wv = {**w0, "variant": {"type": "perm", "order": [int(q_) for q_ in p]}}
            ob_all = build()
            v = _update(f, pres, [ob_all[q_] for q_ in p], ctx, wv, f"real geometry, observation order {list(p)}")
            if v is None:
                continue
            idx = np.array([q_ for jj in p for q_ in rows[jj]], dtype=int)
            _chk_innovation(ctx, wv, f"real geometry, observation order {list(p)}", v)
            if _compare(ctx, "perm", "order_invariance", "posterior-changes-with-observation-order", f"real geometry: stacking the observations in order {list(p)}", wv, base, v, bd, perm=idx):
                stats["decided"] += 1
    stats["seam"] = int(seam)
    return stats


# =============================================================================================
def chk_particle_filter(ctx, w):
    """The particle filter's measurement residuals (real GeneticParticleFilter, real radar Observation): adding full turns to the
    measured azimuth / elevation leaves every particle residual and the weighted innovation unchanged; angular residuals lie in [-pi, pi]."""
    import copy

    from resonaate.data.observation import Observation
    from resonaate.dynamics.two_body import TwoBody
    from resonaate.estimation import GeneticParticleFilter
    from resonaate.physics.measurements import Measurement
    from resonaate.physics.time.stardate import ScenarioTime

    x = np.array(w["x"], dtype=float)
    sen = np.array(w["sensor_eci"], dtype=float)
    r_m = np.diagflat(w["r_diag"])
    st_np = np.random.get_state()
    try:
        np.random.seed(w["seed"])
        gpf = GeneticParticleFilter(tgt_id=10001, time=ScenarioTime(0.0), est_x=x, est_p=np.diagflat(w["p_diag"]), dynamics=TwoBody(), maneuver_detection=None,
                                    initial_orbit_determination=False, adaptive_estimation=False)
        meas = Measurement.fromMeasurementLabels(["azimuth_rad", "elevation_rad", "range_km", "range_rate_km_p_sec"], r_m)
        base = Observation.fromMeasurement(epoch_jd=w["jd"], target_id=10001, tgt_eci_state=np.array(w["truth"], dtype=float), sensor_id=1, sensor_eci=sen, sensor_type="radar",
                                           measurement=meas, noisy=False)
        _y0, res0 = gpf.calculateResidualsFromObservations([base])
        res0 = np.array(res0, dtype=float)
        ctx.check(bool(np.all(np.abs(res0[:2]) <= math.pi + 1e-12)), "particle-residual-angle-out-of-range", f"an angular particle residual is outside [-pi, pi]: max |.| = {np.abs(res0[:2]).max()!r}", w, mon="particle_filter")
        for kaz, kel in w["turns"]:
            obs = copy.deepcopy(base)
            obs.azimuth_rad = base.azimuth_rad + kaz * TWOPI
            obs.elevation_rad = base.elevation_rad + kel * TWOPI
            _y, res = gpf.calculateResidualsFromObservations([obs])
            res = np.array(res, dtype=float)
            tol = 1e-12 * (1 + abs(kaz) + abs(kel)) * 8
            d = float(np.abs(res - res0).max())
            ctx.check(d <= tol, "particle-residuals-change-with-full-turns", f"adding ({kaz}, {kel}) full turns to the measured (azimuth, elevation) changes the particle residuals by up to {d:.3e}", w, mon="particle_filter")
            ctx.check(bool(np.all(np.abs(res[:2]) <= math.pi + 1e-12)), "particle-residual-angle-out-of-range", f"with ({kaz}, {kel}) extra turns an angular particle residual is {np.abs(res[:2]).max()!r}", w, mon="particle_filter")
    finally:
        np.random.set_state(st_np)


def gen_particle_filter(rng):
    from resonaate.physics.transforms.methods import ecef2eci, lla2ecef

    t = datetime(2021, int(rng.integers(1, 13)), int(rng.integers(1, 28)), int(rng.integers(0, 24)), int(rng.integers(0, 60)), 0)
    from resonaate.physics.time.stardate import datetimeToJulianDate

    lat, lon = float(rng.uniform(-1.2, 1.2)), float(rng.uniform(-math.pi, math.pi))
    sen = np.array(ecef2eci(lla2ecef(np.array([lat, lon, 0.2])), t), dtype=float)
    # a satellite roughly above the site (also below the local horizon of the site now and then: negative elevations)
    up = sen[:3] / np.linalg.norm(sen[:3])
    off = rng.normal(0, 0.6, 3)
    dirv = up + off
    dirv /= np.linalg.norm(dirv)
    rr = float(rng.choice([7000.0, 8000.0, 12000.0, 42164.0]))
    pos = rr * dirv
    vdir = np.cross(dirv, rng.normal(0, 1, 3))
    vdir /= np.linalg.norm(vdir)
    x = np.concatenate([pos, math.sqrt(398600.4415 / rr) * vdir])
    truth = x + np.concatenate([rng.normal(0, 1e-3, 3), rng.normal(0, 1e-6, 3)])
    ks = [1, -1, 2, -3, 1000, -1000]
    turns = [(int(rng.choice(ks)), 0), (0, int(rng.choice(ks))), (int(rng.choice(ks)), int(rng.choice(ks)))]
    return {"kind": "particle", "x": [float(v) for v in x], "truth": [float(v) for v in truth], "sensor_eci": [float(v) for v in sen], "jd": float(datetimeToJulianDate(t)),
            "p_diag": [1e-6] * 3 + [1e-12] * 3, "r_diag": [2.4e-9, 2.4e-9, 1e-6, 1e-10], "seed": int(rng.integers(1, 2 ** 31 - 1)), "turns": turns}


def run(ctx):
    rng = ctx.rng("c16")
    for _ in range(ctx.scale(6, 300)):
        wpf = gen_particle_filter(rng)
        chk_particle_filter(ctx, wpf)
        ctx.count("particle_filter_cases")
    n_help = ctx.scale(32_000, 3_200_000)
    for i in range(n_help):
        sel = i % 4
        if sel < 2:
            chk_wrap_helpers(ctx, rng) if sel == 0 else chk_residual_helpers(ctx, rng)
        elif sel == 2:
            chk_residual_helpers(ctx, rng)
        else:
            chk_mean_helper(ctx, rng)
        ctx.case(("h", i, ctx.shard), nontrivial=True)
        if i % 512 == 0 and ctx.time_left() < 0.8 * BUDGET_S[ctx.tier]:
            break
    n_real = ctx.scale(60, 6000)
    t_real = 0.20 * BUDGET_S[ctx.tier]
    import time as _t

    t0 = _t.time()
    for i in range(n_real):
        if _t.time() - t0 > t_real or ctx.time_left() < 10:
            break
        spec = gen_real(rng)
        stt = run_real(ctx, spec)
        ctx.case(("r", spec["t"], spec["rho"]), nontrivial=stt["decided"] > 0,
                 sample={"kind": "real", "t": spec["t"], "az_offset": spec["az"], "sensors": [len(s["labels"]) for s in spec["sensors"]], "alpha": spec["alpha"],
                         "resample": spec["resample"], "straddles_seam": bool(stt["seam"]), "decided": stt["decided"]} if i % 7 == 0 else None)
        ctx.count("real_cases")
    n_stub = ctx.scale(2000, 200_000)
    for i in range(n_stub):
        if ctx.time_left() < 6:
            ctx.note("stopped_by_budget", True)
            break
        spec = gen_stub(rng)
        stt = run_stub(ctx, spec)
        w1 = float(np.sum(np.abs(kf.ut_weights(spec["n"], spec["alpha"], spec["beta"], spec["kappa"])[0])))
        ctx.case(("s", spec["n"], spec["alpha"], tuple(spec["x0"])), nontrivial=stt["decided"] > 0,
                 sample={"kind": "stub", "n": spec["n"], "alpha": spec["alpha"], "kappa": spec["kappa"], "resample": spec["resample"],
                         "components": [[c["t"] for c in o["comps"]] for o in spec["obs"]], "decided_comparisons": stt["decided"], "seam_straddling": stt["seam"]} if i % 97 == 0 else None)
        ctx.count("stub_cases")
        if w1 > 1.0 + 1e-9:
            ctx.count("stub_cases_negative_centre_weight")
    cal = ctx.extra.pop("_calib", {})
    ctx.add_to_set("calibration_worst_error_over_first_order_bound", f"shard {ctx.shard}: " + ", ".join(f"{k}={v:.3g}" for k, v in sorted(cal.items())) + f" (C_TOL={C_TOL})")


def replay(ctx, w):
    kind = w.get("kind")
    rng = np.random.default_rng(0)
    if kind == "particle":
        chk_particle_filter(ctx, w)
    elif kind == "wrap":
        _replay_wrap(ctx, w)
    elif kind == "residual":
        _replay_residual(ctx, w)
    elif kind == "mean":
        from resonaate.physics import maths as M

        _mean_relations(ctx, M, np.array(w["angles"], dtype=float), None if w["weights"] is None else np.array(w["weights"], dtype=float), w["low"], w["high"], w, rng)
    elif kind == "stub":
        var = w.get("variant") or {"type": "reference"}
        spec = {k: v for k, v in w.items() if k != "variant"}
        run_stub(ctx, spec, only=None if var["type"] == "base" else var)
    elif kind == "real":
        var = w.get("variant") or {"type": "reference"}
        spec = {k: v for k, v in w.items() if k != "variant"}
        run_real(ctx, spec, only=None if var["type"] == "base" else var)


def _replay_wrap(ctx, w):
    global _grid_angle
    saved = _grid_angle
    _grid_angle = lambda rng: (w["a"], 0)  # noqa: E731
    try:
        chk_wrap_helpers(ctx, np.random.default_rng(0))
    finally:
        _grid_angle = saved


def _replay_residual(ctx, w):
    global _grid_angle
    saved = _grid_angle
    seq = [(w["a"], 0), (w["b"], 0), (1.0, 0), (2.0, 0)]

    class _R:
        def __init__(self):
            self.g = np.random.default_rng(0)

        def random(self):
            return 0.0            # take the "independent b" branch

        def __getattr__(self, name):
            return getattr(self.g, name)

    _grid_angle = lambda rng: seq.pop(0)  # noqa: E731
    try:
        chk_residual_helpers(ctx, _R())
    finally:
        _grid_angle = saved
