"""C06 - the unscented filter equals the Kalman filter on linear systems; covariances stay valid.

The repository's real ``UnscentedKalmanFilter`` is driven through multi-step sequences on a fully known
linear-Gaussian system (stub dynamics ``x -> F x`` and stub observations ``y = H x`` from rvmon/ukf_stubs.py).
After every ``predict`` / ``update`` the filter's own attributes are compared with refs/kfref.py, which is
re-started from the filter's previous posterior at every step (lock step, so one bad step cannot hide or
fake another).

Monitors
  weights_sum_one     sum(mean_weight) == 1
  weights_scaled_ut   mean/cov weights and gamma equal the scaled unscented transform (Wan & van der Merwe)
  pred_eq_kf          pred_x == F x, pred_p == F P F^T + Q
  post_eq_kf          resample=True : est_x, est_p, gain, innovation covariance == Kalman update
  post_eq_noredraw    resample=False: == documented no-redraw variant (S, C built from F P F^T, P+ = P' - K S K^T)
  post_identity       est_p == pred_p - K S K^T with the filter's own K and S;  innovation == y - H pred_x
  post_le_prior       pred_p - est_p is positive semi-definite
  cov_sym_psd         pred_p / est_p symmetric and PSD (eigenvalue floor = first-order rounding bound of the step)
  noobs_mean          update([]) returns exactly the propagated 0th sigma point (= F x) and est_p is pred_p
  result_roundtrip    UKFPredictResult applied to a fresh filter + update reproduces the posterior bit for bit;
                      forecast() alone yields the same est_p and leaves est_x alone
  noise_q_valid       the repository's process-noise factories return symmetric PSD matrices

Tolerances are first-order rounding bounds evaluated per step from the actual matrices (see ``_Bounds``), times
the calibrated constant ``C_TOL``.  A comparison whose bound exceeds 1e-3 of the quantity's own update term is
not decided (counted in coverage.undecided_*), never reported as agreement.
"""

from __future__ import annotations

import math

import numpy as np

from .. import ukf_stubs as st
from ..refs import kfref as kf

LEVEL = "exploration"
RULE = ("case = one filter sequence: n in 1..8, F stable/unstable/singular/kinematic, SPD P0,Q with cond up to 1e8 (plus the "
        "repository's own Q factories for n=6 and Q=0), alpha in [1e-4,1], beta in [0,4], kappa in {None,0,3-n,1}, both resample "
        "modes, 1..20 steps, each step a gap or 1..4 stacked observations of dimension 1..4 with SPD R (cond up to 1e8); "
        "non-trivial = distinct sequence in which every predict comparison and at least one posterior comparison were decided "
        "(rounding bound < 1e-3 of the update term)")
ASSUME = ["refs/kfref.py (textbook Kalman equations, scaled unscented transform weights) is the reference",
          "the 'documented no-redraw variant' is: measurement sigma points = the propagated sigma points, i.e. S and C are built from "
          "F P F^T (without Q) while the prior covariance is F P F^T + Q (what the unchanged resample=False path computes)",
          "numpy cholesky/eigvalsh/solve are trusted; rounding bounds are first order with calibrated constant C_TOL"]
SHARDS = {"quick": 4, "thorough": 16}
BUDGET_S = {"quick": 80, "thorough": 540}
DECIDING = ["weights_sum_one", "sigma_span", "pred_eq_kf", "post_eq_kf", "post_eq_noredraw", "post_identity", "post_le_prior", "cov_sym_psd",
            "noobs_mean", "result_roundtrip", "predict_interval"]
MANIFEST = {"technique": "runtime monitoring: real UnscentedKalmanFilter on stub linear systems, lock-step comparison with a textbook Kalman filter",
            "level_text": "held on every sequence explored (counts in evidence); tolerances are per-step first-order rounding bounds",
            "level_note": "linear stub dynamics/observations replace the environment of the filter only; kfref is trusted"}

EPS = kf.EPS
C_TOL = 100.0         # calibrated: worst observed error / first-order bound over 1.2e5 steps (both modes, repaired resample path) is 0.82
DECIDE_REL = 1e-3     # a comparison is decided only if its bound is below this fraction of the compared update term
K_STALE = "resample-stale-sigma-x-res"


def _n2(a):
    a = np.atleast_2d(np.asarray(a, dtype=float))
    return float(np.linalg.norm(a, 2)) if a.size else 0.0


def _mx(a):
    a = np.asarray(a, dtype=float)
    return float(np.max(np.abs(a))) if a.size else 0.0


def _L(m):
    return [[float(v) for v in row] for row in np.atleast_2d(m)]


# ---------------------------------------------------------------------------------------------
# generation
# ---------------------------------------------------------------------------------------------
def _gen_f(rng, n):
    kind = rng.choice(["stable", "stable", "unstable", "identity", "singular", "kinematic", "rotation", "scaled"])
    g = rng.standard_normal((n, n)) / math.sqrt(n)
    rho = max(abs(np.linalg.eigvals(g))) if n > 1 else abs(g[0, 0])
    rho = max(float(rho), 1e-3)
    if kind == "stable":
        f = g * (rng.uniform(0.2, 0.98) / rho)
    elif kind == "unstable":
        f = g * (rng.uniform(1.02, 2.0) / rho)
    elif kind == "identity":
        f = np.eye(n)
    elif kind == "singular":
        f = g / rho
        f[:, rng.integers(n)] = 0.0
        if n > 2:
            f[rng.integers(n), :] = 0.0
    elif kind == "kinematic" and n % 2 == 0:
        h = n // 2
        dt = float(10 ** rng.uniform(-2, 2))
        f = np.block([[np.eye(h), dt * np.eye(h)], [np.zeros((h, h)), np.eye(h)]])
    elif kind == "rotation":
        f = kf.rand_orth(rng, n)
    else:
        f = g * float(10 ** rng.uniform(-3, 1.5))
    return f, str(kind)


def _with_dts(rng, steps):
    """Step lengths: whole seconds in most sequences, epochs between two seconds (and irregular grids) in a third."""
    if rng.random() < 0.35:
        for s_ in steps:
            s_["dt"] = float(rng.choice([60.0, 0.5, 7.25, 59.999, 300.1, 1.0 / 3.0, 2.5]))
    return steps


def _gen_h(rng, m, n):
    kind = rng.choice(["dense", "dense", "select", "dup", "scaled"])
    if kind == "select":
        h = np.zeros((m, n))
        for i in range(m):
            h[i, rng.integers(n)] = 1.0
    elif kind == "dup":
        h = rng.standard_normal((m, n))
        if m > 1:
            h[-1] = h[0]
    elif kind == "scaled":
        h = rng.standard_normal((m, n)) * float(10 ** rng.uniform(-3, 3))
    else:
        h = rng.standard_normal((m, n))
    return h


def _cond(rng, hi=8.0):
    r = rng.random()
    if r < 0.2:
        return 1.0
    if r < 0.7:
        return float(10 ** rng.uniform(0, 3))
    if r < 0.92:
        return float(10 ** rng.uniform(3, hi))
    return float(10 ** hi)


def _repo_q(rng):
    from resonaate.physics import noise

    which = rng.choice(["discrete", "continuous", "simple"])
    dt = float(rng.choice([1.0, 30.0, 60.0, 300.0]))
    mag = float(10 ** rng.uniform(-12, -3))
    q = {"discrete": noise.discreteWhiteNoise, "continuous": noise.continuousWhiteNoise, "simple": noise.simpleNoise}[str(which)](dt, mag)
    return np.array(q, dtype=float), f"repo-{which}"


def gen_sequence(rng, quick=True):
    n = int(rng.integers(1, 9))
    a_kind = rng.random()
    if a_kind < 0.2:
        alpha = 1.0
    elif a_kind < 0.4:
        alpha = 1e-3
    elif a_kind < 0.7:
        alpha = float(10 ** rng.uniform(-4, 0))
    else:
        alpha = float(rng.uniform(0.05, 1.0))
    beta = float(rng.choice([0.0, 2.0, 4.0, rng.uniform(0, 4)]))
    kappa = [None, 0.0, 3.0 - n, 1.0][int(rng.integers(4))]
    resample = bool(rng.integers(2))
    scale_p = float(10 ** rng.uniform(-4, 4))
    p0 = kf.rand_spd(rng, n, scale_p, _cond(rng))
    f0, fkind = _gen_f(rng, n)
    fs = [f0]
    if rng.random() < 0.2:
        fs.append(_gen_f(rng, n)[0])
    qk = rng.random()
    qkind = "spd"
    if n == 6 and qk < 0.25:
        q, qkind = _repo_q(rng)
        if fkind != "kinematic":
            q = q * scale_p / max(_n2(q), 1e-300) * float(10 ** rng.uniform(-4, 0))
    elif qk < 0.08:
        q, qkind = np.zeros((n, n)), "zero"
    else:
        q = kf.rand_spd(rng, n, scale_p * float(10 ** rng.uniform(-6, 1)), _cond(rng))
    rr_ = rng.random()
    ratio = float(10 ** (rng.uniform(-2, 1) if rr_ < 0.7 else rng.uniform(1, 3) if rr_ < 0.9 else rng.uniform(3, 5)))
    x0 = rng.standard_normal(n) * math.sqrt(scale_p) * ratio
    x0_int = bool(rng.random() < 0.08)
    if x0_int:
        x0 = np.round(x0)  # whole-number state handed over as an integer array (np.array([7000, -1200, ...]))
    n_steps = int(rng.integers(1, 21)) if not quick or rng.random() < 0.4 else int(rng.integers(1, 8))
    # truth + free-running reference covariance (only used to pick realistic magnitudes for R and y)
    l0 = np.linalg.cholesky(p0)
    xt = x0 + l0 @ rng.standard_normal(n)
    try:
        lq = np.linalg.cholesky(q)
    except np.linalg.LinAlgError:
        lq = np.sqrt(np.clip(np.diag(np.diag(q)), 0, None))
    xr, pr = x0.copy(), p0.copy()
    steps = []
    for k in range(n_steps):
        f = fs[k % len(fs)]
        xt = f @ xt + lq @ rng.standard_normal(n)
        xr, pr, _ = kf.kf_predict(xr, pr, f, q)
        obs = []
        if rng.random() >= 0.3:
            for _j in range(int(rng.integers(1, 5))):
                m = int(rng.integers(1, 5))
                h = _gen_h(rng, m, n)
                ref = float(np.mean(np.diag(h @ pr @ h.T)))
                ref = ref if ref > 0 and math.isfinite(ref) else 1.0
                r = kf.rand_spd(rng, m, ref * float(10 ** (rng.uniform(-2, 2) if rng.random() < 0.8 else rng.uniform(-4, 4))), _cond(rng))
                y = h @ xt + np.linalg.cholesky(r) @ rng.standard_normal(m) * float(rng.choice([1.0, 1.0, 10.0]))
                obs.append({"H": _L(h), "R": _L(r), "y": [float(v) for v in y]})
            hh = np.vstack([np.array(o["H"]) for o in obs])
            rr = _blk([np.array(o["R"]) for o in obs])
            yy = np.concatenate([np.array(o["y"]) for o in obs])
            u = kf.kf_update(xr, pr, hh, rr, yy)
            xr, pr = u["x"], kf.sym(u["p"])
            if kf.min_eig_sym(pr) <= 0:
                pr = pr + np.eye(n) * (1e-12 * _n2(pr) - kf.min_eig_sym(pr))
        steps.append({"obs": obs})
    return {"kind": "seq", "x0_int": x0_int, "boundary": rng.random() < 0.4, "n": n, "alpha": alpha, "beta": beta, "kappa": kappa, "resample": resample, "fkind": fkind, "qkind": qkind,
            "x0": [float(v) for v in x0], "P0": _L(p0), "Q": _L(q), "F": [_L(f) for f in fs], "steps": _with_dts(rng, steps)}


def _blk(mats):
    n = sum(m.shape[0] for m in mats)
    out = np.zeros((n, n))
    i = 0
    for m in mats:
        k = m.shape[0]
        out[i:i + k, i:i + k] = m
        i += k
    return out


def edge_sequences():
    """Hand-made sequences: the smallest system on which every quantity can be checked by hand, in both modes."""
    out = []
    for resample in (False, True):
        out.append({"kind": "seq", "n": 1, "alpha": 1.0, "beta": 2.0, "kappa": None, "resample": resample, "fkind": "identity", "qkind": "spd",
                    "x0": [0.0], "P0": [[1.0]], "Q": [[3.0]], "F": [[[1.0]]],
                    "steps": [{"obs": [{"H": [[1.0]], "R": [[1.0]], "y": [1.0]}]}, {"obs": []}, {"obs": [{"H": [[1.0]], "R": [[1.0]], "y": [2.0]}]}]})
        out.append({"kind": "seq", "n": 2, "alpha": 1e-3, "beta": 2.0, "kappa": None, "resample": resample, "fkind": "kinematic", "qkind": "spd",
                    "x0": [1.0, 0.5], "P0": [[4.0, 0.0], [0.0, 1.0]], "Q": [[0.25, 0.5], [0.5, 1.0 + 1e-6]], "F": [[[1.0, 1.0], [0.0, 1.0]]],
                    "steps": [{"obs": [{"H": [[1.0, 0.0]], "R": [[0.5]], "y": [1.7]}]}, {"obs": []}, {"obs": []},
                              {"obs": [{"H": [[1.0, 0.0]], "R": [[0.5]], "y": [3.1]}, {"H": [[0.0, 1.0], [1.0, 1.0]], "R": [[1.0, 0.2], [0.2, 2.0]], "y": [0.4, 3.9]}]}]})
    return out


# ---------------------------------------------------------------------------------------------
# rounding bounds
# ---------------------------------------------------------------------------------------------
class _Bounds:
    """First-order rounding bounds of one predict/update, from the matrices actually involved (2-norms)."""

    def __init__(self, n, wm, wc, gamma):
        self.n = n
        self.w1 = float(np.sum(np.abs(wm)))
        self.wc0 = abs(float(wc[0]))
        self.swc = abs(float(np.sum(wc)))
        self.gamma = gamma

    def predict(self, f, x, p, q):
        n, g = self.n, self.gamma
        nf, nx, nl = _n2(f), float(np.linalg.norm(x)), math.sqrt(max(_n2(p), 0.0))
        sig = nx + g * nl                                   # size of a sigma point
        d_sig = EPS * sig + n * EPS * g * nl                # rounding of x + gamma*L (incl. Cholesky backward error in L)
        chi = nf * sig
        d_chi = nf * d_sig + n * EPS * chi                  # rounding of F @ sigma
        e_x = (n + 2) * EPS * self.w1 * chi + self.w1 * d_chi   # weighted mean with cancelling weights
        u_p = (n * EPS * nf * nf * nl * nl                  # Cholesky backward error pushed through F
               + (2 * n / g) * nf * nl * (d_chi)            # independent rounding of the residual columns (sum |Wc_i| |a_i| d_chi)
               + (n + 2) * EPS * (nf * nl) ** 2             # accumulation of the weighted outer products
               + (1 + self.swc + EPS * self.w1 * (2 * n + 3)) * e_x * e_x   # common mean error (enters squared)
               + EPS * _n2(q))
        return {"x": e_x, "p": u_p, "chi": chi, "d_chi": d_chi, "chol": n * EPS * nf * nf * nl * nl}

    def update(self, pb, h, r, xp, pp, pcore, k, s, c, nu, ymag, redrawn):
        """pcore = covariance carried by the sigma points used for the measurement (pp if redrawn else F P F^T)."""
        n, g = self.n, self.gamma
        nh, nl = _n2(h), math.sqrt(max(_n2(pcore), 0.0))
        nx = float(np.linalg.norm(xp))
        if redrawn:
            sig = nx + g * nl
            d_sig = EPS * sig + n * EPS * g * nl
            e_x0 = d_sig                                    # centre residual is the rounding of a fresh sigma point
        else:
            sig, d_sig, e_x0 = pb["chi"] + 0.0, pb["d_chi"], pb["x"]
        # backward error of the Cholesky factor that generated the sigma points (for the propagated set it is the factor of the
        # *previous* posterior pushed through F, which can be much larger than |F P F^T| when F contracts)
        chol = n * EPS * nl * nl if redrawn else pb["chol"]
        m = h.shape[0]
        d_y = nh * d_sig + (n + 1) * EPS * nh * sig         # rounding of H @ sigma (python dot per component)
        e_y = (2 * n + 3) * EPS * self.w1 * nh * sig + self.w1 * d_y   # weighted measurement mean
        hl = nh * nl
        d_s = (nh * nh * chol + (2 * n / g) * hl * d_y + (2 * n + 3) * EPS * hl * hl
               + (1 + self.swc + EPS * self.w1 * (2 * n + 3)) * e_y * e_y + EPS * _n2(r))
        d_c = (nh * chol + (n / g) * (nl * d_y + hl * d_sig) + (2 * n + 3) * EPS * nl * hl
               + (1 + self.swc + EPS * self.w1 * (2 * n + 3)) * (e_x0 + d_sig) * e_y
               + (self.wc0 + self.w1) * (e_x0 + d_sig) * e_y * (0.0 if redrawn else 1.0) * EPS * (2 * n + 3))
        sinv = 1.0 / max(float(np.linalg.eigvalsh(kf.sym(s))[0]), 1e-300)
        ns, nk, nc = _n2(s), _n2(k), _n2(c)
        cond_s = ns * sinv
        d_k = (d_c + nk * d_s) * sinv + (m + 2) * EPS * cond_s * nc * sinv
        nnu = float(np.linalg.norm(nu))
        d_nu = e_y + EPS * (ymag + nh * nx)
        d_x = d_k * nnu + nk * d_nu + (m + 2) * EPS * (nx + nk * nnu)
        d_p = 2 * d_k * ns * nk + nk * nk * d_s + (m + n + 2) * EPS * (_n2(pp) + nk * nk * ns)
        return {"x": d_x, "p": d_p, "k": d_k, "s": d_s, "c": d_c, "nu": d_nu, "cond_s": cond_s}


# ---------------------------------------------------------------------------------------------
# one sequence through the real filter
# ---------------------------------------------------------------------------------------------
class _FilterRaised(Exception):
    pass


def _call(ctx, w, what, fn, *a):
    """Run a filter method; an exception on admissible input is a violation (mechanism = exception type)."""
    try:
        return fn(*a)
    except np.linalg.LinAlgError:
        raise
    except Exception as e:  # noqa: BLE001
        ctx.check(False, f"filter-raised-{type(e).__name__}", f"{what} raised {type(e).__name__}: {e}"[:300], w, mon="filter_no_exception")
        raise _FilterRaised from e


def _ray_copy(obj):
    """What crossing a Ray job boundary does to an object: pickle protocol 5, out-of-band buffers come back read-only."""
    import pickle

    bufs = []
    data = pickle.dumps(obj, protocol=5, buffer_callback=bufs.append)
    return pickle.loads(data, buffers=[bytes(b.raw()) for b in bufs])


def run_sequence(ctx, spec, stats=None):
    n = spec["n"]
    alpha, beta, kappa, resample = spec["alpha"], spec["beta"], spec["kappa"], spec["resample"]
    fs = [np.array(f, dtype=float) for f in spec["F"]]
    q = np.array(spec["Q"], dtype=float)
    x0, p0 = np.array(spec["x0"], dtype=float), np.array(spec["P0"], dtype=float)
    stats = stats if stats is not None else {}
    stats.update({"pred_decided": 0, "pred_undecided": 0, "post_decided": 0, "post_undecided": 0, "noobs": 0, "ended": None})

    def wit(k):
        w = dict(spec)
        w["steps"] = spec["steps"][:k + 1]
        w["fail_step"] = k
        return w

    dyn = st.linear_dynamics(fs[0])
    try:
        f = _call(ctx, wit(0), "constructor", st.make_ukf, x0.astype(np.int64) if spec.get("x0_int") else x0, p0, dyn, q, resample, alpha, beta, kappa)
        if spec.get("x0_int"):
            ctx.count("sequences_with_integer_typed_state")
    except _FilterRaised:
        return stats
    # ---- weights ----------------------------------------------------------------------------------
    wm_r, wc_r, g_r = kf.ut_weights(n, alpha, beta, kappa)
    wm = np.array(f.mean_weight, dtype=float)
    wcm = np.array(f.cvr_weight, dtype=float)
    wc = np.diag(wcm).copy()
    w1 = float(np.sum(np.abs(wm)))
    ctx.check(abs(float(np.sum(wm)) - 1.0) <= 8 * (2 * n + 1) * EPS * w1, "weights-sum",
              f"sum(mean_weight) = {float(np.sum(wm))!r} (n={n}, alpha={alpha}, kappa={kappa})", wit(0), mon="weights_sum_one")
    # gamma = sqrt(n + lambda) inherits the cancellation in lambda = alpha^2 (n + kappa) - n: relative error ~ eps / alpha^2
    # lambda = alpha^2 (n + kappa) - n cancels for small alpha: equivalent ways of writing Wm0 = lambda / (n + lambda) differ by a
    # few eps * (1 + |Wm0|) in the *absolute* value of lambda/(n+lambda); 256 eps covers every algebraically equivalent form
    ok_w = (wm.shape == wm_r.shape and np.all(np.abs(wm - wm_r) <= 256 * EPS * (np.abs(wm_r) + 1.0) + 1e-300)
            and np.all(np.abs(wc - wc_r) <= 256 * EPS * (np.abs(wm_r) + 1 + alpha * alpha + beta))
            and _mx(wcm - np.diag(wc)) == 0.0 and abs(float(f.gamma) - g_r) <= 64 * EPS * (1.0 + 1.0 / (alpha * alpha)) * g_r)
    ctx.check(bool(ok_w), "weights-ne-scaled-ut", f"weights/gamma differ from the scaled unscented transform: Wm0={wm[0]!r} vs {wm_r[0]!r}, "
              f"Wc0={wc[0]!r} vs {wc_r[0]!r}, gamma={float(f.gamma)!r} vs {g_r!r}", wit(0), mon="weights_scaled_ut")
    bnd = _Bounds(n, wm_r, wc_r, g_r)

    t = 0.0
    tp_last = 0.0   # rounding bound of the covariance currently held in est_p
    for k, step in enumerate(spec["steps"]):
        w = wit(k)
        fm = fs[k % len(fs)]
        if spec.get("boundary"):
            dyn = f.dynamics  # the long-lived filter was replaced by the copy the update job returned
        dyn.F = fm
        x_prev = np.array(f.est_x, dtype=float, copy=True)
        p_prev = np.array(f.est_p, dtype=float, copy=True)
        t_prev = t
        t += float(step.get("dt", 60.0))
        boundary = bool(spec.get("boundary"))
        try:
            if boundary:
                # the simulator's parallel path: predict() runs on a pickled copy inside a job, only the
                # prediction result travels back and is applied to the long-lived filter
                fc = _ray_copy(f)
                _call(ctx, w, "predict", fc.predict, st.scenario_time(t))
                _ray_copy(fc.getPredictionResult()).apply(f)
                dyn = fc.dynamics
            else:
                _call(ctx, w, "predict", f.predict, st.scenario_time(t))
            # the Kalman prediction of this step is the transition over [previous epoch, new epoch]: that is the interval the
            # filter has to hand to its dynamics (epochs need not be whole seconds)
            iv = (getattr(dyn, "intervals", None) or [None])[-1]
            if iv is not None:
                ctx.check(iv[0] == t_prev and iv[1] == t, "predict-interval", f"step {k}: predict to t = {t!r} s propagated the sigma points over [{iv[0]!r}, {iv[1]!r}] s, "
                          f"the step is [{t_prev!r}, {t!r}] s", w, mon="predict_interval")
        except np.linalg.LinAlgError:
            lam = kf.min_eig_sym(p_prev)
            singular = lam <= tp_last + 64 * n * EPS * max(_n2(p_prev), 1e-300)
            if not singular:
                ctx.check(False, "linalg-error-on-regular-input", f"predict raised LinAlgError although est_p has min eigenvalue {lam:.3e} "
                          f"(norm {_n2(p_prev):.3e})", w, mon="filter_no_exception")
            stats["ended"] = "numerically-singular-posterior"
            ctx.count("sequences_ended_numerically_singular")
            break
        except _FilterRaised:
            break
        # ---- predict == KF ------------------------------------------------------------------------
        xp_r, pp_r, pbar = kf.kf_predict(x_prev, kf.sym(p_prev), fm, q)
        pb = bnd.predict(fm, x_prev, p_prev, q)
        pred_x, pred_p = np.array(f.pred_x, dtype=float), np.array(f.pred_p, dtype=float)
        asym_prev = _mx(p_prev - p_prev.T) * _n2(fm) ** 2 * n
        tol_x, tol_p = C_TOL * pb["x"], C_TOL * pb["p"] + asym_prev
        decided = tol_p <= DECIDE_REL * max(_n2(pp_r), 1e-300) and tol_x <= DECIDE_REL * max(float(np.linalg.norm(xp_r)), math.sqrt(_n2(pp_r)))
        ex, ep = _mx(pred_x - xp_r), _mx(pred_p - pp_r)
        _track(ctx, "pred_x", ex, pb["x"])
        _track(ctx, "pred_p", max(ep - asym_prev, 0.0), pb["p"])
        if decided:
            stats["pred_decided"] += 1
            ctx.check(pred_x.shape == (n,) and ex <= tol_x, "pred-mean-ne-kf",
                      f"step {k}: pred_x differs from F x by {ex:.3e} (bound {tol_x:.3e})", w, mon="pred_eq_kf")
            ctx.check(pred_p.shape == (n, n) and ep <= tol_p, "pred-cov-ne-kf",
                      f"step {k}: pred_p differs from F P F^T + Q by {ep:.3e} (bound {tol_p:.3e}, |pred_p|={_n2(pp_r):.3e})", w, mon="pred_eq_kf")
        else:
            stats["pred_undecided"] += 1
            ctx.count("undecided_predict_steps")
        _chk_cov(ctx, w, f"step {k}: pred_p", pred_p, tol_p, None)
        # ---- update -------------------------------------------------------------------------------
        obs_specs = step["obs"]
        if not obs_specs:
            try:
                if boundary:
                    fc = _ray_copy(f)
                    _call(ctx, w, "update([])", fc.update, [])
                    f = _ray_copy(fc)
                else:
                    _call(ctx, w, "update([])", f.update, [])
            except _FilterRaised:
                break
            stats["noobs"] += 1
            tp_last = tol_p
            col0 = dyn.last_out[:, 0] if dyn.last_out is not None and dyn.last_out.ndim == 2 else None
            est_x = np.array(f.est_x, dtype=float)
            same = col0 is not None and est_x.shape == (n,) and np.array_equal(est_x, col0)
            close = _mx(est_x - fm @ x_prev) <= C_TOL * (n + 2) * EPS * _n2(fm) * max(float(np.linalg.norm(x_prev)), 1e-300)
            ctx.check(bool(same and close), "noobs-mean-changed",
                      f"step {k}: update([]) returned est_x that is not the propagated state F x (max diff {_mx(est_x - fm @ x_prev):.3e}, "
                      f"identical to propagated 0th sigma point: {bool(same)})", w, mon="noobs_mean")
            ctx.check(np.array_equal(np.array(f.est_p), pred_p), "noobs-cov-changed", f"step {k}: update([]) changed the covariance", w, mon="noobs_mean")
            ctx.check(str(getattr(f.source, "value", f.source)) == "Propagation", "noobs-source", f"step {k}: source = {f.source!r}", w, mon="noobs_mean")
            continue
        hs = [np.array(o["H"], dtype=float) for o in obs_specs]
        rs = [np.array(o["R"], dtype=float) for o in obs_specs]
        ys = [np.array(o["y"], dtype=float) for o in obs_specs]
        h, r, y = np.vstack(hs), _blk(rs), np.concatenate(ys)
        obs = [st.linear_observation(hh, rr, yy, f"o{j}_") for j, (hh, rr, yy) in enumerate(zip(hs, rs, ys))]
        do_rt = (k + n) % 3 == 0
        if do_rt:
            pres = f.getPredictionResult()
        if not boundary and (k + n) % 4 == 1:
            # a what-if forecast for another sensor (same or different stack size) on the same filter object just before the real
            # update: the update must still be the Kalman update for the observations it is given
            alt_h = hs[0][::-1].copy() if (k % 2 or len(hs) == 1) else np.vstack([hs[0][::-1], hs[0][:1]])
            alt_r = rs[0] if alt_h.shape[0] == rs[0].shape[0] else _blk([rs[0], rs[0][:1, :1]])
            try:
                f.forecast([st.linear_observation(alt_h, alt_r, np.zeros(alt_h.shape[0]), "w_")])
                ctx.count("whatif_forecasts_before_update")
            except Exception:  # noqa: BLE001
                ctx.count("whatif_forecast_raised")
        ppf = kf.sym(pred_p)
        ev_s = np.linalg.eigvalsh(kf.sym(h @ (ppf if resample else pbar) @ h.T) + r)
        s_singular = not np.all(np.isfinite(ev_s)) or ev_s[0] <= 1e-14 * ev_s[-1]
        try:
            if boundary:
                # the update job works on a copy fetched from the object store; the agent then adopts the returned filter
                fc = _ray_copy(f)
                _call(ctx, w, "update", fc.update, obs)
                f = _ray_copy(fc)
            else:
                _call(ctx, w, "update", f.update, obs)
        except np.linalg.LinAlgError:
            lam = kf.min_eig_sym(pred_p)
            ctx.check(s_singular or lam <= tol_p + 64 * n * EPS * _n2(pred_p), "linalg-error-on-regular-input",
                      f"step {k}: update raised LinAlgError although pred_p (min eigenvalue {lam:.3e}, norm {_n2(pred_p):.3e}) and the innovation "
                      f"covariance (eigenvalues {ev_s[0]:.3e}..{ev_s[-1]:.3e}) are regular", w, mon="filter_no_exception")
            stats["ended"] = "numerically-singular-prior"
            ctx.count("sequences_ended_numerically_singular")
            break
        except _FilterRaised:
            break
        est_x, est_p = np.array(f.est_x, dtype=float), np.array(f.est_p, dtype=float)
        kk, ss, cc = np.array(f.kalman_gain, dtype=float), np.array(f.innov_cvr, dtype=float), np.array(f.cross_cvr, dtype=float)
        nu = np.array(f.innovation, dtype=float)
        m = h.shape[0]
        shapes_ok = est_x.shape == (n,) and est_p.shape == (n, n) and kk.shape == (n, m) and ss.shape == (m, m) and nu.shape == (m,)
        if not shapes_ok:
            ctx.check(False, "posterior-shape", f"step {k}: shapes est_x{est_x.shape} est_p{est_p.shape} K{kk.shape} S{ss.shape} nu{nu.shape}", w, mon="post_identity")
            break
        if s_singular:
            stats["ended"] = "numerically-singular-innovation-covariance"
            ctx.count("sequences_ended_numerically_singular")
            break
        ref = kf.kf_update(pred_x, ppf, h, r, y) if resample else kf.noredraw_update(pred_x, ppf, pbar, h, r, y)
        ub = bnd.update(pb, h, r, pred_x, pred_p, ppf if resample else pbar, ref["k"], ref["s"], ref["c"], ref["nu"], float(np.linalg.norm(y)), resample)
        asym_pp = _mx(pred_p - pred_p.T)
        # the filter factorises the lower triangle of a (slightly) asymmetric covariance, the reference its symmetric part
        a_core = n * asym_pp if resample else asym_prev
        nh_, nk_, ns_ = _n2(h), _n2(ref["k"]), _n2(ref["s"])
        x_k = (nh_ * a_core + nk_ * nh_ * nh_ * a_core) / max(kf.min_eig_sym(ref["s"]), 1e-300)
        t_k = C_TOL * ub["k"] + x_k
        t_s = C_TOL * ub["s"] + nh_ * nh_ * a_core
        t_x = C_TOL * ub["x"] + x_k * float(np.linalg.norm(ref["nu"]))
        t_p = C_TOL * ub["p"] + n * asym_pp + 2 * x_k * ns_ * nk_ + nk_ * nk_ * nh_ * nh_ * a_core
        tp_last = t_p
        upd_x = float(np.linalg.norm(ref["k"] @ ref["nu"]))
        upd_p = _n2(ref["k"] @ ref["s"] @ ref["k"].T)
        dec_post = (t_k <= DECIDE_REL * max(_n2(ref["k"]), 1e-300) and t_p <= DECIDE_REL * max(upd_p, 1e-300)
                    and t_x <= DECIDE_REL * max(upd_x, math.sqrt(max(upd_p, 0.0)), 1e-300))
        e_k, e_s, e_x, e_p = _mx(kk - ref["k"]), _mx(ss - ref["s"]), _mx(est_x - ref["x"]), _mx(est_p - ref["p"])
        # mechanism classification for the resample path (observed fact: which formula the filter's gain follows)
        stale = False
        if resample:
            # observed fact 1: the state residuals held by the filter are not the residuals of the sigma points it holds
            try:
                sp, sxr = np.array(f.sigma_points, dtype=float), np.array(f.sigma_x_res, dtype=float)
                mismatch = _mx(sxr - (sp - pred_x.reshape(n, 1)))
                stale_state = sp.shape == sxr.shape == (n, 2 * n + 1) and mismatch > 1e-9 * max(_mx(sxr), _mx(sp - pred_x.reshape(n, 1)), 1e-300)
            except Exception:  # noqa: BLE001
                stale_state = False
            # observed fact 2: the gain follows the stale-pairing formula
            try:
                sref = kf.stale_cross_update(pred_x, pred_p, fm, np.linalg.cholesky(p_prev), h, r, y)
                d_stale, d_kf = _mx(kk - sref["k"]), e_k
                # the gain follows the stale formula to rounding and is (much) further from the Kalman gain
                stale = d_stale <= 4 * t_k + 1e-9 * _n2(sref["k"]) and d_kf > 64 * max(d_stale, EPS * _n2(sref["k"]))
            except np.linalg.LinAlgError:
                stale = False
            # classification rests on fact 1 (the anchored state itself); fact 2 only confirms it
            ctx.count("stale_state_confirmed_by_gain_formula" if (stale and stale_state) else "stale_state_without_gain_confirmation" if stale_state else "no_stale_state")
            stale = bool(stale_state)
        mode = "Kalman update" if resample else "no-redraw variant"
        mon = "post_eq_kf" if resample else "post_eq_noredraw"
        key = K_STALE if stale else ("posterior-ne-kf-resample" if resample else "posterior-ne-noredraw-variant")
        stale_txt = (" - the gain equals (F L_est)(H L_pred)^T S^-1, i.e. the cross covariance pairs the state residuals of the *propagated* "
                     "sigma points with measurement residuals of the *redrawn* ones") if stale else ""
        if not stale:
            _track(ctx, "post_k", max(e_k - (t_k - C_TOL * ub["k"]), 0.0), ub["k"])
            _track(ctx, "post_s", max(e_s - (t_s - C_TOL * ub["s"]), 0.0), ub["s"])
            _track(ctx, "post_x", max(e_x - (t_x - C_TOL * ub["x"]), 0.0), ub["x"])
            _track(ctx, "post_p", max(e_p - (t_p - C_TOL * ub["p"]), 0.0), ub["p"])
        if dec_post:
            stats["post_decided"] += 1
            ctx.check(e_s <= t_s, "innovation-cov-ne-" + ("kf" if resample else "noredraw"),
                      f"step {k}: innov_cvr differs from the {mode} by {e_s:.3e} (bound {t_s:.3e})", w, mon=mon)
            ctx.check(e_k <= t_k, key, f"step {k}: kalman_gain differs from the {mode} by {e_k:.3e} (bound {t_k:.3e}, |K|={_n2(ref['k']):.3e}){stale_txt}", w, mon=mon)
            ctx.check(e_x <= t_x, key, f"step {k}: est_x differs from the {mode} by {e_x:.3e} (bound {t_x:.3e}, |K nu|={upd_x:.3e}){stale_txt}", w, mon=mon)
            ctx.check(e_p <= t_p, key, f"step {k}: est_p differs from the {mode} by {e_p:.3e} (bound {t_p:.3e}, |K S K^T|={upd_p:.3e}){stale_txt}", w, mon=mon)
        else:
            stats["post_undecided"] += 1
            ctx.count("undecided_update_steps")
        # identities on the filter's own quantities (hold for any gain)
        ksk = kk @ ss @ kk.T
        t_id = C_TOL * (m + n + 2) * EPS * (_n2(pred_p) + _n2(kk) ** 2 * _n2(ss))
        e_id = _mx(est_p - (pred_p - ksk))
        _track(ctx, "identity", e_id, t_id / C_TOL)
        ctx.check(e_id <= t_id, "posterior-ne-prior-minus-KSKt", f"step {k}: est_p differs from pred_p - K S K^T by {e_id:.3e} (bound {t_id:.3e})", w, mon="post_identity")
        t_nu = C_TOL * ub["nu"]
        ctx.check(_mx(nu - (y - h @ pred_x)) <= t_nu, "innovation-ne-y-minus-Hx", f"step {k}: innovation differs from y - H pred_x by {_mx(nu - (y - h @ pred_x)):.3e} "
                  f"(bound {t_nu:.3e})", w, mon="post_identity")
        t_x_id = C_TOL * (m + 2) * EPS * (float(np.linalg.norm(pred_x)) + _n2(kk) * float(np.linalg.norm(nu)))
        ctx.check(_mx(est_x - (pred_x + kk @ nu)) <= t_x_id, "estimate-ne-prior-plus-K-nu", f"step {k}: est_x differs from pred_x + K nu by {_mx(est_x - (pred_x + kk @ nu)):.3e}",
                  w, mon="post_identity")
        # pred_p - est_p = K S K^T: PSD up to the rounding of S (bound t_s) seen through the filter's own gain
        lam_d = kf.min_eig_sym(pred_p - est_p)
        nkf2 = _n2(kk) ** 2
        fl_d = t_id + asym_pp + nkf2 * (t_s + kf.asym(ss))
        ctx.check(lam_d >= -fl_d, "posterior-exceeds-prior", f"step {k}: pred_p - est_p has eigenvalue {lam_d:.3e} (floor {-fl_d:.3e})", w, mon="post_le_prior")
        _chk_cov(ctx, w, f"step {k}: est_p", est_p, max(t_p, t_id), K_STALE if stale else None,
                 sym_tol=4.0 * (t_id + asym_pp + nkf2 * kf.asym(ss)), decided=dec_post or not stale)
        # ---- result objects / forecast ------------------------------------------------------------
        if do_rt:
            try:
                f2 = st.make_ukf(x0, p0, st.linear_dynamics(fm), q, resample, alpha, beta, kappa)
                f2.applyFilterResult(pres)
                obs2 = [st.linear_observation(hh, rr, yy, f"o{j}_") for j, (hh, rr, yy) in enumerate(zip(hs, rs, ys))]
                f2.forecast(obs2)
                fc_ok = np.array_equal(np.array(f2.est_p), est_p) and np.array_equal(np.array(f2.est_x), x_prev)
                f3 = st.make_ukf(x0, p0, st.linear_dynamics(fm), q, resample, alpha, beta, kappa)
                f3.applyFilterResult(pres)
                f3.update(obs2)
                rt_ok = np.array_equal(np.array(f3.est_p), est_p) and np.array_equal(np.array(f3.est_x), est_x)
                ures = f.getUpdateResult()
                f4 = st.make_ukf(x0, p0, st.linear_dynamics(fm), q, resample, alpha, beta, kappa)
                f4.applyFilterResult(pres)
                f4.applyFilterResult(ures)
                ap_ok = np.array_equal(np.array(f4.est_p), est_p) and np.array_equal(np.array(f4.est_x), est_x) and np.array_equal(np.array(f4.pred_p), pred_p)
            except Exception as e:  # noqa: BLE001
                ctx.check(False, f"result-roundtrip-raised-{type(e).__name__}", f"step {k}: applying filter results raised {e!r}"[:300], w, mon="result_roundtrip")
            else:
                ctx.check(bool(fc_ok), "forecast-inconsistent", f"step {k}: forecast() on a filter restored from the predict result gives a different est_p "
                          "than update(), or touched est_x", w, mon="result_roundtrip")
                ctx.check(bool(rt_ok), "result-roundtrip", f"step {k}: predict result applied to a fresh filter + update does not reproduce the posterior bit for bit", w, mon="result_roundtrip")
                ctx.check(bool(ap_ok), "result-apply", f"step {k}: update result applied to a fresh filter does not carry the posterior", w, mon="result_roundtrip")
    return stats


def _chk_cov(ctx, w, name, a, tol, key_override, sym_tol=None, decided=True):
    sym_tol = tol if sym_tol is None else sym_tol
    asym = kf.asym(a)
    ctx.check(asym <= sym_tol, key_override or "cov-asymmetric", f"{name} is asymmetric by {asym:.3e} (bound {sym_tol:.3e})", w, mon="cov_sym_psd")
    if not np.all(np.isfinite(a)):
        ctx.check(False, key_override or "cov-not-finite", f"{name} has non-finite entries", w, mon="cov_sym_psd")
        return
    lam = kf.min_eig_sym(a)
    floor = -(tol + 8 * a.shape[0] * EPS * _n2(a))
    if decided:
        ctx.check(lam >= floor, key_override or "cov-not-psd", f"{name} has eigenvalue {lam:.3e} below the rounding floor {floor:.3e} (norm {_n2(a):.3e})", w, mon="cov_sym_psd")


def _track(ctx, name, err, unit):
    """Calibration record: worst error / first-order bound seen (before the constant C_TOL)."""
    if unit > 0 and math.isfinite(err):
        r = err / unit
        cur = ctx.extra.setdefault("_calib", {})
        if r > cur.get(name, 0.0):
            cur[name] = r


def chk_noise(ctx, rng, only=None):
    from resonaate.physics import noise

    for fn, nm in ((noise.discreteWhiteNoise, "discrete"), (noise.continuousWhiteNoise, "continuous"), (noise.simpleNoise, "simple")):
        if only is not None and only["fn"] != nm:
            continue
        dt = float(10 ** rng.uniform(-2, 4)) if only is None else only["dt"]
        mag = float(10 ** rng.uniform(-14, 0)) if only is None else only["mag"]
        qm = np.array(fn(dt, mag), dtype=float)
        w = {"kind": "noise", "fn": nm, "dt": dt, "mag": mag}
        ok = qm.shape == (6, 6) and kf.asym(qm) == 0.0 and kf.min_eig_sym(qm) >= -16 * 6 * EPS * _n2(qm)
        ctx.check(bool(ok), "noise-q-not-psd", f"{nm}WhiteNoise({dt}, {mag}) is not symmetric PSD (min eig {kf.min_eig_sym(qm):.3e}, norm {_n2(qm):.3e})", w, mon="noise_q_valid")


# ---------------------------------------------------------------------------------------------
def _finish_case(ctx, spec, stats, idx):
    nontrivial = stats["pred_undecided"] == 0 and stats["pred_decided"] > 0 and (stats["post_decided"] > 0 or stats["noobs"] > 0) and stats["post_decided"] > 0
    key = (spec["n"], spec["alpha"], spec["beta"], spec["kappa"], spec["resample"], tuple(spec["x0"]), len(spec["steps"]))
    smp = None
    if idx % 211 == 0:
        smp = {"n": spec["n"], "alpha": spec["alpha"], "beta": spec["beta"], "kappa": spec["kappa"], "resample": spec["resample"], "F": spec["fkind"],
               "Q": spec["qkind"], "steps": len(spec["steps"]), "obs_per_step": [[len(o["y"]) for o in s["obs"]] for s in spec["steps"]][:8],
               "decided": dict(stats)}
    ctx.case(key, nontrivial=bool(nontrivial), sample=smp)
    ctx.count("steps_total", len(spec["steps"]))
    ctx.count("update_steps_decided", stats["post_decided"])
    ctx.count("sequences_resample" if spec["resample"] else "sequences_noredraw")
    ctx.add_to_set("state_dims", spec["n"])
    ctx.add_to_set("kappa_kinds", str(spec["kappa"]) if spec["kappa"] in (None, 0.0, 1.0) else "3-n")


def chk_sigma_span(ctx, rng, only=None):
    """Postcondition on the real ``generateSigmaPoints``: the 2n+1 points are the mean and mean +- gamma * s_i with
    sum_i s_i s_i^T = cov.  Covers positive-definite covariances and, with the library's documented fallback switched on
    (debugging.NearestPD), positive semi-definite singular ones (the property admits semi-definite covariances)."""
    import os
    import shutil
    import tempfile

    from resonaate.common.behavioral_config import BehavioralConfig

    if only is None:
        n = int(rng.integers(1, 7))
        rank = n if rng.random() < 0.5 else int(rng.integers(1, n + 1))
        a = rng.normal(size=(n, rank)) * 10.0 ** rng.uniform(-3, 2)
        cov = a @ a.T
        if rank == n and rng.random() < 0.3:
            cov = np.diag(np.diag(cov))
        w = {"kind": "sigma_span", "n": n, "rank": rank, "cov": cov.tolist(), "mean": (rng.normal(size=n) * 100.0).tolist(), "alpha": float(rng.choice([1e-3, 0.1, 1.0])), "kappa": float(rng.choice([0.0, 1.0, 3.0 - n]))}
    else:
        w = only
    n, cov, mean = w["n"], np.array(w["cov"], dtype=float), np.array(w["mean"], dtype=float)
    if n + w["kappa"] <= 0:
        w["kappa"] = 0.0
    f = st.make_ukf(mean, np.eye(n), st.linear_dynamics(np.eye(n)), np.zeros((n, n)), True, w["alpha"], 2.0, w["kappa"])
    dbg = BehavioralConfig.getConfig().debugging
    old = (dbg.NearestPD, dbg.OutputDirectory)
    d = tempfile.mkdtemp(prefix="rvmon-c06-")
    fallback = False
    try:
        try:
            np.linalg.cholesky(cov)
        except np.linalg.LinAlgError:
            fallback = True
        dbg.NearestPD, dbg.OutputDirectory = True, os.path.join(d, "debugging")
        try:
            sp = np.array(f.generateSigmaPoints(mean, cov), dtype=float)
        except np.linalg.LinAlgError:
            ctx.count("sigma_span_fallback_raised")
            return
    finally:
        dbg.NearestPD, dbg.OutputDirectory = old
        shutil.rmtree(d, ignore_errors=True)
    g = float(f.gamma)
    ok_shape = sp.shape == (n, 2 * n + 1)
    ctx.check(ok_shape, "sigma-points-shape", f"generateSigmaPoints returned shape {sp.shape} for n={n}", w, mon="sigma_span")
    if not ok_shape:
        return
    plus, minus = (sp[:, 1:n + 1] - mean[:, None]) / g, (sp[:, n + 1:] - mean[:, None]) / g
    scale = max(_n2(cov), 1e-300)
    # dividing the stored points by gamma again costs eps*|mean|/gamma per component; the nearest-PD substitute moves cov by ~1e-15 |cov|
    slack = 64 * n * EPS * (scale + float(np.linalg.norm(mean)) ** 2 / (g * g) + float(np.linalg.norm(mean)) * math.sqrt(scale) / g) + (1e-12 * scale if fallback else 0.0)
    err = _mx(plus @ plus.T - cov)
    ctx.check(np.array_equal(sp[:, 0], mean) and _mx(plus + minus) <= 64 * EPS * (math.sqrt(scale) + float(np.linalg.norm(mean)) / g) and err <= slack,
              "sigma-points-do-not-span-cov" + ("-nearest-pd-fallback" if fallback else ""),
              f"n={n} rank={w['rank']}: sum of (sigma_i - mean)(sigma_i - mean)^T / gamma^2 differs from the covariance by {err:.3e} (allowed {slack:.3e}, |cov|={scale:.3e}; "
              f"nearest-PD fallback used: {fallback}); symmetric pairs differ by {_mx(plus + minus):.3e}", w, mon="sigma_span")
    if fallback:
        ctx.count("sigma_span_cases_through_nearest_pd_fallback")


def run(ctx):
    rng = ctx.rng("c06")
    for _ in range(ctx.scale(300, 20_000)):
        chk_sigma_span(ctx, rng)
    if ctx.shard == 0:
        for i, spec in enumerate(edge_sequences()):
            _finish_case(ctx, spec, run_sequence(ctx, spec), 1 + i)
    for _ in range(ctx.scale(200, 4000)):
        chk_noise(ctx, rng)
    total = ctx.scale(3000, 300_000)
    for i in range(total):
        if ctx.time_left() < 8:
            ctx.note("stopped_by_budget", True)
            break
        spec = gen_sequence(rng, ctx.quick)
        stats = run_sequence(ctx, spec)
        _finish_case(ctx, spec, stats, i)
    cal = ctx.extra.pop("_calib", {})
    ctx.add_to_set("calibration_worst_error_over_first_order_bound", f"shard {ctx.shard}: " + ", ".join(f"{k}={v:.3g}" for k, v in sorted(cal.items())) + f" (C_TOL={C_TOL})")


def replay(ctx, w):
    if w.get("kind") == "sigma_span":
        chk_sigma_span(ctx, np.random.default_rng(0), only=w)
        return
    if w.get("kind") == "noise":
        chk_noise(ctx, np.random.default_rng(0), only=w)
        return
    run_sequence(ctx, w)
