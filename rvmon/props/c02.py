"""C02 - reported observations satisfy all sensor constraints; misses state a true reason.

Deciding monitor: a postcondition on the real ``Sensor.collectObservations`` (wrapped at class level, OLD snapshot of
boresight, time_last_tasked, host state and epoch) on real ``SensingAgent`` / ``TargetAgent`` objects built through
``SensingAgent.fromConfig`` / ``TargetAgent.fromConfig``.  The oracle (section 1) evaluates every constraint
independently from refs/geomref.py + refs/ephemref.py; only the ECI->ECEF rotation matrix is taken from the repository
(``ReductionParams`` at the harness' own datetime; its correctness is C04's subject).

Two workloads feed the same postcondition: the DIRECT mode (sections 4-6: agents driven one call at a time, targets placed by
construction at every constraint boundary) and the SCENARIO mode (section 7: real multi-step ``Scenario`` runs on the ray stand-in;
the class-level wrapper sees the calls made inside the task-execution jobs, and additionally checks what the tasking path hands to
the sensor - estimate as commanded pointing, current truth states, background list without the primary - and that the pointing
state a call returns is the state the sensor carries into the next step).
"""

from __future__ import annotations

import math
from datetime import datetime, timedelta

import numpy as np

from ..refs import ephemref as eph
from ..refs import geomref as g

LEVEL = "exploration"
RULE = ("case = one tasked attempt (one call of the real Sensor.collectObservations) inside a generated scene = (start epoch with "
        "non-zero seconds, step, sensor kind optical|radar|adv_radar x ground|space, site incl. |lat| up to 89.9 deg and the antimeridian / "
        "orbit LEO..GEO, azimuth mask incl. wrap [350,10], sliver through north and the full circle [0,2pi], elevation mask, conic / "
        "rectangular FoV 0.1..179 deg, slew rate, range limits, radar link budget, limiting magnitude, noise off (R=1e-20) | realistic "
        "diagonal | realistic correlated, 0-5 background targets). Each attempt has a focus constraint and a side: the primary target "
        "(or the estimate / the prior boresight / the site longitude) is placed by construction just inside or just outside that "
        "constraint's boundary (delta 1e-9..3e-2 of the natural unit beyond the epsilon band; both sides counted in coverage.focus), "
        "at the azimuth seam (due north), near the zenith, or at random; prior boresight anywhere, last-tasked time 0..k steps back. "
        "non-trivial = distinct attempt in which at least one boolean constraint comparison lay outside its epsilon band. "
        "Bands: angles 2e-9 rad / cos(el) conditioning; range 1e-9 km + 3e-11 rho; line of sight 1e-9 km + 1500 eps q (1+rmax/sep)/(2Re); "
        "slew 2e-9 + 3e-16/sin(theta) (arccos conditioning). WIDENED for documented approximations: (a) space sensors: elevation/azimuth "
        "mask, rectangular FoV and Earth-limb bands grow by the actual angle between the geodetic vertical of the sub-satellite point and "
        "the geocentric radial (<= 3.4e-3 rad; x tan(el) for azimuth); (b) Sun exclusion: 2e-3 rad low-precision-Sun model band + "
        "range/|r_sun| parallax (target-to-Sun used instead of sensor-to-Sun); umbra, site darkness: 2e-3 rad (+Re/AU); visual magnitude: "
        "finite difference of the magnitude over +-2e-3 rad of phase angle. "
        "SCENARIO mode (first ~25% of the wall budget): netkit networks (1-4 ground sensors, 1-5 targets, four decision policies, narrow/wide FoV, "
        "slew 0.05..180 deg/s, estimate error 1e-3 or 30 km, background on/off) run for 3-6 steps; case = one collectObservations call made inside a "
        "task-execution job, same postcondition, monitors prefixed scenario_ (not deciding); calls of a sensor with an active time-bias event are skipped")
ASSUME = [
    "the ECI->ECEF rotation matrix rot_wt @ rot_rnp of ReductionParams at the harness' exact datetime is correct (property C04)",
    "constants shared with the repository: ellipsoid (a, e), Earth radius 6378.1363 km, atmosphere 100 km, Sun radius 696000 km, "
    "Sun magnitude -26.74, speed of light, galactic centre RA 17h45m40.04s Dec -29d00m28.1s, cone angles 15 deg (Sun, dusk) and 6 deg",
    "documented models are accepted: spherical Earth for line of sight incl. Vallado Alg. 35 semantics for a site below the sphere, "
    "Montenbruck conical umbra, Lambertian sphere magnitude (Cognion), radar range equation with G = eta (pi D / lambda)^2 and flat-plate "
    "RCS 4 pi A^2 / lambda^2, site darkness measured from the geocentric site vector, SEZ frame of a space sensor built on the geodetic "
    "vertical, FoV about the commanded pointing even when measured about the estimate",
    "Sun direction from Vallado's low-precision series (refs/ephemref.py): measured 1.97e-4 rad worst against the repository's JPL "
    "segments over 2014-2022 (40000 epochs); band 2e-3 rad",
    "azimuth-dependent comparisons are trivial within 1e-6 rad of the local vertical (C14 covers the zenith rule)",
    "elevation_range is 'order independent' as documented in SensorConfigBase: the oracle sorts it",
    "scenario mode: the ray stand-in executes a job in-process on pickled copies (DESIGN 3.3); a scenario run aborted by a diverged filter "
    "(LinAlgError / 'invalid numeric entries') is counted and skipped; with a multi-job sensor (AllVisibleDecision) the carried pointing state "
    "may be that of any of the step's attempts (order dependence is C08's known finding)",
]
SHARDS = {"quick": 4, "thorough": 16}
BUDGET_S = {"quick": 55, "thorough": 540}
DECIDING = ["obs_constraints", "miss_count", "miss_reason", "measurement_exact", "measurement_noise", "pointing_state", "obs_identity"]
MANIFEST = {
    "technique": "runtime monitoring: postcondition with OLD snapshot on the real Sensor.collectObservations, independent geometric / "
                 "photometric / link-budget oracle, boundary-by-construction workload",
    "level_text": "exploration of ~1.4e4 (quick) / ~4e5 (thorough) tasked attempts on real agents + ~3e2 / ~7e3 calls watched inside real Scenario runs",
    "level_note": "booleans compared only outside calibrated epsilon bands; bands widened for the documented approximations only",
}

RE = g.RE
ATM = 100.0
R_LIMB = RE + ATM
R_SUN = 696000.0
SUN_MAG = -26.74
C_LIGHT = 2.99792458e8
TWO_PI = 2 * math.pi
EPS = 2.220446049250313e-16
MU = 398600.4415
_GC_RA = math.radians((17 + 45 / 60 + 40.04 / 3600) * 15.0)
_GC_DEC = -math.radians(29 + 0 / 60 + 28.1 / 3600)
GC = np.array([math.cos(_GC_DEC) * math.cos(_GC_RA), math.cos(_GC_DEC) * math.sin(_GC_RA), math.sin(_GC_DEC)])
SUN_CONE = math.pi / 12
GAL_CONE = math.pi / 30
DUSK = math.pi / 12
SUN_BAND = 2e-3
ANG = 2e-9   # 100x the worst noise-free angular deviation between the two SEZ chains (2.1e-11 rad over 1.2e5 targets)
BIG = 1e9

REASONS = {
    "Minimum Range": "min_range", "Maximum Range": "max_range", "Line of Sight": "los", "Azimuth Mask": "azimuth",
    "Elevation Mask": "elevation", "Visual Magnitude": "vismag", "Solar Flux": "flux", "Limb of the Earth": "limb",
    "Space Sensor Illumination": "sun_excl", "Ground Sensor Illumination": "dark", "Radar Sensitivity - Max Range": "radar",
    "Field of View": "fov", "Slew Rate/Distance to Target": "slew", "Galactic Exclusion Zone": "galactic",
}
CLASS_OF = {"optical": "Optical", "radar": "Radar", "adv_radar": "AdvRadar"}


# =============================================================================================
# 1. independent oracle
# =============================================================================================
def jd_of(t: datetime) -> float:
    return 2451545.0 + (t - datetime(2000, 1, 1, 12)).total_seconds() / 86400.0


def status(m, band):
    return 1 if m > band else (-1 if m < -band else 0)


class Params:
    """Sensor parameters read from the *configuration dict* (never from the sensor object)."""

    def __init__(self, cfg, full_az=False):
        s = cfg["sensor"]
        self.kind = s["type"]
        self.space = cfg["platform"]["type"] == "spacecraft"
        self.az = [math.radians(x) for x in s["azimuth_range"]]
        if full_az:
            self.az = [0.0, TWO_PI]
        el = [math.radians(x) for x in s["elevation_range"]]
        self.el_reversed = el[0] > el[1]
        self.el = sorted(el)
        self.fov = dict(s.get("field_of_view") or {"fov_shape": "rectangular", "azimuth_angle": 1.0, "elevation_angle": 1.0})
        if self.fov["fov_shape"] == "conic":
            self.fov.setdefault("cone_angle", 1.0)
        else:
            self.fov.setdefault("azimuth_angle", 1.0)
            self.fov.setdefault("elevation_angle", 1.0)
        self.slew = math.radians(s["slew_rate"])
        self.background = bool(s.get("background_observations", False))
        self.max_range = float(s.get("maximum_range", math.inf))
        mr = s.get("minimum_range")
        if self.kind == "optical":
            self.min_range = 0.0 if mr is None else float(mr)
            self.vismag = float(s.get("detectable_vismag", 25.0))
        else:
            self.freq = float(s["tx_frequency"])
            self.min_range = (C_LIGHT / self.freq / 2.0) * 1e-3 if mr is None else float(mr)
            self.tx_power, self.diam, self.eff = float(s["tx_power"]), float(s["aperture_diameter"]), float(s["efficiency"])
            self.pmin = float(s["min_detectable_power"])
        self.R = np.array(s["covariance"], dtype=float)
        self.noise_off = float(np.max(np.abs(self.R))) < 1e-15

    def constraints(self, primary):
        c = ["min_range", "max_range", "los", "elevation", "azimuth", "fov"]
        if primary:
            c.append("slew")
        if self.kind == "optical":
            c += ["flux", "vismag", "galactic"] + (["sun_excl", "limb"] if self.space else ["dark"])
        else:
            c.append("radar")
        return c

    def radar_log_margin(self, rho_km, vcs):
        """ln(P_received / P_min) / 4 from the radar range equation (written from the definition)."""
        lam = C_LIGHT / self.freq
        gain = self.eff * (math.pi * self.diam / lam) ** 2
        rcs = 4 * math.pi * vcs * vcs / (lam * lam)
        r_m = rho_km * 1000.0
        if rcs <= 0:
            return -BIG
        p_rx = self.tx_power * gain * gain * lam * lam * rcs / ((4 * math.pi) ** 3 * r_m ** 4)
        return 0.25 * math.log(p_rx / self.pmin)

    def radar_max_range(self, vcs):
        return math.exp(self.radar_log_margin(1.0, vcs))


class Frame:
    """Independent local frame of one sensor state at one epoch (M = repository ECI->ECEF rotation)."""

    def __init__(self, M, sen_eci):
        sen_eci = np.asarray(sen_eci, dtype=float)
        self.rs, self.vs = sen_eci[:3].copy(), sen_eci[3:].copy()
        self.rs_n = float(np.linalg.norm(self.rs))
        s_ecef = M @ self.rs
        self.lat, self.lon, self.alt = g.geodetic_from_ecef(s_ecef)
        self.B = g.sez_basis(self.lat, self.lon)
        self.T = self.B @ M
        self.defl = g.angle3(self.B[2], s_ecef)
        self.axis_dist = math.hypot(s_ecef[0], s_ecef[1])

    def sez(self, r_eci):
        return self.T @ (np.asarray(r_eci[:3], dtype=float) - self.rs)

    def eci_of_sez(self, rho_sez):
        return self.rs + self.T.T @ np.asarray(rho_sez, dtype=float)

    def eci_of_azel(self, az, el, rho):
        return self.eci_of_sez(g.sez_from_azel(az, el, rho))


def los_eval(rt, rs):
    """(status, margin km) of the documented line-of-sight rule (target rt, sensor rs)."""
    q = float(rt @ rt + rs @ rs)
    rmax = math.sqrt(max(float(rt @ rt), float(rs @ rs)))
    sep = float(np.linalg.norm(rt - rs))
    if sep <= 3e-7 * rmax:
        return 0, 0.0
    band = 1e-9 + 1500 * EPS * q * (1.0 + rmax / sep) / (2 * RE)
    tb = 1e-9 + 1500 * EPS * q / (sep * sep)
    tpar = g.line_closest_param(rt, rs)
    if tpar < -tb or tpar > 1 + tb:
        return 1, BIG
    if tb < tpar < 1 - tb:
        m = float(np.linalg.norm(rt + tpar * (rs - rt))) - RE
        return status(m, band), m
    dm = g.segment_min_distance(rt, rs) - RE
    return (1, dm) if dm > band else (0, dm)


def mask_az_margin(az, lo, hi):
    width = hi - lo if lo <= hi else hi - lo + TWO_PI
    if width >= TWO_PI:
        return math.pi
    off = (az - lo) % TWO_PI
    if off <= width:
        return min(off, width - off)
    return -min(off - width, TWO_PI - off)


def vismag_of(vcs, refl, phi, rho):
    f = 2.0 * ((math.pi - phi) * math.cos(phi) + math.sin(phi)) / (3.0 * math.pi ** 2)
    x = vcs * 1e-6 * refl * f / (rho * rho)
    if x <= 0:
        return math.inf
    return SUN_MAG - 2.5 * math.log10(x)


def fov_eval(P, sez_t, sez_p, defl):
    """(status, margin, seam) of the FoV test of direction sez_t about the pointing sez_p."""
    if P.fov["fov_shape"] == "conic":
        ang = g.angle3(sez_t, sez_p)
        m = math.radians(P.fov["cone_angle"]) / 2 - ang
        return status(m, ANG + 3e-16 / max(math.sin(ang), 1e-8)), m, False
    az_t, el_t, h_t = g.azel_stable(sez_t)
    az_p, el_p, h_p = g.azel_stable(sez_p)
    m_el = math.radians(P.fov["elevation_angle"]) / 2 - abs(el_t - el_p)
    b_el = 2 * ANG + 3e-16 / max(h_t, 1e-8) + 3e-16 / max(h_p, 1e-8) + 2 * defl
    s_el = status(m_el, b_el)
    if min(h_t, h_p) < 1e-6:
        s_az, m_az, seam = 0, 0.0, False
    else:
        m_az = math.radians(P.fov["azimuth_angle"]) / 2 - abs(g.wrap_pm_pi(az_t - az_p))
        b_az = ANG / h_t + ANG / h_p + defl * (2 + math.sqrt(1 - h_t * h_t) / h_t + math.sqrt(1 - h_p * h_p) / h_p)
        s_az = status(m_az, b_az)
        seam = abs(az_t - az_p) > math.pi
    if s_az > 0 and s_el > 0:
        return 1, min(m_az, m_el), seam
    if s_az < 0 or s_el < 0:
        return -1, min(m_az, m_el), seam
    return 0, min(m_az, m_el), seam


def evaluate(frame, P, tgt_eci, vcs, refl, sez_p, sun, slew=None):
    """Independent evaluation of every constraint for one target: {name: (status, margin)} + geometry."""
    rt = np.asarray(tgt_eci[:3], dtype=float)
    d = rt - frame.rs
    rho = float(np.linalg.norm(d))
    sez = frame.T @ d
    az, el, h = g.azel_stable(sez)
    defl = frame.defl if P.space else 0.0
    out = {}
    rb = 1e-9 + 3e-11 * rho   # 100x the worst observed range deviation (2.8e-13 relative, 2.9e-11 km absolute)
    out["min_range"] = (status(rho - P.min_range, rb), rho - P.min_range)
    out["max_range"] = (1, BIG) if math.isinf(P.max_range) else (status(P.max_range - rho, rb), P.max_range - rho)
    out["los"] = los_eval(rt, frame.rs)
    m = min(el - P.el[0], P.el[1] - el)
    out["elevation"] = (status(m, ANG + 3e-16 / max(h, 1e-8) + defl), m)
    if h < 1e-6:
        out["azimuth"] = (1, math.pi) if mask_az_margin(0.0, *P.az) >= math.pi else (0, 0.0)
    else:
        m = mask_az_margin(az, *P.az)
        out["azimuth"] = (status(m, ANG / h + defl * (1 + math.sqrt(max(1 - h * h, 0.0)) / h)), m)
    s, m, seam = fov_eval(P, sez, sez_p, defl)
    out["fov"] = (s, m)
    if slew is not None:
        bore_old, budget = slew
        th = g.angle3(bore_old, sez_p)
        m = budget - th
        out["slew"] = (status(m, ANG + 1e-12 * abs(budget) + 3e-16 / max(math.sin(th), 1e-8)), m)
    if P.kind != "optical":
        m = P.radar_log_margin(rho, vcs)
        out["radar"] = (status(m, 1e-9), m)
    else:
        sat_sun = sun - rt
        dss = float(np.linalg.norm(sat_sun))
        if float(np.linalg.norm(sun)) >= dss:
            out["flux"] = (1, BIG)
        else:
            a = math.asin(R_SUN / dss)
            b = math.asin(min(1.0, RE / float(np.linalg.norm(rt))))
            c = g.angle3(-rt, sat_sun)
            out["flux"] = (status(c - (b - a), SUN_BAND), c - (b - a))
        phi = g.angle3(sat_sun, frame.rs - rt)
        mv = vismag_of(vcs, refl, phi, rho)
        mvs = [vismag_of(vcs, refl, min(math.pi, max(0.0, phi + dp)), rho) for dp in (-SUN_BAND, SUN_BAND)]
        if all(math.isfinite(x) for x in [mv, *mvs]):
            out["vismag"] = (status(P.vismag - mv, 1e-6 + max(abs(x - mv) for x in mvs)), P.vismag - mv)
        else:
            out["vismag"] = (-1, -BIG) if not math.isfinite(mv) and phi < math.pi - 2 * SUN_BAND else (0, 0.0)
        m = g.angle3(d, GC) - GAL_CONE
        out["galactic"] = (status(m, ANG), m)
        if P.space:
            m = g.angle3(d, sun - frame.rs) - SUN_CONE
            out["sun_excl"] = (status(m, SUN_BAND + rho / float(np.linalg.norm(sun))), m)
            if frame.rs_n > R_LIMB:
                m = g.angle3(d, -frame.rs) - math.asin(R_LIMB / frame.rs_n)
                out["limb"] = (status(m, ANG + defl), m)
            else:
                out["limb"] = (0, 0.0)
        else:
            m = g.angle3(sun, frame.rs) - (math.pi / 2 + DUSK)
            out["dark"] = (status(m, SUN_BAND + RE / float(np.linalg.norm(sun))), m)
    rel_v = np.asarray(tgt_eci[3:], dtype=float) - frame.vs
    geom = {"az": az, "el": el, "h": h, "rho": rho, "rr": float(d @ rel_v) / rho, "seam": seam}
    return out, geom


# =============================================================================================
# 2. real objects: monitor wrapper, scene construction, one attempt
# =============================================================================================
_TRACE: list = []
_ENV: dict = {}
_SCN: dict = {}
_CAL = {"az": 0.0, "el": 0.0, "rho": 0.0, "rr": 0.0, "maha": 0.0, "bore": 0.0}


def _setup():
    if _ENV:
        return
    from .. import scenario_kit as sk

    sk.init()
    from resonaate.sensors.sensor_base import Sensor

    orig = Sensor.collectObservations

    def monitored(self, estimate_eci, target_agent, background_agents):
        host = self.host
        old = {"boresight": np.array(self.boresight, dtype=float, copy=True), "t_last": float(self.time_last_tasked),
               "host_eci": np.array(host.eci_state, dtype=float, copy=True), "host_time": float(host.time),
               "epoch": host.datetime_epoch, "jd": float(host.julian_date_epoch)}
        watch = _SCN.get("watch")
        try:
            res = orig(self, estimate_eci, target_agent, background_agents)
        except Exception as e:  # noqa: BLE001
            if watch is not None:
                watch.on_raise(self, target_agent, e)
            raise
        if watch is None:
            _TRACE.append((old, res))
        else:
            try:     # a monitor never raises into the code it observes
                watch.on_call(self, old, estimate_eci, target_agent, background_agents, res)
            except Exception:  # noqa: BLE001
                import traceback

                watch.harness_error(traceback.format_exc()[-800:])
        return res

    monitored._c02 = True  # noqa: SLF001
    if not getattr(orig, "_c02", False):
        Sensor.collectObservations = monitored
    _ENV["ok"] = True


def _direct_db():
    """(Re)connect the per-process database the direct mode's ScenarioClock objects need (sk.build/teardown clear it)."""
    from .. import scenario_kit as sk
    from resonaate.data import clearDBPath, setDBPath

    try:
        clearDBPath()
    except Exception:  # noqa: BLE001
        pass
    sk._drop_db_cache()  # noqa: SLF001
    setDBPath("sqlite:///" + sk.new_db_path("c02"))
    _ENV["db"] = True


def _rot(t: datetime):
    from resonaate.physics.transforms.reductions import ReductionParams

    red = ReductionParams.build(t)
    return np.asarray(red.rot_wt) @ np.asarray(red.rot_rnp)


class Scene:
    """Real clock, SensingAgent and TargetAgents built through the repository's factories."""

    def __init__(self, desc):
        _setup()
        from resonaate.agents.sensing_agent import SensingAgent
        from resonaate.agents.target_agent import TargetAgent
        from resonaate.dynamics import dynamicsFactory
        from resonaate.scenario.clock import ScenarioClock
        from resonaate.scenario.config import GeopotentialConfig, PerturbationsConfig, PropagationConfig
        from resonaate.scenario.config.agent_config import AgentConfig, SensingAgentConfig

        if not _ENV.get("db"):
            _direct_db()
        self.desc = desc
        self.start = datetime.fromisoformat(desc["start"])
        self.dt = desc["dt"]
        self.clock = ScenarioClock(self.start, float(desc["nsteps"] * desc["dt"]), float(desc["dt"]))
        self.prop = PropagationConfig(propagation_model="two_body", integration_method="RK45", station_keeping=False,
                                      target_realtime_propagation=True, sensor_realtime_propagation=True, truth_simulation_only=True)
        self.geo, self.per = GeopotentialConfig(), PerturbationsConfig()
        scfg = SensingAgentConfig(**desc["sensor_cfg"])
        dyn = dynamicsFactory(scfg, self.prop, self.geo, self.per, self.clock)
        self.sa = SensingAgent.fromConfig(sen_cfg=scfg, clock=self.clock, dynamics=dyn, prop_cfg=self.prop)
        if desc.get("full_az"):
            self.sa.sensors.az_mask = np.array([0.0, TWO_PI])   # public setter: the full circle is not expressible in the config
        self.P = Params(desc["sensor_cfg"], full_az=bool(desc.get("full_az")))
        self.x0 = np.array(self.sa.eci_state, dtype=float, copy=True)
        self._states = {0: self.x0}
        self._AgentConfig, self._TargetAgent, self._dynamicsFactory = AgentConfig, TargetAgent, dynamicsFactory
        self.tas = []
        self._frames = {}

    def sensor_state(self, k):
        if k not in self._states:
            from resonaate.physics.time.stardate import ScenarioTime

            self._states[k] = np.array(self.sa.dynamics.propagate(ScenarioTime(0.0), ScenarioTime(float(k * self.dt)), self.x0), dtype=float)
        return self._states[k]

    def epoch(self, t):
        return self.start + timedelta(seconds=t)

    def frame(self, t, sen_eci):
        key = (t, tuple(float(x) for x in sen_eci[:3]))
        f = self._frames.get(key)
        if f is None:
            ep = self.epoch(t)
            f = Frame(_rot(ep), sen_eci)
            f.sun = eph.sun_j2000(jd_of(ep))
            self._frames[key] = f
        return f

    def build_targets(self, tdescs):
        """tdescs: [{id, vcs, refl, eci0}] (primary first)."""
        from .. import scenario_kit as sk

        self.tdescs = tdescs
        for td in tdescs:
            c = sk.target_cfg(td["id"], td["eci0"][:3], td["eci0"][3:])
            c["platform"]["visual_cross_section"] = td["vcs"]
            c["platform"]["reflectivity"] = td["refl"]
            tcfg = self._AgentConfig(**c)
            dyn = self._dynamicsFactory(tcfg, self.prop, self.geo, self.per, self.clock)
            self.tas.append(self._TargetAgent.fromConfig(tgt_cfg=tcfg, clock=self.clock, dynamics=dyn, prop_cfg=self.prop))


def run_attempt(ctx, scene, att, first=False):
    """Drive one real collectObservations call and evaluate its postcondition."""
    from resonaate.physics.time.stardate import ScenarioTime

    sa, sensor = scene.sa, scene.sa.sensors
    t = float(att["t"])
    sa.time = ScenarioTime(t)
    sa.eci_state = np.array(att["sen_eci"], dtype=float)
    for ta, tg in zip(scene.tas, att["targets"]):
        ta.time = ScenarioTime(t)
        if not first:
            ta.eci_state = np.array(tg, dtype=float)
    sensor.boresight = np.array(att["bore"], dtype=float)
    sensor.time_last_tasked = ScenarioTime(float(att["t_last"]))
    np.random.seed(int(att["np_seed"]))
    w = {"kind": "attempt", "scene": scene.desc, "targets": scene.tdescs, "attempt": att}
    _TRACE.clear()
    try:
        res = sensor.collectObservations(np.array(att["est"], dtype=float), scene.tas[0], list(scene.tas[1:]))
    except Exception as e:  # noqa: BLE001
        ctx.check(False, "collect-raises-" + type(e).__name__, f"collectObservations raised {type(e).__name__}: {e}", w, mon="obs_identity")
        return False
    if len(_TRACE) != 1:
        ctx.inconclusive_because("collectObservations wrapper was bypassed")
        return False
    old, _ = _TRACE.pop()
    return postcondition(ctx, scene, att, old, res, w)


# =============================================================================================
# 3. the postcondition
# =============================================================================================
_CHI2 = {}


def _chi2_thr(n):
    if n not in _CHI2:
        from scipy.stats import chi2

        _CHI2[n] = float(chi2.isf(1e-12, n))
    return _CHI2[n]


def _fmt(ev):
    return {k: [s, (round(m, 12) if abs(m) < BIG else "inf")] for k, (s, m) in ev.items()}


def postcondition(ctx, scene, att, old, res, w):
    P = scene.P
    t = float(att["t"])
    ep = scene.epoch(t)
    obs_list, miss_list, ret_bore, ret_tlast = res
    sensor = scene.sa.sensors
    # the OLD snapshot is what the oracle uses for the host state; it must be the state the harness installed
    if old["epoch"] != ep or not np.array_equal(old["host_eci"], np.array(att["sen_eci"], dtype=float)):
        ctx.inconclusive_because("OLD snapshot differs from the installed host state/epoch")
        return False
    frame = scene.frame(t, old["host_eci"])
    sun = frame.sun
    sez_p = frame.sez(np.array(att["est"], dtype=float))
    budget = P.slew * (t - old["t_last"])
    ids = [td["id"] for td in scene.tdescs]
    evals = {}
    for i, td in enumerate(scene.tdescs):
        evals[td["id"]] = evaluate(frame, P, np.array(att["targets"][i], dtype=float), td["vcs"], td["refl"], sez_p, sun,
                                   slew=(old["boresight"], budget) if i == 0 else None)
    prim = ids[0]
    ev_p, geo_p = evals[prim]
    slew_s = ev_p["slew"][0]
    nontrivial = False
    sid = scene.desc["sensor_cfg"]["id"]

    # ---- identity of everything returned ------------------------------------------------------
    jd_exp = jd_of(ep)
    seen = set()
    ok_ident, why = True, ""
    for o in list(obs_list) + list(miss_list):
        if o.target_id not in evals:
            ok_ident, why = False, f"record for unknown target {o.target_id}"
        elif int(o.sensor_id) != sid or o.sensor_type != CLASS_OF[P.kind]:
            ok_ident, why = False, f"record carries sensor {o.sensor_id}/{o.sensor_type}, expected {sid}/{CLASS_OF[P.kind]}"
        elif abs(float(o.julian_date) - jd_exp) > 2e-9:
            ok_ident, why = False, f"record epoch JD {float(o.julian_date)!r} but the attempt is at {ep.isoformat()} = JD {jd_exp!r}"
        elif not np.array_equal(np.asarray(o.sensor_eci, dtype=float), old["host_eci"]):
            ok_ident, why = False, "record sensor_eci differs from the host state at the call"
    for o in obs_list:
        if o.target_id in seen:
            ok_ident, why = False, f"two observations of target {o.target_id} in one attempt"
        seen.add(o.target_id)
        if (P.kind == "optical") != (o.range_km is None) or (P.kind == "optical") != (o.range_rate_km_p_sec is None):
            ok_ident, why = False, f"{P.kind} observation has range={o.range_km} range_rate={o.range_rate_km_p_sec}"
    ctx.check(ok_ident, "record-identity", why, w, mon="obs_identity")
    if not ok_ident:
        return False

    # ---- every reported observation satisfies every constraint ---------------------------------
    for o in obs_list:
        tid = int(o.target_id)
        ev, geo = evals[tid]
        is_prim = tid == prim
        for c in P.constraints(is_prim):
            s, m = ev[c]
            if s == 0:
                continue
            nontrivial = True
            ctx.count(f"obs_checked_{c}")
            key = f"obs-violates-{c}"
            if c == "elevation" and P.el_reversed:
                key = "obs-violates-elevation-mask-reversed-order"
            ctx.check(s > 0, key, f"{'tasked' if is_prim else 'serendipitous'} observation of target {tid} reported although constraint "
                      f"'{c}' fails by independent evaluation (margin {m:.6g}; az {math.degrees(geo['az']):.6f} el {math.degrees(geo['el']):.6f} deg "
                      f"range {geo['rho']:.6f} km); all margins: {_fmt(ev)}", w, mon="obs_constraints")
        if not is_prim and slew_s != 0:
            nontrivial = True
            ctx.check(slew_s > 0, "serendipitous-obs-without-slew",
                      f"serendipitous observation of target {tid} reported in the field of view about the commanded pointing although the sensor "
                      f"could not slew there: angle(OLD boresight, pointing) exceeds slew_rate*(t-t_last)={budget:.6g} rad by {-ev_p['slew'][1]:.6g} rad; "
                      "the boresight was left unchanged", w, mon="obs_constraints")
        if not P.background and not is_prim:
            ctx.check(False, "serendipitous-obs-background-off", f"observation of background target {tid} although background_observations is off", w, mon="obs_constraints")

    # ---- exactly one miss iff no observation of the primary -------------------------------------
    n_prim = sum(1 for o in obs_list if int(o.target_id) == prim)
    ok = len(miss_list) == 1 - n_prim and all(int(m_.target_id) == prim for m_ in miss_list)
    ctx.check(ok, "miss-count", f"tasked attempt produced {n_prim} observation(s) of the primary target and {len(miss_list)} miss record(s) "
              f"(targets {[int(m_.target_id) for m_ in miss_list]}, primary {prim})", w, mon="miss_count")
    reason_txt = "Visible"
    for ms in miss_list:
        reason_txt = str(ms.reason)
        c = REASONS.get(reason_txt)
        if c is None or c not in P.constraints(True):
            ctx.check(False, "miss-reason-not-applicable", f"miss reason {reason_txt!r} is not a constraint of a {P.kind} "
                      f"{'space' if P.space else 'ground'} sensor", w, mon="miss_reason")
            continue
        s, m = ev_p[c]
        if s == 0:
            ctx.count("miss_reason_in_band")
            continue
        nontrivial = True
        key = f"miss-reason-false-{c}"
        extra = ""
        if c == "fov" and geo_p["seam"] and P.fov["fov_shape"] == "rectangular":
            key = "miss-reason-false-fov-az-seam"
            extra = " [target and pointing azimuths lie on opposite sides of north: the wrapped azimuth difference is inside the FoV]"
        elif c == "elevation" and P.el_reversed:
            key = "miss-reason-false-elevation-mask-reversed-order"
            extra = " [elevation_range configured high-to-low; documented as order independent]"
        az_p_, el_p_, _ = g.azel_stable(sez_p)
        ctx.check(s < 0, key, f"primary target missed with reason {reason_txt!r} but that constraint holds by independent evaluation "
                  f"(margin {m:.6g}; target az {math.degrees(geo_p['az']):.6f} el {math.degrees(geo_p['el']):.6f} deg range {geo_p['rho']:.4f} km; "
                  f"pointing az {math.degrees(az_p_):.6f} el {math.degrees(el_p_):.6f} deg){extra}; all margins: {_fmt(ev_p)}", w, mon="miss_reason")
    ctx.count("outcome_" + reason_txt.replace(" ", "_").replace("/", "_"))
    ctx.count("serendipitous_observations", len(obs_list) - n_prim)

    # ---- pointing state ------------------------------------------------------------------------
    new_bore = np.asarray(sensor.boresight, dtype=float)
    same_ret = np.array_equal(np.asarray(ret_bore, dtype=float), new_bore) and float(ret_tlast) == float(sensor.time_last_tasked)
    if slew_s > 0:
        dev = float(np.linalg.norm(new_bore - g.unit(sez_p)))
        _CAL["bore"] = max(_CAL["bore"], dev)
        ctx.check(same_ret and dev <= 1e-9 and float(sensor.time_last_tasked) == t, "pointing-state-after-slew",
                  f"after a reachable slew the boresight is {dev:.3e} away from the commanded pointing / time_last_tasked={float(sensor.time_last_tasked)} (t={t})",
                  w, mon="pointing_state")
    elif slew_s < 0:
        ctx.check(same_ret and np.array_equal(new_bore, old["boresight"]) and float(sensor.time_last_tasked) == old["t_last"],
                  "pointing-state-after-failed-slew", "boresight / time_last_tasked changed although the commanded pointing was not reachable", w, mon="pointing_state")

    # ---- measurements --------------------------------------------------------------------------
    for o in obs_list:
        ev, geo = evals[int(o.target_id)]
        h = max(geo["h"], 1e-12)
        e = [g.wrap_pm_pi(float(o.azimuth_rad) - geo["az"]), float(o.elevation_rad) - geo["el"]]
        if P.kind != "optical":
            e += [float(o.range_km) - geo["rho"], float(o.range_rate_km_p_sec) - geo["rr"]]
        e = np.array(e)
        if P.noise_off:
            # 10 sigma of the residual noise (sigma 1e-10 => 1e-9) + 100x the worst deterministic deviation of the two independent
            # chains measured with noisy=False on 1.2e5 targets: az*cos(el) 1.6e-11, el 2.1e-11 rad, range 2.8e-13 rel, range rate 1.1e-12 km/s
            tol = [1e-9 + 2e-9 / h, 3e-9 + 3e-16 / max(h, 1e-8), 2e-9 + 3e-11 * geo["rho"], 1e-9 + 1.1e-10]
            if h > 1e-6:
                _CAL["az"] = max(_CAL["az"], abs(e[0]) * h)
            _CAL["el"] = max(_CAL["el"], abs(e[1]) / (1 + 1.5e-7 / max(h, 1e-8)))
            okm = (h < 1e-6 or abs(e[0]) <= tol[0]) and abs(e[1]) <= tol[1]
            if P.kind != "optical":
                _CAL["rho"] = max(_CAL["rho"], abs(e[2]) / (1 + geo["rho"] * 1e-2))
                _CAL["rr"] = max(_CAL["rr"], abs(e[3]))
                okm = okm and abs(e[2]) <= tol[2] and abs(e[3]) <= tol[3]
            ctx.check(okm, "measurement-not-geometry", f"noise-free measurement of target {int(o.target_id)} differs from the independent geometry by "
                      f"(az, el[, range, range rate]) = {e.tolist()} (expected az {geo['az']!r} el {geo['el']!r} range {geo['rho']!r} rr {geo['rr']!r})",
                      w, mon="measurement_exact")
        else:
            if h < 1e-4:
                continue     # azimuth noise is not small against the azimuth's own conditioning this close to the vertical
            d2 = float(e @ np.linalg.solve(P.R, e))
            thr = _chi2_thr(len(e))
            _CAL["maha"] = max(_CAL["maha"], d2 / thr)
            ctx.check(math.sqrt(d2) <= math.sqrt(thr) + 1e-3, "measurement-outside-noise",
                      f"noisy measurement of target {int(o.target_id)} is {math.sqrt(d2):.3f} sigma (Mahalanobis) from the independent geometry; "
                      f"bound {math.sqrt(thr):.3f} (false-alarm 1e-12); error {e.tolist()}", w, mon="measurement_noise")
    return nontrivial


# =============================================================================================
# 4. workload: scenes
# =============================================================================================
def _unit_rand(rng):
    while True:
        v = np.array([rng.gauss(0, 1) for _ in range(3)])
        n = float(np.linalg.norm(v))
        if n > 1e-6:
            return v / n


def _perp(u, rng):
    while True:
        w_ = g.cross3(u, _unit_rand(rng))
        n = float(np.linalg.norm(w_))
        if n > 1e-3:
            return w_ / n


def _dir_at(axis, ang, rng):
    """Unit vector at angle ``ang`` from ``axis`` with a random position angle."""
    a = g.unit(axis)
    return math.cos(ang) * a + math.sin(ang) * _perp(a, rng)


def _vel(r, rng):
    r = np.asarray(r, dtype=float)
    rn = float(np.linalg.norm(r))
    u = r / rn
    return math.sqrt(MU / rn) * rng.uniform(0.85, 1.15) * g.unit(_perp(u, rng) + rng.uniform(-0.2, 0.2) * u)


def _bisect_bool(pred, a, b, n=60):
    """pred(a) is False, pred(b) is True; returns the switching point."""
    for _ in range(n):
        m = 0.5 * (a + b)
        if pred(m):
            b = m
        else:
            a = m
    return 0.5 * (a + b)


def _cov(rng, kind, mode):
    n = 2 if kind == "optical" else 4
    if mode == "off":
        return (np.eye(n) * 1e-20).tolist()
    sig = [10 ** rng.uniform(-6, -3), 10 ** rng.uniform(-6, -3)]
    if n == 4:
        sig += [10 ** rng.uniform(-3, -1), 10 ** rng.uniform(-5, -3)]
    D = np.diag(sig)
    if mode == "diag":
        return (D @ D).tolist()
    A = np.eye(n) + 0.4 * np.array([[rng.gauss(0, 1) for _ in range(n)] for _ in range(n)])
    C = A @ A.T
    dd = np.sqrt(np.diag(C))
    C = C / np.outer(dd, dd)
    R = D @ C @ D
    return (0.5 * (R + R.T)).tolist()


def _az_mask(rng):
    m = rng.choice(["nearfull", "nearfull", "full", "full", "wrap", "wrap", "sliver", "normal", "normal", "wraprand", "fromzero", "tonear360"])
    if m in ("nearfull", "full"):
        return [0.0, 359.99999], m
    if m == "wrap":
        return [350.0, 10.0], m
    if m == "sliver":
        return [359.5, 0.5], m
    if m == "fromzero":
        return [0.0, round(rng.uniform(20, 340), 6)], m
    if m == "tonear360":
        return [round(rng.uniform(20, 340), 6), 359.99999], m
    lo = rng.uniform(0, 330)
    hi = lo + rng.uniform(20, min(300, 359.9 - lo))
    if m == "normal":
        return [round(lo, 6), round(hi, 6)], m
    return [round(hi, 6), round(lo, 6)], m


def gen_scene(rng):
    d0 = datetime(2014, 3, 1)
    start = d0 + timedelta(seconds=rng.randrange(int((datetime(2022, 8, 1) - d0).total_seconds())))
    if rng.random() < 0.12:
        start = start.replace(second=0)
    elif start.second == 0:
        start = start.replace(second=rng.randrange(1, 60))
    kind = rng.choice(["optical", "radar", "adv_radar"])
    space = rng.random() < 0.4
    az, az_kind = _az_mask(rng)
    if space:
        el = [-89.99999, 89.99999] if rng.random() < 0.6 else [round(rng.uniform(-80, -10), 5), round(rng.uniform(10, 89), 5)]
    else:
        el = [rng.choice([0.0, 1.0, 5.0, -5.0, -1.0, round(rng.uniform(0, 20), 5)]), rng.choice([89.99999, 89.99999, 90.0, round(rng.uniform(60, 88), 5)])]
    reversed_el = rng.random() < 0.03
    if reversed_el:
        el = [el[1], el[0]]
    sizes = [0.1, 0.5, 1.0, 5.0, 20.0, 60.0, 120.0, 179.0]
    r = rng.random()
    if r < 0.45:
        fov = {"fov_shape": "conic", "cone_angle": rng.choice(sizes)}
    elif r < 0.97:
        fov = {"fov_shape": "rectangular", "azimuth_angle": rng.choice(sizes), "elevation_angle": rng.choice(sizes)}
    else:
        fov = None
    s = {"type": kind, "azimuth_range": az, "elevation_range": el, "slew_rate": rng.choice([0.01, 0.1, 0.5, 2.0, 5.0, 180.0, 1000.0]),
         "background_observations": rng.random() < 0.85, "efficiency": round(rng.uniform(0.5, 1.0), 4),
         "covariance": _cov(rng, kind, rng.choice(["off", "off", "diag", "full"]))}
    if fov is not None:
        s["field_of_view"] = fov
    mr = rng.choice([None, 0.0, 200.0, 1000.0, 5000.0])
    if mr is not None:
        s["minimum_range"] = mr
    xr = rng.choice([None, None, 2000.0, 10000.0, 40000.0])
    if xr is not None:
        s["maximum_range"] = xr
    if kind == "optical":
        s["aperture_diameter"] = 1.0
        if rng.random() < 0.7:
            s["detectable_vismag"] = round(rng.uniform(4.0, 16.0), 4)
    else:
        s.update({"aperture_diameter": rng.choice([10.0, 25.0, 50.0]), "tx_power": 10 ** rng.uniform(5, 7.5),
                  "tx_frequency": rng.choice([4.42e8, 1.5e9, 1.0e10]), "min_detectable_power": 1.0})
        tmp = Params({"sensor": s, "platform": {"type": "spacecraft"}})
        rmax0 = rng.choice([800.0, 3000.0, 20000.0, 1.0e6])
        s["min_detectable_power"] = math.exp(4 * tmp.radar_log_margin(rmax0, 10.0))   # link closes at rmax0 for a 10 m^2 target
    cfg = {"id": 20001, "name": "S20001", "sensor": s}
    desc = {"start": start.isoformat(), "dt": rng.choice([10, 30, 60, 300]), "nsteps": 6, "full_az": az_kind == "full", "az_kind": az_kind,
            "sun_mode": None}
    if space:
        from .. import scenario_kit as sk

        a = rng.choice([rng.uniform(6700, 8000), rng.uniform(6700, 8000), rng.uniform(10000, 30000), 42164.0])
        inc = rng.choice([0.0, 90.0, 98.0, 63.4, rng.uniform(0, 180), rng.uniform(0, 180)])
        pos, vel = sk.circ_state(a, inc, rng.uniform(0, 360), rng.uniform(0, 360))
        cfg["platform"] = {"type": "spacecraft"}
        cfg["state"] = {"type": "eci", "position": [float(x) for x in pos], "velocity": [float(x) for x in vel]}
    else:
        lat = rng.choice([rng.uniform(-60, 60), rng.uniform(-60, 60), math.copysign(rng.uniform(60, 89.9), rng.uniform(-1, 1)), 0.0,
                          math.copysign(89.9, rng.uniform(-1, 1)), math.degrees(math.asin(rng.uniform(-1, 1))) * 0.998])
        lon = rng.choice([rng.uniform(-180, 180), rng.uniform(-180, 180), rng.uniform(-180, 180),
                          math.copysign(180.0 - 10 ** rng.uniform(-9, -1), rng.uniform(-1, 1)), 180.0, 0.0])
        if kind == "optical" and rng.random() < 0.75:
            desc["sun_mode"] = rng.choice(["night", "night", "night", "twilight", "day"])
            desc["sun_side"] = rng.choice([1, -1])
            desc["sun_k"] = rng.randrange(1, 7)
            lon = _sun_lon(rng, desc, lat, lon)
        cfg["platform"] = {"type": "ground_facility"}
        cfg["state"] = {"type": "lla", "latitude": float(lat), "longitude": float(lon), "altitude": rng.choice([0.0, 0.1, round(rng.uniform(0, 4.5), 3)])}
    desc["sensor_cfg"] = cfg
    nb = rng.randrange(0, 6)
    desc["tmeta"] = [{"id": 11001 + i, "vcs": (rng.choice([1.0, 10.0, 25.0]) if rng.random() < 0.6 else round(10 ** rng.uniform(-1.5, 2), 5)), "refl": round(rng.uniform(0.05, 0.9), 4)} for i in range(nb + 1)]
    return desc


def _sun_lon(rng, desc, lat, lon0):
    """Longitude that makes the site dark / lit / exactly at the documented dusk limit at step sun_k (oracle Sun)."""
    _setup()
    ep = datetime.fromisoformat(desc["start"]) + timedelta(seconds=desc["sun_k"] * desc["dt"])
    M = _rot(ep)
    sun = M @ eph.sun_j2000(jd_of(ep))

    def margin(lon):
        return g.angle3(sun, g.ellipsoid_point(math.radians(lat), math.radians(lon), 0.0)) - (math.pi / 2 + DUSK)

    lons = [lon0] + [rng.uniform(-180, 180) for _ in range(60)]
    mode = desc["sun_mode"]
    if mode == "night":
        c = [x for x in lons if margin(x) > 0.05]
        return c[0] if c else lon0
    if mode == "day":
        c = [x for x in lons if margin(x) < -0.05]
        return c[0] if c else lon0
    dark = [x for x in lons if margin(x) > 0]
    lit = [x for x in lons if margin(x) < 0]
    if not dark or not lit:
        desc["sun_mode"] = "none-possible"
        return lon0
    a, b = lit[0], dark[0]
    if abs(b - a) > 180:
        b += -360 if b > a else 360
    x = _bisect_bool(lambda v: margin(v) > 0, a, b)
    slope = (margin(x + 1e-3) - margin(x - 1e-3)) / 2e-3
    want = desc["sun_side"] * (1.5 * (SUN_BAND + 5e-5) + 10 ** rng.uniform(-3.5, -1.7))
    x += want / slope if abs(slope) > 1e-6 else 0.0
    x = (x + 180.0) % 360.0 - 180.0
    return x


# =============================================================================================
# 5. workload: attempts (placement by construction)
# =============================================================================================
def _alt_ok(r):
    n = float(np.linalg.norm(r))
    return RE + 150.0 <= n <= RE + 44000.0


def _pick_az(rng, P):
    lo, hi = P.az
    width = hi - lo if lo <= hi else hi - lo + TWO_PI
    if width >= TWO_PI:
        return rng.uniform(0, TWO_PI)
    return (lo + rng.uniform(0.1, 0.9) * width) % TWO_PI


def _pick_el(rng, P):
    lo, hi = P.el
    if not P.space:
        lo = max(lo, math.radians(3.0))
    if lo >= hi:
        return 0.5 * (P.el[0] + P.el[1])
    return lo + rng.uniform(0.05, 0.95) * (hi - lo)


def _pick_rho(rng, P, fr, az, el, vcs):
    rho = None
    if not P.space:
        h = 10 ** rng.uniform(math.log10(200.0), math.log10(40000.0))
        R = fr.rs_n
        rho = -R * math.sin(el) + math.sqrt(max((R * math.sin(el)) ** 2 + 2 * R * h + h * h, 1.0))
    else:
        for _ in range(40):
            rho = 10 ** rng.uniform(1.7, 4.8)
            if _alt_ok(fr.eci_of_azel(az, el, rho)):
                break
    cap = P.max_range
    if P.kind != "optical":
        cap = min(cap, P.radar_max_range(vcs))
    if math.isfinite(cap) and rho > 0.95 * cap:
        rho = rng.uniform(0.6, 0.95) * cap
    if rho < 1.05 * P.min_range:
        rho = 1.05 * P.min_range
    return rho


def _rho_for_dir(rng, fr, d, tries=40):
    for _ in range(tries):
        rho = 10 ** rng.uniform(1.7, 4.8)
        rt = fr.rs + rho * d
        if _alt_ok(rt) and los_eval(rt, fr.rs)[0] > 0:
            return rho
    return None


def _offset_dir(rng, P, sez_dir, scale):
    """A direction offset from ``sez_dir`` by about ``scale`` x the FoV half size (same notion of offset as the FoV shape)."""
    if P.fov["fov_shape"] == "conic":
        return _dir_at(sez_dir, scale * math.radians(P.fov["cone_angle"]) / 2 * rng.uniform(0, 1), rng)
    az, el, h = g.azel_stable(sez_dir)
    daz = rng.uniform(-1, 1) * scale * math.radians(P.fov["azimuth_angle"]) / 2
    del_ = rng.uniform(-1, 1) * scale * math.radians(P.fov["elevation_angle"]) / 2
    el2 = max(-math.pi / 2 + 1e-3, min(math.pi / 2 - 1e-3, el + del_))
    return g.sez_from_azel((az + daz) % TWO_PI, el2, 1.0)


def focuses(P):
    f = ["random", "random", "range_min", "range_max", "el_lo", "el_hi", "az_lo", "az_hi", "fov", "fov", "slew", "slew", "seam", "seam", "zenith", "los"]
    if P.kind != "optical":
        f += ["radar", "radar"]
    else:
        f += ["vismag", "vismag", "flux", "flux", "galactic"]
        if P.space:
            f += ["sun_excl", "sun_excl", "limb", "limb"]
    return f


def _place_primary(rng, scene, fr, focus, side, vcs, refl):
    """Returns (r_eci, focus actually realised)."""
    P = scene.P
    defl = fr.defl if P.space else 0.0
    az, el = _pick_az(rng, P), _pick_el(rng, P)
    h = max(math.cos(el), 1e-6)
    rho = None
    lo, hi = P.az
    width = hi - lo if lo <= hi else hi - lo + TWO_PI
    if focus in ("az_lo", "az_hi") and width < TWO_PI:
        dlt = 1.5 * (ANG / h + defl * (1 + math.tan(abs(el)))) + 10 ** rng.uniform(-8, -1.5) / h
        dlt = min(dlt, 0.45 * width) if side > 0 else min(dlt, 0.45 * (TWO_PI - width))
        az = (lo + side * dlt) % TWO_PI if focus == "az_lo" else (hi - side * dlt) % TWO_PI
    elif focus in ("el_lo", "el_hi"):
        dlt = 1.5 * (ANG + defl) + 10 ** rng.uniform(-8, -1.5)
        if focus == "el_hi" and P.el[1] + dlt >= math.pi / 2 and side < 0:
            focus = "el_lo"
        el = P.el[0] + side * dlt if focus == "el_lo" else P.el[1] - side * dlt
        el = max(-math.pi / 2 + 1e-9, min(math.pi / 2 - 1e-12, el))
    elif focus == "seam":
        a = rng.choice([0.0, 10 ** rng.uniform(-12, -3), rng.uniform(0, 0.02), rng.uniform(0, 0.5)])
        az = (rng.choice([-1, 1]) * a) % TWO_PI
    elif focus == "zenith":
        el = math.pi / 2 - 10 ** rng.uniform(-9, -2)
        if el > P.el[1] and rng.random() < 0.7:
            el = _pick_el(rng, P)
            focus = "random"
    elif focus == "range_min" and P.min_range > 1.0:
        rho = P.min_range * (1 + side * (1e-10 + 10 ** rng.uniform(-9, -1.5)))
    elif focus == "range_max" and math.isfinite(P.max_range):
        rho = P.max_range * (1 - side * (1e-10 + 10 ** rng.uniform(-9, -1.5)))
    elif focus == "radar" and P.kind != "optical" and P.radar_max_range(vcs) < 80000:
        rho = P.radar_max_range(vcs) * (1 - side * (3e-9 + 10 ** rng.uniform(-8, -1.5)))
    elif focus == "los" and not P.space:
        rho = rng.uniform(1500, 40000)
        x = _bisect_bool(lambda e_: los_eval(fr.eci_of_azel(az, e_, rho), fr.rs)[0] > 0, -0.4, 0.4)
        el = x + side * 10 ** rng.uniform(-7, -2)
    elif focus == "los" and P.space:
        eta = math.asin(min(1.0, (RE + side * 10 ** rng.uniform(-5, 2)) / fr.rs_n))
        d = _dir_at(-fr.rs, eta, rng)
        return fr.rs + (fr.rs_n * math.cos(eta) + rng.uniform(50, 5000)) * d, focus
    elif focus == "limb" and P.space and P.kind == "optical" and fr.rs_n > R_LIMB + 1:
        cone = math.asin(R_LIMB / fr.rs_n)
        eta = cone + side * (1.5 * (ANG + fr.defl) + 10 ** rng.uniform(-5, -1.5))
        d = _dir_at(-fr.rs, eta, rng)
        if side > 0:
            rho = 10 ** rng.uniform(2, 4.6)
        else:
            reach = fr.rs_n * math.cos(eta) - math.sqrt(max(R_LIMB ** 2 - (fr.rs_n * math.sin(eta)) ** 2, 0.0))
            rho = rng.uniform(0.1, 0.9) * max(reach - 60.0, 10.0)
        return fr.rs + rho * d, focus
    elif focus == "sun_excl" and P.space and P.kind == "optical":
        d = _dir_at(fr.sun - fr.rs, SUN_CONE + side * (1.5 * (SUN_BAND + 6e-4) + 10 ** rng.uniform(-4, -1.5)), rng)
        rho = _rho_for_dir(rng, fr, d)
        if rho is not None:
            return fr.rs + rho * d, focus
        focus, rho = "random", None
    elif focus == "galactic" and P.kind == "optical":
        for _ in range(25):
            d = _dir_at(GC, GAL_CONE + side * 10 ** rng.uniform(-8, -1.5), rng)
            _, el_d, _ = g.azel_stable(fr.T @ d)
            if P.el[0] + 0.01 < el_d < P.el[1] - 0.01:
                rho = _rho_for_dir(rng, fr, d)
                if rho is not None:
                    return fr.rs + rho * d, focus
        focus, rho = "random", None
    elif focus in ("vismag", "flux") and P.kind == "optical":
        d = fr.T.T @ g.sez_from_azel(az, el, 1.0)
        if focus == "flux" and not P.space and rng.random() < 0.7:
            # look towards the anti-solar side of the sky, where the shadow cone is
            for _ in range(20):
                dd = _dir_at(-fr.sun, rng.uniform(0.0, 1.2), rng)
                _, el_d, _ = g.azel_stable(fr.T @ dd)
                if el_d > max(P.el[0], 0.05) and el_d < P.el[1]:
                    d = dd
                    break

        def marg(r_):
            ev, _ = evaluate(fr, P, np.concatenate([fr.rs + r_ * d, np.zeros(3)]), vcs, refl, fr.T @ d, fr.sun)
            return ev[focus][1]

        grid = [10 ** (2.0 + 2.8 * i / 27) for i in range(28)]
        vals = [marg(r_) for r_ in grid]
        want = side * ((1.5 * SUN_BAND + 10 ** rng.uniform(-3.5, -1.5)) if focus == "flux" else 10 ** rng.uniform(-2.5, -0.3))
        br = [i for i in range(27) if abs(vals[i]) < BIG and abs(vals[i + 1]) < BIG and (vals[i] - want) * (vals[i + 1] - want) < 0
              and _alt_ok(fr.rs + grid[i] * d) and _alt_ok(fr.rs + grid[i + 1] * d)]
        if br:
            i = rng.choice(br)
            up = vals[i + 1] > vals[i]
            x = _bisect_bool(lambda r_: (marg(r_) > want) == up, grid[i], grid[i + 1], n=45)
            return fr.rs + x * d, focus
        focus = "random"
    elif focus not in ("random", "fov", "slew"):
        focus = "random"
    if rho is None:
        rho = _pick_rho(rng, P, fr, az, el, vcs)
    return fr.eci_of_azel(az, el, rho), focus


def gen_attempt(rng, scene, k, focus, side, first=False):
    P = scene.P
    tm = scene.desc["tmeta"]
    t = float(k * scene.dt)
    sen = scene.sensor_state(k)
    fr = scene.frame(t, sen)
    for _ in range(12):
        rt, focus_r = _place_primary(rng, scene, fr, "random" if first else focus, side, tm[0]["vcs"], tm[0]["refl"])
        if not first or _alt_ok(rt):
            break
    if first and not _alt_ok(rt):
        rt = g.unit(rt) * (RE + rng.uniform(300, 30000))
    prim = np.concatenate([rt, _vel(rt, rng)])
    sez_t = fr.sez(rt)
    rho_t = float(np.linalg.norm(sez_t))
    tdir = sez_t / rho_t
    az_t, el_t, h_t = g.azel_stable(sez_t)
    defl = fr.defl if P.space else 0.0
    conic = P.fov["fov_shape"] == "conic"
    half_az = math.radians(P.fov["cone_angle"] if conic else P.fov["azimuth_angle"]) / 2
    half_el = math.radians(P.fov["cone_angle"] if conic else P.fov["elevation_angle"]) / 2
    # ---- commanded pointing (the estimate) -------------------------------------------------------
    est_mode = rng.choice(["exact", "exact", "small", "small", "small", "far"])
    pdir = tdir
    if focus_r == "fov":
        if conic:
            pdir = _dir_at(tdir, max(0.0, half_az - side * (ANG * 20 + 10 ** rng.uniform(-8, -1.5))), rng)
        else:
            axis = rng.choice(["az", "el"]) if h_t > 1e-3 else "el"
            if axis == "az":
                dlt = 1.5 * (2 * ANG / h_t + defl * (2 + 2 * math.tan(abs(el_t)))) + 10 ** rng.uniform(-8, -1.5) / h_t
                az_p = az_t + rng.choice([-1, 1]) * max(0.0, half_az - side * dlt)
                el_p = el_t        # same elevation: only the azimuth edge is exercised
            else:
                dlt = 1.5 * (2 * ANG + 2 * defl + 1e-15 / max(h_t, 1e-8)) + 10 ** rng.uniform(-8, -1.5)
                az_p = az_t + rng.uniform(-0.8, 0.8) * half_az * (0 if h_t < 1e-3 else 1)
                el_p = el_t + rng.choice([-1, 1]) * max(0.0, half_el - side * dlt)
            el_p = max(-math.pi / 2 + 1e-6, min(math.pi / 2 - 1e-6, el_p))
            pdir = g.sez_from_azel(az_p % TWO_PI, el_p, 1.0)
    elif focus_r == "seam":
        a = min(az_t, TWO_PI - az_t)
        sgn = -1 if az_t < math.pi else 1          # the pointing goes to the other side of north
        room = max(half_az - a, 0.0)
        b = rng.uniform(0.02, 0.95) * room if side > 0 else room + 2 * ANG / max(h_t, 1e-6) + 10 ** rng.uniform(-6, -1.5)
        b = max(b, 10 ** rng.uniform(-9, -4))
        el_p = el_t + (rng.uniform(-0.5, 0.5) * half_el if not conic else 0.0)
        el_p = max(-math.pi / 2 + 1e-6, min(math.pi / 2 - 1e-6, el_p))
        pdir = g.sez_from_azel((sgn * b) % TWO_PI, el_p, 1.0)
    elif est_mode == "small":
        pdir = _offset_dir(rng, P, tdir, 0.6)
    elif est_mode == "far":
        pdir = _offset_dir(rng, P, tdir, 4.0)
    if pdir is tdir:
        est = prim.copy()
    else:
        est = np.concatenate([fr.eci_of_sez(rho_t * rng.uniform(0.97, 1.03) * g.unit(pdir)), prim[3:]])
    sez_p = fr.sez(est)
    pu = g.unit(sez_p)
    # ---- prior pointing state -------------------------------------------------------------------
    j = rng.choice([max(k - 1, 0)] * 5 + [rng.randrange(0, k + 1)] * 4 + [k])
    t_last = float(j * scene.dt)
    budget = P.slew * (t - t_last)
    if focus_r == "slew":
        if k == 0:
            focus_r = "random"
        else:
            if j == k:
                j = k - 1
                t_last = float(j * scene.dt)
                budget = P.slew * (t - t_last)
            th = budget - side * (3e-8 + 10 ** rng.uniform(-7, -1.5))
            if 1e-6 < th < math.pi - 1e-6:
                bore = _dir_at(pu, th, rng)
            else:
                focus_r = "random"
    if focus_r != "slew":
        if rng.random() < 0.9 and budget > 0:
            bore = _dir_at(pu, rng.uniform(0, 0.9) * min(budget, math.pi), rng)
        else:
            bore = _unit_rand(rng)
            if not P.space:
                bore[2] = abs(bore[2])
    # ---- background targets ---------------------------------------------------------------------
    targets = [prim]
    for i in range(1, len(tm)):
        for _ in range(12):
            mode = rng.choice(["near", "near", "near", "edge", "sky", "same"])
            if mode == "near":
                dd = _offset_dir(rng, P, pu, 1.6)
            elif mode == "edge":
                s2 = rng.choice([-1, 1])
                if conic:
                    dd = _dir_at(pu, max(0.0, half_az - s2 * 10 ** rng.uniform(-8, -2)), rng)
                else:
                    az_p, el_p, h_p = g.azel_stable(pu)
                    dd = g.sez_from_azel((az_p + rng.choice([-1, 1]) * max(0.0, half_az - s2 * 10 ** rng.uniform(-8, -2) / max(h_p, 1e-3))) % TWO_PI,
                                         max(-1.5, min(1.5, el_p + rng.uniform(-0.9, 0.9) * half_el)), 1.0)
            elif mode == "sky":
                dd = g.sez_from_azel(_pick_az(rng, P), _pick_el(rng, P), 1.0)
            else:
                dd = tdir
            az_b, el_b, _ = g.azel_stable(dd)
            rb = fr.eci_of_sez(_pick_rho(rng, P, fr, az_b, el_b, tm[i]["vcs"]) * g.unit(dd))
            if not first or _alt_ok(rb):
                break
        if first and not _alt_ok(rb):
            rb = g.unit(rb) * (RE + rng.uniform(300, 30000))
        targets.append(np.concatenate([rb, _vel(rb, rng)]))
    att = {"k": k, "t": t, "sen_eci": [float(x) for x in sen], "targets": [[float(x) for x in s_] for s_ in targets],
           "est": [float(x) for x in est], "bore": [float(x) for x in bore], "t_last": t_last, "np_seed": rng.randrange(2 ** 31),
           "focus": focus_r, "side": side}
    return att


# =============================================================================================
# 6. driver
# =============================================================================================
def _build(ctx, desc, att0):
    scene = Scene(desc)
    tds = [{"id": m["id"], "vcs": m["vcs"], "refl": m["refl"], "eci0": att0["targets"][i]} for i, m in enumerate(desc["tmeta"])]
    scene.build_targets(tds)
    return scene


def run(ctx):
    _setup()
    # scenario mode first: ~25% of the wall budget (or its own case cap), then the direct mode with the rest
    run_scenario_phase(ctx, 0.25 * BUDGET_S["quick" if ctx.quick else "thorough"], ctx.scale(48, 8000))
    rng = ctx.pyrng("c02")
    n = ctx.scale(14_000, 420_000)
    reserve = 6.0 if ctx.quick else 30.0
    done = 0
    per_scene = 24
    nscenes = 0
    while done < n and ctx.time_left() > reserve:
        desc = gen_scene(rng)
        try:
            scene = Scene(desc)
            att0 = gen_attempt(rng, scene, rng.choice([0, 1, 2, 3]), "random", 1, first=True)
            scene.build_targets([{"id": m["id"], "vcs": m["vcs"], "refl": m["refl"], "eci0": att0["targets"][i]} for i, m in enumerate(desc["tmeta"])])
        except Exception as e:  # noqa: BLE001
            ctx.count("scene_build_failed")
            ctx.add_to_set("scene_build_errors", f"{type(e).__name__}: {str(e)[:160]}")
            if ctx.extra.get("scene_build_failed", 0) > 50 + nscenes:
                ctx.inconclusive_because("most scenes could not be built: " + str(e)[:300])
                return
            continue
        nscenes += 1
        P = scene.P
        tag = f"{P.kind}/{'space' if P.space else 'ground'}"
        ctx.count("scenes_" + tag)
        ctx.add_to_set("az_masks", desc["az_kind"])
        ctx.add_to_set("fov_shapes", P.fov["fov_shape"] + ("" if "field_of_view" in desc["sensor_cfg"]["sensor"] else "(default)"))
        ctx.add_to_set("noise_modes", "off" if P.noise_off else "realistic")
        if P.el_reversed:
            ctx.count("scenes_elevation_mask_reversed")
        fl = focuses(P)
        for i in range(per_scene):
            if done >= n or ctx.time_left() <= reserve:
                break
            if i == 0:
                att, first = att0, True
            else:
                first = False
                k = rng.choice([0, 1, 1, 1, 2, 2, 2, 3, 3, 3, 4, 4, 5, 6])
                focus, side = rng.choice(fl), rng.choice([1, -1])
                if desc.get("sun_mode") == "twilight" and rng.random() < 0.5:
                    k, focus, side = desc["sun_k"], "random", 1
                try:
                    att = gen_attempt(rng, scene, k, focus, side)
                except Exception as e:  # noqa: BLE001
                    ctx.count("attempt_gen_failed")
                    ctx.add_to_set("attempt_gen_errors", f"{type(e).__name__}: {str(e)[:160]}")
                    continue
                if desc.get("sun_mode") == "twilight" and att["k"] == desc["sun_k"]:
                    ctx.count(f"focus_dark_{'in' if desc['sun_side'] > 0 else 'out'}")
            nt = run_attempt(ctx, scene, att, first=first)
            done += 1
            ctx.count(f"focus_{att['focus']}_{'in' if att['side'] > 0 else 'out'}")
            ctx.case((desc["start"], att["k"], att["focus"], att["side"], [round(x, 4) for x in att["targets"][0][:3]]), nontrivial=bool(nt))
            if done % 701 == 1:
                ctx.sample({"sensor": tag, "start": desc["start"], "t": att["t"], "focus": att["focus"], "side": att["side"],
                            "az_mask_deg": desc["sensor_cfg"]["sensor"]["azimuth_range"], "fov": P.fov, "n_background": len(desc["tmeta"]) - 1})
    ctx.add_to_set("calibration", f"shard {ctx.shard}: worst deviations seen: " + ", ".join(f"{k}={v:.3e}" for k, v in _CAL.items())
                   + " (az x cos(el) rad, el rad, range km, range-rate km/s, Mahalanobis d2/threshold, boresight)")
    ctx.count("scenes_total", nscenes)


def replay(ctx, w):
    from .. import core

    core.install_paths()
    _setup()
    if w.get("kind") == "scenario":
        run_scenario(ctx, w["net"], upto=w.get("step"))
        return
    desc = w["scene"]
    scene = Scene(desc)
    scene.build_targets(w["targets"])
    run_attempt(ctx, scene, w["attempt"], first=False)


# =============================================================================================
# 7. scenario mode: the same postcondition on the calls made inside real multi-step Scenario runs
# =============================================================================================
class _ScnCtx:
    """Forwards to the shard context; monitor and counter names get a ``scenario_`` prefix, mechanism keys stay the same."""

    def __init__(self, ctx):
        self._c = ctx

    def check(self, cond, key, what, witness=None, mon=None):
        return self._c.check(cond, key, what, witness, mon=("scenario_" + mon) if mon else None)

    def count(self, name, n=1):
        self._c.count("scenario_" + name, n)

    def inconclusive_because(self, reason):
        self._c.inconclusive_because("scenario mode: " + reason)


class _LiveScene:
    """Stands in for ``Scene`` when the call comes from a running Scenario (duck-typed for ``postcondition``)."""

    def __init__(self, watch, P, sid, sensor, tdescs):
        self._w, self.P, self.tdescs = watch, P, tdescs
        self.desc = {"sensor_cfg": {"id": sid}}
        self.sa = type("_SA", (), {"sensors": sensor})()

    def epoch(self, t):
        return self._w.start + timedelta(seconds=t)

    def frame(self, t, sen_eci):
        return self._w.frame(t, sen_eci)


class ScenarioWatch:
    def __init__(self, ctx, net, cfg, app):
        self.ctx, self.sctx, self.net, self.cfg, self.app = ctx, _ScnCtx(ctx), net, cfg, app
        self.start = datetime.fromisoformat(cfg["time"]["start_timestamp"])
        glob_bg = bool(cfg["observation"]["background"])
        self.P = {}
        for eng in cfg["engines"]:
            for sc in eng["sensors"]:
                c = {"id": sc["id"], "platform": sc["platform"], "sensor": dict(sc["sensor"])}
                if glob_bg:      # ScenarioBuilder: the global observation.background switch turns every sensor's flag on
                    c["sensor"]["background_observations"] = True
                self.P[int(sc["id"])] = Params(c)
        self.step = 0
        self._frames = {}
        self.calls_this_step = {}
        self.carried = {int(i): (np.array(a.sensors.boresight, dtype=float), float(a.sensors.time_last_tasked)) for i, a in app.sensor_agents.items()}
        self.n_calls = 0
        self.nontrivial = 0

    def wit(self, sid, tid):
        return {"kind": "scenario", "net": self.net, "step": self.step, "sensor": int(sid), "target": int(tid)}

    def frame(self, t, sen_eci):
        key = (t, tuple(float(x) for x in sen_eci[:3]))
        f = self._frames.get(key)
        if f is None:
            ep = self.start + timedelta(seconds=t)
            f = Frame(_rot(ep), sen_eci)
            f.sun = eph.sun_j2000(jd_of(ep))
            self._frames[key] = f
        return f

    def harness_error(self, txt):
        self.ctx.inconclusive_because("scenario-mode monitor raised: " + txt)

    def on_raise(self, sensor, target_agent, e):
        self.ctx.check(False, "collect-raises-" + type(e).__name__, f"collectObservations raised {type(e).__name__}: {e} inside a task-execution job",
                       self.wit(sensor.host.simulation_id, target_agent.simulation_id), mon="scenario_postcondition")

    def on_call(self, sensor, old, est, tgt, bgs, res):
        ctx, app = self.ctx, self.app
        host = sensor.host
        sid, tid = int(host.simulation_id), int(tgt.simulation_id)
        self.n_calls += 1
        ctx.mon("scenario_postcondition")
        w = self.wit(sid, tid)
        # what this call returned is what the scenario may carry to the next step
        self.calls_this_step.setdefault(sid, []).append((np.array(res[2], dtype=float, copy=True), float(res[3])))
        if host.sensor_time_bias_event_queue:
            ctx.count("scenario_calls_time_bias_skipped")
            return
        t = old["host_time"]
        agents = [tgt, *bgs]
        ids = [int(a.simulation_id) for a in agents]
        # ---- the inputs the tasking path handed to the sensor -----------------------------------
        ok = len(set(ids)) == len(ids)
        ctx.check(ok, "scenario-background-contains-primary" if ids.count(tid) > 1 else "scenario-background-duplicates",
                  f"step {self.step}: background list {ids[1:]} of the job for primary {tid} (sensor {sid}) repeats a target", w, mon="scenario_inputs")
        if not ok:
            return
        same_t = all(float(a.time) == t for a in agents) and t == float(app.clock.time)
        ctx.check(same_t, "scenario-agent-epoch-mismatch", f"step {self.step}: sensor time {t}, clock {float(app.clock.time)}, target times {[float(a.time) for a in agents]}",
                  w, mon="scenario_inputs")
        cur = all(np.array_equal(np.asarray(a.eci_state, dtype=float), np.asarray(app.target_agents[i].eci_state, dtype=float)) for a, i in zip(agents, ids)) \
            and np.array_equal(old["host_eci"], np.asarray(app.sensor_agents[sid].eci_state, dtype=float))
        ctx.check(cur, "scenario-stale-truth-state", f"step {self.step}: a target/sensor state inside the job differs from the scenario's current truth state", w, mon="scenario_inputs")
        est_now = np.asarray(app.estimate_agents[tid].eci_state, dtype=float)
        ctx.check(np.array_equal(np.asarray(est, dtype=float), est_now), "scenario-pointing-not-estimate",
                  f"step {self.step}: sensor {sid} was commanded to point at {np.asarray(est, dtype=float).tolist()} but the current estimate of target {tid} is {est_now.tolist()} "
                  f"(truth {np.asarray(tgt.eci_state, dtype=float).tolist()})", w, mon="scenario_inputs")
        cb, ct = self.carried[sid]
        ctx.check(np.array_equal(old["boresight"], cb) and old["t_last"] == ct, "scenario-old-pointing-state-stale",
                  f"step {self.step}: sensor {sid} enters the attempt with boresight {old['boresight'].tolist()} / time_last_tasked {old['t_last']} but the scenario "
                  f"left it at {cb.tolist()} / {ct} after the previous step", w, mon="scenario_carry")
        # ---- the postcondition itself -------------------------------------------------------------
        tdescs = [{"id": i, "vcs": float(a.visual_cross_section), "refl": float(a.reflectivity)} for a, i in zip(agents, ids)]
        att = {"t": t, "sen_eci": old["host_eci"].tolist(), "est": [float(x) for x in est],
               "targets": [[float(x) for x in a.eci_state] for a in agents]}
        live = _LiveScene(self, self.P[sid], sid, sensor, tdescs)
        nt = postcondition(self.sctx, live, att, old, res, w)
        self.nontrivial += bool(nt)
        ctx.case(("scn", self.net["start"], self.net["seed"], self.step, sid, tid), nontrivial=bool(nt))

    def end_step(self):
        """After stepForward: every tasked sensor carries the pointing state one of its attempts of this step returned."""
        for sid, results in self.calls_this_step.items():
            sens = self.app.sensor_agents[sid].sensors
            b, tl = np.array(sens.boresight, dtype=float), float(sens.time_last_tasked)
            ok = any(np.array_equal(b, rb) and tl == rt for rb, rt in results)
            self.ctx.check(ok, "scenario-pointing-state-not-carried",
                           f"step {self.step}: after the step sensor {sid} has boresight {b.tolist()} / time_last_tasked {tl}, none of the {len(results)} "
                           f"state(s) its attempt(s) returned: {[(rb.tolist(), rt) for rb, rt in results][:2]}", self.wit(sid, -1), mon="scenario_carry")
            self.carried[sid] = (b, tl)
        self.calls_this_step = {}


def run_scenario(ctx, net, upto=None):
    """One real multi-step Scenario with the postcondition attached; returns the number of watched calls."""
    from .. import netkit
    from .. import scenario_kit as sk

    _setup()
    cfg = netkit.net_cfg(net)
    _ENV["db"] = False          # sk.build / teardown replace the process-wide database
    try:
        b = sk.build(cfg, base_seed=net["seed"])
    except Exception as e:  # noqa: BLE001
        ctx.count("scenario_build_failed")
        ctx.add_to_set("scenario_run_errors", f"build: {type(e).__name__}: {str(e)[:160]}")
        return 0
    watch = ScenarioWatch(ctx, net, cfg, b.app)
    _SCN["watch"] = watch
    try:
        for k in range(1, (upto or net["nsteps"]) + 1):
            watch.step = k
            b.app.stepForward()
            watch.end_step()
        ctx.count("scenario_runs_completed")
    except Exception as e:  # noqa: BLE001
        if "LinAlgError" in type(e).__name__ or "invalid numeric entries" in str(e):
            ctx.count("scenario_runs_diverged_filter")      # hostile estimate settings; not this property's subject
        else:
            ctx.count("scenario_runs_raised")
            ctx.add_to_set("scenario_run_errors", f"{type(e).__name__}: {str(e)[:160]}")
    finally:
        _SCN["watch"] = None
        sk.teardown(b)
    ctx.count("scenario_policy_" + net["policy"])
    return watch.n_calls


def run_scenario_phase(ctx, budget_s, max_nets):
    from .. import netkit

    import time

    rng = ctx.pyrng("c02-scenario")
    t_end = time.time() + budget_s
    n = 0
    while n < max_nets and time.time() < t_end and ctx.time_left() > 5:
        net = netkit.gen_network(rng)
        net["nsteps"] = rng.randrange(3, 7)     # long enough for sensors to keep (and be limited by) their boresight
        run_scenario(ctx, net)
        n += 1
    ctx.count("scenario_networks", n)
