"""C17 - manoeuvre detectors compute their documented statistic over any history.

The real ``StandardNis`` / ``SlidingNis`` / ``FadingMemoryNis`` objects (built by constructor, by
``maneuverDetectionFactory(config)`` or attached to a real ``UnscentedKalmanFilter`` and reached through
``SequentialFilter.checkManeuverDetection``) are driven step by step over generated histories.  A thin
subclass wrapper records what every ``__call__`` returned; the monitor keeps its own shadow history in
``refs/chi2ref.py`` (NIS by ``numpy.linalg.solve``, window / closed-form fading sums, ``chi2.isf`` bound)
and compares at *every* step.

Monitors
  metric           float(det.metric) == reference statistic within the conditioning-following budget
  decision         returned decision == (reference statistic >= reference bound), outside the epsilon band
  at_bound         constructed steps whose reported metric is bitwise equal to chi2.isf(alpha, dof): detection
  monotone         scaling the latest innovation up (c>1) keeps a detection; scaling down keeps a non-detection
  isolation        two detectors of the same class stepped alternately do not influence each other
                   (counted through the per-step monitors of interleaved histories)
  filter_decision  SequentialFilter.maneuver_detected is the detector's return value and equals the reference
  filter_flags     flags after checkManeuverDetection: detection raises exactly MANEUVER_DETECTION (+ adaptive /
                   IOD start when configured), a non-detection raises nothing; maneuver_metric forwarded
  ref_selfcheck    chi2.sf(reference bound, dof) reproduces alpha (guards the reference)
"""

from __future__ import annotations

import copy
import math

import numpy as np

from ..refs import chi2ref

LEVEL = "exploration"
RULE = ("cases = whole histories (length 1..50) of (innovation, covariance) pairs fed to one real detector object: "
        "dimension 1..8 constant / random per step / alternating 1<->8 / ramp; SPD covariances Q diag(l) Q^T with "
        "condition number 1..1e8 and scale 1e-10..1e10; innovation direction random / along the largest or smallest "
        "eigenvector / balanced / axis / zero; innovation length steered so that the detector's statistic lands at "
        "f x bound, f in {0, 1e-6, .3, .9, .99, 1-1e-4, 1-1e-7, 1+-3e-9, 1+1e-7, 1+1e-4, 1.01, 1.1, 3, 1e3, 1e8} or free; "
        "thresholds 1e-6, 0.999, common values, log-uniform near 0 and near 1, uniform; windows 1..10; delta incl. "
        "1e-6, 0.5, 0.8, 0.999, 0.999999; 1-D and column residuals; constructor / config factory / UKF path. "
        "non-trivial = distinct history with at least one step whose decision lies outside the epsilon band and that "
        "exercises the detector's memory (sliding: longer than the window; fading: >= 2 steps; standard: any); "
        "steps inside the band are counted as trivial_steps")
ASSUME = ["scipy.stats.chi2.isf and numpy.linalg.solve/svd are trusted (shared numerical libraries; formulas are independent)",
          "FadingMemoryNis with a varying dimension: n_z in the documented n_delta = n_z(1+delta)/(1-delta) is the running "
          "arithmetic mean of the dimensions seen so far (the in-code comment); with a constant dimension this is the docstring formula",
          "SlidingNis before the window is full: sum and degrees of freedom over the steps seen so far",
          "at_bound only: the bound is bitwise chi2.isf(alpha, dof) as written in oneSidedChiSquareTest (a '<=' comparison is "
          "indistinguishable from a one-ulp larger bound otherwise)",
          "metric budget = 300 * eps * cond2(S) * |r| * |S^-1 r| + 128 eps q per step (explicit-inverse error model; calibration on 1.6e6 "
          "steps of the current tree: worst error 0.72 * eps*cond*|r|*|S^-1 r| for cond > 100 and 4 eps q at cond 1; largest fraction of the budget used on the 1.7e6 steps of a thorough run: below 0.01, i.e. more than 100x head-room), "
          "summed with the window / fading weights; decision band = 1e-9*bound + budget"]
SHARDS = {"quick": 4, "thorough": 16}
BUDGET_S = {"quick": 60, "thorough": 540}
DECIDING = ["metric", "decision", "monotone", "at_bound", "filter_decision", "filter_flags"]
MANIFEST = {
    "technique": "runtime monitoring: recording subclass wrapper on the real detector __call__ (also inside "
                 "SequentialFilter.checkManeuverDetection of a real UKF) compared per step with a shadow-history reference model",
    "level_text": "held on every generated history: per-step decision and metric of StandardNis/SlidingNis/FadingMemoryNis equal "
                  "the documented statistic and chi-square bound; scaling the latest innovation never un-detects; filter flags follow the decision",
    "level_note": "decisions within 1e-9 relative (+ conditioning budget) of the bound are trivial; fading-memory dof for varying "
                  "dimension taken as the running mean of dimensions (code comment); UKF.update() itself is not executed, only checkManeuverDetection",
}

K_COND = 300.0
KINDS = ("standard", "sliding", "fading")
FACTORS = [0.0, 1e-6, 0.3, 0.3, 0.9, 0.99, 1 - 1e-4, 1 - 1e-7, 1 - 3e-9, 1 + 3e-9, 1 + 1e-7, 1 + 1e-4, 1.01, 1.1, 3.0, 1e3, 1e8]
SCALES_UP = [1 + 1e-12, 1 + 1e-9, 1.0001, 1.5, 2.0, 10.0, 1e3, 1e8]
EXACT_DELTAS = [0.5, 0.75, 0.875]  # (1+d), (1-d) and n(1+d)/(1-d) are exact in binary


# ---------------------------------------------------------------------------------------------
# real objects
# ---------------------------------------------------------------------------------------------
_MON = {}


def _monitored(cls):
    """Subclass of the real detector class whose __call__ runs the real one and records (args, result)."""
    if cls not in _MON:
        def __call__(self, residual, innov_cvr, *a, **k):
            out = cls.__call__(self, residual, innov_cvr, *a, **k)
            self._rv_calls = getattr(self, "_rv_calls", 0) + 1
            self._rv_last = out
            return out

        _MON[cls] = type("Monitored" + cls.__name__, (cls,), {"__call__": __call__})
    return _MON[cls]


def _build_real(cfg):
    from resonaate.estimation import maneuver_detection as md

    kind, alpha = cfg["kind"], cfg["alpha"]
    if cfg["via"] == "config":
        from resonaate.estimation import maneuverDetectionFactory
        from resonaate.scenario.config import estimation_config as ec

        if kind == "standard":
            c = ec.StandardNISConfig(threshold=alpha)
        elif kind == "sliding":
            c = ec.SlidingNISConfig(threshold=alpha, window_size=cfg["window"])
        else:
            c = ec.FadingMemoryNISConfig(threshold=alpha, delta=cfg["delta"])
        det = maneuverDetectionFactory(c)
    elif kind == "standard":
        det = md.StandardNis(alpha)
    elif kind == "sliding":
        det = md.SlidingNis(alpha, window_size=cfg["window"])
    else:
        det = md.FadingMemoryNis(alpha, delta=cfg["delta"])
    want = {"standard": md.StandardNis, "sliding": md.SlidingNis, "fading": md.FadingMemoryNis}[kind]
    if type(det) is not want:
        raise TypeError(f"factory built {type(det).__name__} for {kind}")
    det.__class__ = _monitored(want)
    return det


def _build_filter(cfg, det):
    from resonaate.dynamics.two_body import TwoBody
    from resonaate.estimation.kalman.unscented_kalman_filter import UnscentedKalmanFilter
    from resonaate.physics.time.stardate import ScenarioTime

    mode = cfg.get("fmode", "plain")
    return UnscentedKalmanFilter(
        10001, ScenarioTime(0.0), np.array([7000.0, 0.0, 0.0, 0.0, 7.5, 0.0]), np.eye(6), TwoBody(), np.eye(6) * 1e-9,
        maneuver_detection=det, initial_orbit_determination=(mode == "iod"), adaptive_estimation=(mode == "adaptive"),
    )


def _scalar(metric):
    a = np.asarray(metric)
    if a.size != 1:
        return None
    try:
        return float(a.reshape(-1)[0])
    except (TypeError, ValueError):
        return None


# ---------------------------------------------------------------------------------------------
# one detector + its shadow
# ---------------------------------------------------------------------------------------------
class Session:
    def __init__(self, ctx, cfg, group=None, idx=0):
        self.ctx, self.cfg = ctx, dict(cfg)
        self.kind = cfg["kind"]
        self.ref = chi2ref.make(self.kind, cfg["alpha"], cfg.get("window"), cfg.get("delta"), K_COND)
        self.real = _build_real(cfg)
        self.filt = _build_filter(cfg, self.real) if cfg["via"] == "filter" else None
        self.steps: list[dict] = []
        self.group, self.idx = group, idx
        self.n_decisive = 0
        self.n_detect = 0
        self.dims_seen = set()
        self.failed = False

    # -- witness ------------------------------------------------------------------------------
    def witness(self, extra=None):
        if self.group is not None:
            hs = [{"cfg": s.cfg, "steps": s.steps} for s in self.group]
        else:
            hs = [{"cfg": self.cfg, "steps": self.steps}]
        w = {"kind": "group", "focus": self.idx, "histories": copy.deepcopy(hs)}
        if extra:
            w.update(extra)
        return w

    def _chk(self, cond, key, what, mon, extra=None):
        if cond:
            return self.ctx.check(True, key, "", None, mon=mon)
        self.failed = True
        keep = getattr(self.ctx, "_viol_per_key", {}).get(key, 0) < 3  # the core stores at most 3 witnesses per key
        return self.ctx.check(False, key, what() if callable(what) else what, self.witness(extra) if keep else None, mon=mon)

    # -- one step -----------------------------------------------------------------------------
    def apply(self, step):
        ctx, kind = self.ctx, self.kind
        k = len(self.steps)
        self.steps.append(step)
        r = np.array(step["r"], dtype=float)
        s_mat = np.array(step["S"], dtype=float)
        if step.get("col"):
            r = r.reshape(-1, 1)
        n = r.shape[0]
        self.dims_seen.add(n)
        mono = step.get("mono")
        pre = copy.deepcopy(self.real) if mono else None
        head = f"{kind}[{self.cfg['via']}] alpha={self.cfg['alpha']!r} w={self.cfg.get('window')} d={self.cfg.get('delta')!r} step {k} (n={n})"

        # ---- the real code --------------------------------------------------------------------
        calls0 = getattr(self.real, "_rv_calls", 0)
        flags_before = None
        try:
            if self.filt is not None:
                from resonaate.estimation.sequential_filter import FilterFlag

                f = self.filt
                if step.get("clear"):
                    f.flags = FilterFlag.NONE  # what the owning EstimateAgent does when it consumes the flags
                flags_before = f.flags
                stale_metric = f.maneuver_metric
                f.innovation, f.innov_cvr = r, s_mat
                f.checkManeuverDetection()
                dec = self.real._rv_last if getattr(self.real, "_rv_calls", 0) == calls0 + 1 else None
            else:
                dec = self.real(r, s_mat)
        except Exception as e:  # noqa: BLE001
            self._chk(False, f"{kind}-raised", f"{head}: detector raised {type(e).__name__}: {e}", "metric")
            self.ref.step(step["r"], s_mat)
            return None
        metric = _scalar(self.real.metric)

        # ---- the shadow -----------------------------------------------------------------------
        out = self.ref.step(step["r"], s_mat)
        if k % 16 == 0:
            err = chi2ref.bound_selfcheck(self.cfg["alpha"], out["dof"], out["bound"])
            ctx.check(err < 1e-7, "reference-bound-selfcheck", f"{head}: chi2.sf(bound)={err} relative off alpha", None, mon="ref_selfcheck")

        # ---- metric ---------------------------------------------------------------------------
        ok_shape = metric is not None and math.isfinite(metric)
        self._chk(ok_shape, f"{kind}-metric-not-a-finite-scalar", lambda: f"{head}: metric={self.real.metric!r}", "metric_scalar")
        metric_ok = False
        if ok_shape:
            err = abs(metric - out["metric"])
            metric_ok = err <= out["tol"]
            if out["tol"] > 0:
                if err > 0:  # fraction of the budget actually used, by decade (head-room evidence)
                    ctx.add_to_set("metric_err_over_budget_log10", int(math.floor(math.log10(err / out["tol"]))))
            self._chk(metric_ok, f"{kind}-metric",
                      lambda: f"{head}: metric={metric!r} reference={out['metric']!r} |diff|={err:.3e} budget={out['tol']:.3e} "
                              f"cond={out['cond']:.2e}; {self._explain_metric(metric)}", "metric")

        # ---- decision -------------------------------------------------------------------------
        dec_ok_type = isinstance(dec, (bool, np.bool_))
        if not dec_ok_type:
            self._chk(False, f"{kind}-decision-not-bool", f"{head}: returned {dec!r}", "decision")
        if out["nontrivial"]:
            self.n_decisive += 1
            self.n_detect += bool(out["detect"])
            ctx.count("detections" if out["detect"] else "non_detections")
            if abs(out["metric"] - out["bound"]) < 1e-3 * out["bound"]:
                ctx.count("decisive_steps_within_1e-3_of_bound")
            if dec_ok_type:
                key = f"{kind}-decision" if metric_ok else f"{kind}-decision-with-wrong-metric"
                self._chk(bool(dec) == out["detect"], key,
                          lambda: f"{head}: returned {bool(dec)} but statistic={out['metric']!r} vs bound={out['bound']!r} "
                                  f"(dof={out['dof']!r}) => {out['detect']}; {self._explain_decision(out, bool(dec))}", "decision")
        else:
            ctx.count("trivial_steps")

        # ---- exactly at the bound -------------------------------------------------------------
        if step.get("exact"):
            ctx.count("exact_attempts")
            # only asserted where the two usual ways of writing the bound (isf(alpha) / ppf(1-alpha)) agree bitwise,
            # so that an equivalent re-formulation of the bound cannot raise a false alarm here
            from scipy.stats import chi2 as _chi2

            same_bound = float(_chi2.ppf(1.0 - self.cfg["alpha"], out["dof"])) == out["bound"]
            if not same_bound:
                ctx.count("exact_skipped_bound_formulations_differ")
            if metric is not None and metric == out["bound"] and dec_ok_type and same_bound:
                self._chk(bool(dec), f"{kind}-decision-at-exact-bound",
                          f"{head}: metric {metric!r} is bitwise chi2.isf(alpha, {out['dof']!r}) but no manoeuvre was declared "
                          "('reaches the bound' means >=)", "at_bound")

        # ---- monotonicity in the latest innovation --------------------------------------------
        if mono and dec_ok_type:
            c = float(mono)
            try:
                dec2 = pre(r * c, s_mat)
            except Exception as e:  # noqa: BLE001
                dec2 = None
                self._chk(False, f"{kind}-raised", f"{head}: scaled call raised {type(e).__name__}: {e}", "monotone", {"mono_step": k})
            if dec2 is not None:
                robust = out["nontrivial"] or c >= 1.5 or c <= 1 / 1.5
                if c > 1 and bool(dec) and robust:
                    self._chk(bool(dec2), f"{kind}-monotone",
                              f"{head}: detection with r, no detection with {c!r}*r (metric {metric!r} -> {_scalar(pre.metric)!r})",
                              "monotone", {"mono_step": k})
                elif c < 1 and not bool(dec) and robust:
                    self._chk(not bool(dec2), f"{kind}-monotone",
                              f"{head}: no detection with r, detection with {c!r}*r (metric {metric!r} -> {_scalar(pre.metric)!r})",
                              "monotone", {"mono_step": k})
                else:
                    ctx.count("monotone_vacuous")

        # ---- the filter path ------------------------------------------------------------------
        if self.filt is not None:
            from resonaate.estimation.sequential_filter import FilterFlag

            f = self.filt
            self._chk(dec is not None and f.maneuver_detected is dec, "filter-decision-forwarding",
                      f"{head}: filter.maneuver_detected={f.maneuver_detected!r}, detector returned {dec!r}", "filter_decision")
            if out["nontrivial"]:
                self._chk(bool(f.maneuver_detected) == out["detect"], "filter-decision",
                          f"{head}: filter.maneuver_detected={f.maneuver_detected!r}, reference {out['detect']}", "filter_decision")
            if dec_ok_type and bool(dec):
                mode = self.cfg.get("fmode", "plain")
                want = flags_before | FilterFlag.MANEUVER_DETECTION
                if mode == "adaptive":
                    want |= FilterFlag.ADAPTIVE_ESTIMATION_START
                if mode == "iod":
                    want |= FilterFlag.INITIAL_ORBIT_DETERMINATION_START
                self._chk(f.flags == want, "filter-flags-on-detection",
                          f"{head}: mode={mode} flags before={flags_before!r} after={f.flags!r} expected={want!r}", "filter_flags")
                self._chk(_scalar(f.maneuver_metric) == metric, "filter-metric-forwarding",
                          f"{head}: filter.maneuver_metric={f.maneuver_metric!r} detector.metric={self.real.metric!r}", "filter_flags")
            elif dec_ok_type:
                self._chk(f.flags == flags_before, "filter-flags-on-nondetection",
                          f"{head}: no detection but flags went {flags_before!r} -> {f.flags!r}", "filter_flags")
                if stale_metric is not None and f.maneuver_metric is stale_metric:
                    ctx.count("filter_metric_left_stale_on_nondetection")
        return out

    # -- diagnostics (text only; never part of a key) -----------------------------------------
    def _explain_metric(self, metric):
        q, hyp = self.ref.q_hist, []

        def close(a):
            return abs(metric - a) <= 1e-6 * max(abs(a), abs(metric), 1e-300)

        if self.kind == "sliding":
            w = self.cfg["window"]
            if close(math.fsum(q)):
                hyp.append("equals the sum over the WHOLE history (window not sliding)")
            if close(q[-1]):
                hyp.append("equals the latest NIS only")
            if close(math.fsum(q[-w:]) / len(q[-w:])):
                hyp.append("equals the window MEAN")
            if close(math.fsum(q[-(w + 1):])):
                hyp.append("equals the sum over w+1 steps")
            if w > 1 and close(math.fsum(q[-(w - 1):])):
                hyp.append("equals the sum over w-1 steps")
        if self.kind == "fading":
            d = self.cfg["delta"]
            acc = math.fsum(d ** (len(q) - 1 - j) * q[j] for j in range(len(q)))
            if close(acc):
                hyp.append("equals the faded sum WITHOUT the (1+delta) factor")
            if close(acc * (1 - d)):
                hyp.append("equals the faded sum times (1-delta)")
            if close(q[-1] * (1 + d)):
                hyp.append("equals (1+delta) x latest NIS (no memory)")
            if close(math.fsum(q) * (1 + d)):
                hyp.append("equals (1+delta) x un-faded sum")
        return "hypotheses: " + ("; ".join(hyp) if hyp else "none matched")

    def _explain_decision(self, out, dec):
        from scipy.stats import chi2

        a, m, hyp = self.cfg["alpha"], out["metric"], []
        n_last = self.ref.n_hist[-1]
        alts = {"dof = latest dimension only": float(n_last)}
        if self.kind == "sliding":
            alts["dof = window_size x latest dimension"] = float(self.cfg["window"] * n_last)
        if self.kind == "fading":
            d = self.cfg["delta"]
            alts["dof = latest dimension x (1+d)/(1-d)"] = n_last * (1 + d) / (1 - d)
            alts["dof = mean dimension (no (1+d)/(1-d))"] = sum(self.ref.n_hist) / len(self.ref.n_hist)
        for name, dof in alts.items():
            if dof != out["dof"] and (m >= chi2.isf(a, dof)) == dec:
                hyp.append(name)
        if (m >= chi2.ppf(a, out["dof"])) == dec:
            hyp.append("lower-tail bound chi2.ppf(alpha)")
        if (m < out["bound"]) == dec:
            hyp.append("inverted decision")
        return "hypotheses: " + ("; ".join(hyp) if hyp else "none matched")

    def close(self):
        mem = (self.kind == "standard" or (self.kind == "sliding" and len(self.steps) > self.cfg["window"])
               or (self.kind == "fading" and len(self.steps) >= 2))
        return self.n_decisive > 0 and mem


# ---------------------------------------------------------------------------------------------
# workload
# ---------------------------------------------------------------------------------------------
def _pick_alpha(rng):
    u = rng.random()
    if u < 0.14:
        return 1e-6
    if u < 0.28:
        return 0.999
    if u < 0.50:
        return rng.choice([0.05, 0.01, 0.001, 0.1, 0.5, 0.9, 0.95])
    if u < 0.62:
        return 10 ** rng.uniform(-15, -1)
    if u < 0.72:
        return 1.0 - 10 ** rng.uniform(-12, -1)
    if u < 0.74:
        return rng.choice([1e-300, 1e-100, 1 - 2 ** -53])
    a = rng.random()
    return a if 0 < a < 1 else 0.5


def _pick_cfg(rng, kind=None, exact=False):
    kind = kind or rng.choice(KINDS)
    cfg = {"kind": kind, "alpha": _pick_alpha(rng), "via": rng.choice(["ctor", "ctor", "config", "filter"])}
    if exact and cfg["alpha"] < 1e-200:
        cfg["alpha"] = 1e-6
    if kind == "sliding":
        cfg["window"] = rng.choice([1, 2, 3, 4, 10, rng.randint(1, 10), rng.randint(1, 10)])
    if kind == "fading":
        u = rng.random()
        if exact:
            cfg["delta"] = rng.choice(EXACT_DELTAS)
        elif u < 0.35:
            cfg["delta"] = rng.choice([0.8, 0.5, 1e-6, 1e-12, 0.999, 0.999999, 0.25, 0.9])
        else:
            d = rng.random()
            cfg["delta"] = d if 0 < d < 1 else 0.8
    if cfg["via"] == "filter":
        cfg["fmode"] = rng.choice(["plain", "adaptive", "iod"])
    return cfg


def _pick_len(rng, cfg):
    w = cfg.get("window", 4)
    u = rng.random()
    if u < 0.25:
        return max(1, min(50, rng.choice([1, 2, w - 1, w, w + 1, 2 * w, 2 * w + 1, 50])))
    return rng.randint(1, 50)


def _dims(rng, length):
    pat = rng.choice(["const", "random", "random", "alt", "ramp", "blocks"])
    if pat == "const":
        d = rng.randint(1, 8)
        return [d] * length, pat
    if pat == "random":
        return [rng.randint(1, 8) for _ in range(length)], pat
    if pat == "alt":
        a, b = rng.choice([(1, 8), (8, 1), (2, 6), (1, 2)])
        return [a if i % 2 == 0 else b for i in range(length)], pat
    if pat == "ramp":
        return [1 + (i % 8) for i in range(length)], pat
    out, d = [], rng.randint(1, 8)
    for i in range(length):
        if rng.random() < 0.15:
            d = rng.randint(1, 8)
        out.append(d)
    return out, pat


def _spd(nrng, rng, n):
    """Symmetric positive-definite n x n with prescribed spectrum; returns (S, Q, eigenvalues)."""
    u = rng.random()
    cond = 1.0 if u < 0.1 else (1e8 if u < 0.3 else 10 ** rng.uniform(0, 8))
    scale = 10 ** rng.uniform(-10, 10) if rng.random() < 0.7 else 1.0
    if n == 1:
        lam = np.array([scale * 10 ** rng.uniform(-1, 1)])
        return lam.reshape(1, 1).copy(), np.eye(1), lam
    expo = np.sort(nrng.random(n))
    expo[0], expo[-1] = 0.0, 1.0
    lam = scale * cond ** (expo - 1.0)  # largest eigenvalue = scale, smallest = scale / cond
    if rng.random() < 0.12:
        q = np.eye(n)[:, nrng.permutation(n)]
    else:
        q, _ = np.linalg.qr(nrng.standard_normal((n, n)))
    s = (q * lam) @ q.T
    return 0.5 * (s + s.T), q, lam


def _direction(nrng, rng, q, lam):
    n = lam.size
    u = rng.random()
    if u < 0.40 or n == 1:
        return nrng.standard_normal(n)
    if u < 0.52:
        return q[:, -1].copy()             # largest eigenvalue: smallest NIS per unit length
    if u < 0.64:
        return q[:, 0].copy()              # smallest eigenvalue
    if u < 0.80:                            # both ends contribute equally to the NIS (worst case for an explicit inverse)
        return q[:, -1] * math.sqrt(lam[-1]) + q[:, 0] * math.sqrt(lam[0]) * rng.choice([1.0, -1.0])
    if u < 0.90:
        e = np.zeros(n)
        e[rng.randrange(n)] = 1.0
        return e
    return nrng.standard_normal(n) * 10 ** nrng.uniform(-3, 3, n)


def _gen_step(nrng, rng, sess, n, col, allow_mono=True):
    s_mat, q, lam = _spd(nrng, rng, n)
    u = _direction(nrng, rng, q, lam)
    carried, weight, bound = sess.ref.carried(n)
    mode = rng.random()
    if mode < 0.06:
        r = np.zeros(n)
    else:
        qu, _ = chi2ref.nis(u, s_mat)
        if not (qu > 0 and math.isfinite(qu)):
            r = np.zeros(n)
        elif mode < 0.80 and math.isfinite(bound) and bound > 0:
            f = rng.choice(FACTORS)
            need = (f * bound - carried) / weight
            if need <= 0:
                need = bound * 10 ** rng.uniform(-6, -1) / weight
            r = u * math.sqrt(need / qu)
        else:
            r = u * math.sqrt(10 ** rng.uniform(-12, 12) / qu)
    step = {"r": [float(x) for x in r], "S": [[float(x) for x in row] for row in s_mat]}
    if col:
        step["col"] = True
    if allow_mono and rng.random() < 0.30:
        c = rng.choice(SCALES_UP)
        step["mono"] = c if rng.random() < 0.5 else 1.0 / c
    if sess.filt is not None and rng.random() < 0.3:
        step["clear"] = True
    return step


def _ulp_shift(x, k):
    for _ in range(abs(k)):
        x = math.nextafter(x, math.inf if k > 0 else -math.inf)
    return x


def _exact_step(rng, bound, mult):
    """2-D residual with S = I such that fl(mult * fl(r.r)) is bitwise ``bound`` (None if not found)."""
    if not (math.isfinite(bound) and bound > 0):
        return None
    tgt = bound / mult
    for _ in range(60):
        t = rng.uniform(0.05, 0.95)
        r1 = math.sqrt(tgt) * t
        rest = tgt - r1 * r1
        if rest <= 0:
            continue
        r2 = math.sqrt(rest)
        for k in (0, 1, -1, 2, -2, 3, -3, 4, -4):
            r = np.array([r1, _ulp_shift(r2, k)])
            if mult * float(r @ r) == bound:
                return {"r": [float(r[0]), float(r[1])], "S": [[1.0, 0.0], [0.0, 1.0]], "exact": True}
    return None


def _zero_step():
    return {"r": [0.0, 0.0], "S": [[1.0, 0.0], [0.0, 1.0]]}


def _run_exact_history(ctx, nrng, rng):
    """Zero innovations (dimension 2, S = I), then one step landing bitwise on the bound, then ordinary steps."""
    cfg = _pick_cfg(rng, exact=True)
    sess = Session(ctx, cfg)
    kind = cfg["kind"]
    lead = rng.randint(0, 6)
    for _ in range(lead):
        sess.apply(_zero_step())
    _, weight, bound = sess.ref.carried(2)
    if kind == "fading":
        weight = 1.0 + cfg["delta"]
    st = _exact_step(rng, bound, weight)
    if st is None:
        ctx.count("exact_construction_failed")
        st = _zero_step()
    sess.apply(st)
    for _ in range(rng.randint(0, 5)):
        sess.apply(_gen_step(nrng, rng, sess, rng.randint(1, 8), False))
    return [sess]


def _run_group(ctx, nrng, rng):
    """One history, or two histories of the same detector class stepped alternately."""
    cfg = _pick_cfg(rng)
    pair = rng.random() < 0.2
    cfgs = [cfg] + ([_pick_cfg(rng, kind=cfg["kind"])] if pair else [])
    group: list[Session] = []
    for i, c in enumerate(cfgs):
        group.append(Session(ctx, c, group if pair else None, i))
    plans = []
    for s in group:
        length = _pick_len(rng, s.cfg)
        dims, pat = _dims(rng, length)
        plans.append((length, dims, rng.random() < 0.15))
        ctx.add_to_set("dim_patterns", pat)
    for i in range(max(p[0] for p in plans)):
        for s, (length, dims, col) in zip(group, plans):
            if i < length:
                s.apply(_gen_step(nrng, rng, s, dims[i], col))
    if pair:
        ctx.count("interleaved_pairs")
    return group


def _account(ctx, group):
    for s in group:
        c = s.cfg
        dims = [len(st["r"]) for st in s.steps]
        key = ("h", c["kind"], c["via"], c.get("fmode"), repr(c["alpha"]), c.get("window"), repr(c.get("delta")), tuple(dims),
               repr(s.steps[-1]["r"][0]))
        ctx.case(key, nontrivial=s.close())
        ctx.count(f"histories_{c['kind']}")
        ctx.count(f"via_{c['via']}")
        if len(set(dims)) > 1:
            ctx.count("histories_with_varying_dimension")
        if ctx.evaluations % 400 == 1:
            ctx.sample({"detector": c, "length": len(s.steps), "dims": dims, "decisive_steps": s.n_decisive, "detections": s.n_detect})


def run(ctx):
    from .. import core

    core.install_paths()
    import logging

    logging.disable(logging.CRITICAL)
    rng = ctx.pyrng("c17")
    nrng = ctx.rng("c17")
    _ctor_guards(ctx)
    n = ctx.scale(2400, 200_000)
    done = 0
    while done < n and ctx.time_left() > 3:
        if rng.random() < 0.12:
            group = _run_exact_history(ctx, nrng, rng)
        else:
            group = _run_group(ctx, nrng, rng)
        _account(ctx, group)
        done += len(group)
    ctx.add_to_set("k_cond", K_COND)


def _ctor_guards(ctx):
    """Documented parameter domains are enforced (cheap, once per shard)."""
    from resonaate.estimation import maneuver_detection as md

    for w in (0, -1):
        try:
            md.SlidingNis(0.05, window_size=w)
            ok = False
        except ValueError:
            ok = True
        ctx.check(ok, "sliding-accepts-nonpositive-window", f"SlidingNis(window_size={w}) did not raise", {"kind": "ctor", "window": w}, mon="ctor_domain")
    for d in (0.0, 1.0, -0.1, 1.5):
        try:
            md.FadingMemoryNis(0.05, delta=d)
            ok = False
        except ValueError:
            ok = True
        ctx.check(ok, "fading-accepts-delta-outside-0-1", f"FadingMemoryNis(delta={d}) did not raise", {"kind": "ctor", "delta": d}, mon="ctor_domain")
    _no_detector_guard(ctx)


def _no_detector_guard(ctx):
    """A filter without a detector raises nothing and declares nothing."""
    from resonaate.estimation.sequential_filter import FilterFlag

    f = _build_filter({"fmode": "plain"}, None)
    f.innovation, f.innov_cvr = np.array([1e6, 0.0]), np.eye(2)
    f.checkManeuverDetection()
    ctx.check(f.flags == FilterFlag.NONE and f.maneuver_detected is False and f.maneuver_metric is None, "filter-no-detector",
              f"filter without detector: flags={f.flags!r} detected={f.maneuver_detected!r} metric={f.maneuver_metric!r}",
              {"kind": "ctor"}, mon="filter_flags")


def replay(ctx, w):
    from .. import core

    core.install_paths()
    import logging

    logging.disable(logging.CRITICAL)
    if w.get("kind") == "ctor":
        _ctor_guards(ctx)
        return
    hs = w["histories"]
    pair = len(hs) > 1
    group: list[Session] = []
    for i, h in enumerate(hs):
        group.append(Session(ctx, h["cfg"], group if pair else None, i))
    for i in range(max(len(h["steps"]) for h in hs)):
        for s, h in zip(group, hs):
            if i < len(h["steps"]):
                s.apply(copy.deepcopy(h["steps"][i]))
    _account(ctx, group)
