"""C12 - orbital element sets, anomalies and state configurations convert consistently.

Everything is evaluated on the repository's real functions (physics/orbits/{conversions,anomaly,kepler,utils,
elements}.py and scenario/config/state_config.py).  Oracles are the stated relations themselves (round trips,
Kepler residuals, documented ranges) plus refs/keplerref.py: Cartesian states written from the *definition* of the
classical elements (R3(raan) R1(inc) R3(argp) applied to the perifocal state), Danielson's definitions of the
equinoctial set, and an independent safeguarded Kepler solver.

Monitors (ctx.check ``mon=`` names)
  anom_range        every anomaly / longitude conversion returns a value in [0, 2 pi)
  anom_inverse      all inverse pairs of anomaly.py  (nu<->E, E<->M, nu<->M, F<->lambda, nu<->lambda both factors)
  anom_reference    each conversion equals the independent value (circle distance)
  kepler_residual   E - e sin E - M = 0 and F + h cos F - k sin F - lambda = 0 (mod 2 pi) for the returned roots
  kepler_solve      keplerSolveCOE / keplerSolveEQE called directly with the documented initial guesses
  predicates        isEccentric / isInclined against the documented limits (outside a relative 1e-9 / 1e-5 band)
  coe_forward       coe2eci(elements) == definition
  coe_ranges        eci2coe / eqe2coe outputs: e in [0,1), i in [0,pi], raan/argp/anomaly in [0, 2 pi)
  coe_values        eci2coe(state) reproduces a, e, i (always) and the three angles (regular orbits only)
  coe_singular_form undefined elements are returned as 0.0 for singular orbits (documented)
  coe_roundtrip     coe2eci(eci2coe(x)) == x ; ClassicalElements.fromECI(x).toECI() == x
  coe_class_state   ClassicalElements(elements).toECI() == definition (singularityCheck path)
  eqe_forward       eqe2eci(reference set, retro) == definition              (direct and retrograde factor)
  eqe_values        eci2eqe(x, retro) == reference set
  eqe_roundtrip     eqe2eci(eci2eqe(x, retro), retro) == x ; EquinoctialElements.fromECI(x).toECI() == x
  eqe2coe_state     coe2eci(eqe2coe(eci2eqe(x))) == x ;  coe2eqe_state: eqe2eci(coe2eqe(elements | eci2coe(x))) == x
  cfg_*             ECIStateConfig / COEStateConfig (4 forms) / EQEStateConfig (direct, retrograde) built through the
                    real pydantic classes give the same toECI() as the definition of the orbit they describe

State errors are measured as e = max(|dr|/|r|, |dv|/|v|) (dimensionless, i.e. radians of misplacement).

Tolerances (calibrated on the unchanged tree: 6.4e5 orbits + 6.4e5 anomaly cases + 6.4e5 configs, boundary-biased; constants below)
  * T_BASE      rounding of a handful of rotations / dot products
  * arccos seam eci2coe extracts angles with arccos; an argument within k ulp of +-1 loses sqrt(2 k eps) ~ 4e-8 rad,
                elsewhere k eps / |sin angle|.  tol = min(T_SEAM_MAX, C_SEAM / s) / (1 - e), s = min |sin| of the angles
                involved (the 1/(1-e) is the relative velocity sensitivity to an anomaly error near apogee).
  * circular    below ECCENTRICITY_LIMIT the code *documents* nu = E = M and argp := 0  ->  + 4 e per approximated step
  * equatorial  below INCLINATION_LIMIT (and inside the arccos resolution band 1e-7 rad) raan := 0  ->  + 4 min(i, pi - i)
  * EQE         p, q = w_xy / (1 + I w_z): relative conditioning 2 / (1 + I cos i); sets are only exercised where
                this factor is <= 4e6 (1e-3 rad away from their own singular pole)

Mechanism keys of genuine defects seen on the tree this module was built against (each classified from observed facts)
  coe-roundtrip-retrograde-equatorial      i >= 180 deg - 1e-7 rad and the round-trip state equals the state obtained by reading the
                                           returned longitude eastward (eci2coe lacks the i > 90 deg flip of Vallado's rv2coe)
  singularity-check-retrograde-equatorial  same family of orbits, raan != 0: result equals the definition evaluated at -raan
                                           (utils.singularityCheck forms raan + argp (+ nu) instead of argp - raan (+ nu))
  eqe-class-retro-flag-dropped             EquinoctialElements.fromECI / fromCOE(..., retro=True) return an object with is_retro False
  angle-range-upper-end-2pi-wrap           wrapAngle2Pi(-tiny) = 2 pi  (anomaly.py wrappers, singularityCheck, eci2eqe)
  angle-range-upper-end-2pi-quadrant       fixAngleQuadrant(0, negative) = 2 pi - 0  (eci2coe, e.g. true anomaly just before perigee)
Anything else (``coe-roundtrip``, ``eqe-roundtrip-retro``, ``config-*``, ``anomaly-*``, ``kepler-*``, ``*-raised`` ...) is a new mechanism.
"""

from __future__ import annotations

import math

import numpy as np

from ..refs import keplerref as kr

LEVEL = "exploration"
RULE = ("orbit cases: (a, e, i, raan, argp, nu) with a in [6600, 50000] km, e in [0, 0.9) (exact 0, log-uniform "
        "1e-12..1e-5, relative 1e-9..1e-1 around the 1e-7 limit, 0.9-), i in [0, pi] (exact 0 / pi / pi/2, "
        "log-uniform 1e-12..1e-1 from both poles, around both 1e-7 deg limits), angles from {0, 2pi-ulp, k pi/2 +- "
        "1e-12..1e-3, uniform}; anomaly cases: (e, angle) pairs from the same pools; config cases: the same orbit "
        "classes in degrees through the pydantic classes. non-trivial = distinct input tuple on which at least one "
        "deciding monitor was evaluated (every generated case is); singular-class counts are in coverage.class:*")
ASSUME = ["refs/keplerref.py is the reference: classical elements are *defined* by x = R3(raan) R1(inc) R3(argp) x_pqw, "
          "equinoctial elements by Danielson et al. (h = e sin(argp + I raan), p = tan(i/2)^I sin raan, lambda = M + argp + I raan)",
          "mu = 398600.4415 km^3/s^2 shared with the repository",
          "below the documented limits (e < 1e-7, i within 1e-7 deg of 0/180 deg) the documented approximations are "
          "accepted: tolerance grows by 4 e resp. 4 min(i, pi - i)",
          "for COE config forms that replace raan/argp by a longitude on a *retrograde* equatorial orbit either reading of "
          "the longitude (eastward, or along the motion) is accepted"]
SHARDS = {"quick": 4, "thorough": 16}
BUDGET_S = {"quick": 55, "thorough": 560}
DECIDING = ["anom_range", "anom_inverse", "anom_reference", "kepler_residual", "kepler_solve", "predicates",
            "coe_forward", "coe_ranges", "coe_values", "coe_singular_form", "coe_roundtrip", "coe_class_state",
            "eqe_forward", "eqe_values", "eqe_roundtrip", "eqe_other_mu", "eqe2coe_state", "coe2eqe_state",
            "cfg_eci", "cfg_coe_full", "cfg_coe_ecc_equatorial", "cfg_coe_circ_inclined", "cfg_coe_circ_equatorial",
            "cfg_eqe_direct", "cfg_eqe_retro", "helpers"]
MANIFEST = {
    "technique": "runtime monitoring: round-trip, Kepler-residual, range and reference-model oracles over the real element/"
                 "anomaly conversion functions and the pydantic StateConfig classes on boundary-biased generated orbits",
    "level_text": "held on every generated orbit / anomaly / configuration: Cartesian<->COE<->EQE round trips and cross "
                  "conversions reproduce the state, anomaly conversions are inverse and satisfy Kepler's equation, angles "
                  "stay in [0, 2 pi), and ECI / COE (4 forms) / EQE (direct, retrograde) configs give the same toECI()",
    "level_note": "sampled input space (singular and near-threshold families are over-weighted); documented sub-threshold "
                  "approximations accepted; equinoctial sets exercised >= 1e-3 rad away from their own singular pole",
}

PI = math.pi
TWOPI = 2.0 * math.pi
TWOPI_M = math.nextafter(TWOPI, 0.0)
E_LIM = 1e-7
I_LIM = 1e-7 * PI / 180.0
I_BAND = 1e-7          # resolution band of arccos(h_z): below this eci2coe may or may not call the orbit equatorial
R_EARTH = 6378.1363

# ---- calibrated tolerances (worst observed on the unchanged tree in brackets) -------------------------------
T_BASE = 2e-11         # [coe_forward 7.4e-16, class/config paths 3.3e-15]
C_SEAM = 2e-13         # [worst err * s * (1-e) 1.4e-15 away from the seams]
T_SEAM_MAX = 4e-6      # [worst seam error 2.9e-8 = sqrt(2 k eps); x 1/(1-e): 2.3e-7 at e = 0.9, nu = pi]
T_EQE = 2e-11          # times conditioning 2/(1 + I cos i)   [worst err/cond 1.3e-13]
T_ANOM = 2e-11         # anomaly inverse pairs / reference     [worst 1.5e-13 incl. Newton termination]
T_KEPLER = 1e-11       # residual of Kepler's equation         [worst 1.8e-15; Newton step tol 1.48e-8 => err ~ e/(2(1-e)) tol^2]
T_A_REL = 1e-9         # semi-major axis relative               [worst 2.3e-14]
T_E_ABS = 1e-10        # eccentricity absolute                  [worst 2.2e-15]

_WORST: dict[str, float] = {}   # calibration aid (tools read it; never used for verdicts)


# =============================================================================================================
# helpers
# =============================================================================================================
def _f(x):
    return [float(v) for v in x]


def _serr(x, xr):
    x = np.asarray(x, dtype=float)
    if x.shape != (6,) or not np.all(np.isfinite(x)):
        return float("inf")
    return max(float(np.linalg.norm(x[:3] - xr[:3]) / np.linalg.norm(xr[:3])),
               float(np.linalg.norm(x[3:] - xr[3:]) / np.linalg.norm(xr[3:])))


def _worst(mon, ratio):
    if ratio > _WORST.get(mon, 0.0):
        _WORST[mon] = ratio


def _cmp(ctx, mon, key, err, tol, what, wit):
    """``tol`` = numerical tolerance (calibrated) or (numerical tolerance, documented-approximation allowance)."""
    tol, slack = tol if isinstance(tol, tuple) else (tol, 0.0)
    if slack == 0.0 and err <= tol:
        _worst(mon, err / tol if tol > 0 else 0.0)
    tol = tol + slack
    if err <= tol:
        ctx.mon(mon)
        return True
    if callable(key):          # classifier: mechanism key from observed facts, evaluated only on failure
        key = key(tol)
    return ctx.check(False, key, f"{what}: error {err:.3e} > tolerance {tol:.3e}", wit, mon=mon)


def _call(ctx, key, wit, fn, *a, **kw):
    """Call a repository function; an unexpected exception is a violation of its own mechanism."""
    try:
        arrs = [(i, x, x.copy()) for i, x in enumerate(a) if isinstance(x, np.ndarray)]
        out = fn(*a, **kw)
        for i, x, x0 in arrs:
            # a conversion returns a new description of the orbit; the array it was handed stays the caller's
            ctx.check(x.tobytes() == x0.tobytes(), key + "-modified-its-input", f"{getattr(fn, '__name__', fn)} changed argument {i} in place", wit, mon="input_unchanged")
        return True, out
    except Exception as ex:  # noqa: BLE001
        ctx.violation(key + "-raised", f"{getattr(fn, '__name__', fn)} raised {type(ex).__name__}: {str(ex)[:200]}", wit)
        return False, None


def _in_2pi(v):
    return bool(np.isfinite(v)) and 0.0 <= float(v) < TWOPI


def _range_key(v, family="wrap"):
    """2 pi itself (closed upper end) is its own mechanism, per helper family: ``wrap`` = wrapAngle2Pi(-tiny) (anomaly.py,
    singularityCheck, eci2eqe), ``quadrant`` = fixAngleQuadrant(0, negative) = 2 pi - 0 (eci2coe)."""
    return "angle-range-upper-end-2pi-" + family if float(v) == TWOPI else "angle-range"


def _circ(e):
    return e < E_LIM * (1.0 + 1e-6)


def _idev(inc):
    return min(inc, PI - inc)


def _seam_s(*angles):
    return min(abs(math.sin(a)) for a in angles)


def _seam_tol(els):
    a, e, inc, raan, argp, nu = els
    s = _seam_s(inc, raan, argp, nu, argp + nu, raan + argp, raan - argp, raan + argp + nu, raan - argp - nu)
    # an anomaly error d_nu moves the velocity by sqrt(mu/p) d_nu while |v| >= sqrt(mu/p) (1 - e): relative factor 1/(1-e)
    return (T_SEAM_MAX if s <= 0.0 else min(T_SEAM_MAX, C_SEAM / s)) / (1.0 - e)


def _approx_tol(els, circ=True, eq=True):
    """Documented sub-threshold approximations."""
    t = 0.0
    if circ and _circ(els[1]):
        t += 4.0 * els[1]
    if eq and _idev(els[2]) < I_BAND:
        t += 4.0 * _idev(els[2])
    return t


def _classify(els):
    e, inc = els[1], els[2]
    c = "circ" if e < E_LIM else "ecc"
    if inc < I_LIM:
        q = "eq0"
    elif inc > PI - I_LIM:
        q = "eq180"
    else:
        q = "incl"
    return c + "-" + q


def _retro_eq(els):
    """Retrograde-equatorial family (incl. the arccos resolution band where eci2coe may treat the orbit as equatorial)."""
    return PI - els[2] < I_BAND


# =============================================================================================================
# generators
# =============================================================================================================
def _gen_angle(rng):
    r = rng.random()
    if r < 0.07:
        return 0.0
    if r < 0.12:
        return TWOPI_M
    if r < 0.17:
        return PI
    if r < 0.22:
        return rng.choice([0.5 * PI, 1.5 * PI])
    if r < 0.45:
        base = rng.choice([0.0, 0.5 * PI, PI, 1.5 * PI, TWOPI])
        d = 10 ** rng.uniform(-12, -3)
        v = base + (d if rng.random() < 0.5 else -d)
        if v < 0.0:
            v += TWOPI
        if v >= TWOPI:
            v -= TWOPI
        return min(max(v, 0.0), TWOPI_M)
    return rng.uniform(0.0, TWOPI_M)


def _gen_ecc(rng, kind=None):
    r = rng.random()
    if kind == "circ":
        r *= 0.29
    elif kind == "ecc":
        r = 0.29 + 0.71 * r
    if r < 0.06:
        return 0.0
    if r < 0.18:
        return 10 ** rng.uniform(-12, -7.0000001)
    if r < 0.23:
        return E_LIM * (1.0 - 10 ** rng.uniform(-9, -1))
    if r < 0.26:
        return math.nextafter(E_LIM, 0.0)
    if r < 0.29:
        return min(0.5 * E_LIM, 10 ** rng.uniform(-16, -12))
    # eccentric (>= limit)
    if r < 0.34:
        return E_LIM * (1.0 + 10 ** rng.uniform(-9, -1))
    if r < 0.37:
        return rng.choice([E_LIM, math.nextafter(E_LIM, 1.0)])
    if r < 0.47:
        return 10 ** rng.uniform(-6.9999, -2)
    if r < 0.55:
        return 0.9 - 10 ** rng.uniform(-9, -2)
    return rng.uniform(0.0, 0.9) if kind is None else rng.uniform(1e-3, 0.9)


def _gen_inc(rng, kind=None):
    """kind: None any, 'eq0' below limit at 0, 'eq180' below limit at pi, 'incl' inclined."""
    r = rng.random()
    if kind == "eq0":
        if r < 0.35:
            return 0.0
        if r < 0.7:
            return 10 ** rng.uniform(-14, math.log10(I_LIM) - 1e-6)
        return I_LIM * (1.0 - 10 ** rng.uniform(-9, -1))
    if kind == "eq180":
        if r < 0.35:
            return PI
        if r < 0.7:
            return PI - 10 ** rng.uniform(-14, math.log10(I_LIM) - 1e-6)
        return PI - I_LIM * (1.0 - 10 ** rng.uniform(-9, -1))
    # inclined
    pole = rng.random() < 0.5
    if r < 0.10:
        d = I_LIM * (1.0 + 10 ** rng.uniform(-9, -1))
    elif r < 0.25:
        d = 10 ** rng.uniform(math.log10(I_LIM) + 1e-6, -5)       # straddles the arccos resolution 1.5e-8
    elif r < 0.35:
        d = 10 ** rng.uniform(-5, -1)
    elif r < 0.43:
        d = 0.5 * PI + rng.choice([0.0, 1.0, -1.0]) * 10 ** rng.uniform(-12, -3)
        pole = False
    else:
        d = math.acos(rng.uniform(-1.0, 1.0))
        pole = False
        d = min(max(d, 2 * I_LIM), PI - 2 * I_LIM)
    return PI - d if pole else d


def _gen_sma(rng):
    r = rng.random()
    if r < 0.05:
        return rng.choice([6600.0, 50000.0, 42164.1363, 26560.0])
    if r < 0.5:
        return rng.uniform(6600.0, 50000.0)
    return math.exp(rng.uniform(math.log(6600.0), math.log(50000.0)))


def _gen_orbit(rng):
    r = rng.random()
    if r < 0.34:
        ek, ik = "ecc", "incl"
    elif r < 0.46:
        ek, ik = "circ", "incl"
    elif r < 0.56:
        ek, ik = "ecc", "eq0"
    elif r < 0.64:
        ek, ik = "circ", "eq0"
    elif r < 0.74:
        ek, ik = "ecc", "eq180"
    elif r < 0.82:
        ek, ik = "circ", "eq180"
    else:
        ek, ik = None, "incl"   # free eccentricity
    return (_gen_sma(rng), _gen_ecc(rng, ek), _gen_inc(rng, ik), _gen_angle(rng), _gen_angle(rng), _gen_angle(rng))


# =============================================================================================================
# anomaly conversions and Kepler solvers
# =============================================================================================================
def chk_anomaly(ctx, e, ang, raan, argp):
    """All conversions of physics/orbits/anomaly.py at eccentricity ``e`` and angle ``ang`` (any real number)."""
    from resonaate.physics.orbits import anomaly as an

    wit = {"kind": "anom", "e": e, "ang": ang, "raan": raan, "argp": argp}
    circ = _circ(e)
    slack = 4.0 * e if circ else 0.0          # documented nu = E = M for circular orbits
    outs = {}

    def conv(name, fn, *args, **kw):
        ok, v = _call(ctx, "anomaly-" + name, wit, fn, *args, **kw)
        if not ok:
            return None
        v = float(v)
        ctx.check(_in_2pi(v), _range_key(v), f"{name}{args} = {v!r} outside [0, 2pi)", {**wit, "fn": name}, mon="anom_range")
        outs[name] = v
        return v

    # ---- classical: nu, E, M ------------------------------------------------------------------------------
    E_of_nu = conv("trueAnom2EccAnom", an.trueAnom2EccAnom, ang, e)
    M_of_nu = conv("trueAnom2MeanAnom", an.trueAnom2MeanAnom, ang, e)
    nu_of_E = conv("eccAnom2TrueAnom", an.eccAnom2TrueAnom, ang, e)
    M_of_E = conv("eccAnom2MeanAnom", an.eccAnom2MeanAnom, ang, e)
    E_of_M = conv("meanAnom2EccAnom", an.meanAnom2EccAnom, ang, e)
    nu_of_M = conv("meanAnom2TrueAnom", an.meanAnom2TrueAnom, ang, e)

    def ref(name, got, want):
        if got is not None:
            _cmp(ctx, "anom_reference", "anomaly-value-" + name, kr.angdiff(got, want), (T_ANOM, slack),
                 f"{name}({ang!r}, e={e!r}) = {got!r}, independent value {want % TWOPI!r}", {**wit, "fn": name})

    ref("trueAnom2EccAnom", E_of_nu, kr.E_from_nu(ang, e))
    ref("trueAnom2MeanAnom", M_of_nu, kr.M_from_nu(ang, e))
    ref("eccAnom2TrueAnom", nu_of_E, kr.nu_from_E(ang, e))
    ref("eccAnom2MeanAnom", M_of_E, kr.M_from_E(ang, e))
    ref("meanAnom2EccAnom", E_of_M, kr.kepler_E(ang, e))
    ref("meanAnom2TrueAnom", nu_of_M, kr.nu_from_M(ang, e))

    def inv(name, fn, mid, *extra, **kw):
        if mid is None:
            return
        ok, back = _call(ctx, "anomaly-" + name, wit, fn, mid, *extra, **kw)
        if ok:
            back = float(back)
            ctx.check(_in_2pi(back), _range_key(back), f"{name} = {back!r} outside [0, 2pi)", {**wit, "fn": name}, mon="anom_range")
            _cmp(ctx, "anom_inverse", "anomaly-inverse-" + name, kr.angdiff(back, ang), (T_ANOM, slack),
                 f"{name} does not invert its partner at angle {ang!r}, e={e!r}: came back as {back!r}", {**wit, "fn": name})

    inv("eccAnom2TrueAnom", an.eccAnom2TrueAnom, E_of_nu, e)     # nu -> E -> nu
    inv("meanAnom2TrueAnom", an.meanAnom2TrueAnom, M_of_nu, e)   # nu -> M -> nu
    inv("trueAnom2EccAnom", an.trueAnom2EccAnom, nu_of_E, e)     # E -> nu -> E
    inv("meanAnom2EccAnom", an.meanAnom2EccAnom, M_of_E, e)      # E -> M -> E
    inv("eccAnom2MeanAnom", an.eccAnom2MeanAnom, E_of_M, e)      # M -> E -> M
    inv("trueAnom2MeanAnom", an.trueAnom2MeanAnom, nu_of_M, e)   # M -> nu -> M

    # Kepler's equation on the returned root
    if E_of_M is not None and not circ:
        res = kr.angdiff(E_of_M - e * math.sin(E_of_M), ang)
        _cmp(ctx, "kepler_residual", "kepler-residual-coe", res, T_KEPLER,
             f"meanAnom2EccAnom({ang!r}, {e!r}) = {E_of_M!r} leaves Kepler residual", {**wit, "fn": "meanAnom2EccAnom"})

    # ---- equinoctial: F, lambda ; h = e sin(varpi), k = e cos(varpi) ----------------------------------------
    for retro in (False, True):
        II = -1.0 if retro else 1.0
        varpi = argp + II * raan
        h, k = e * math.sin(varpi), e * math.cos(varpi)
        e_hk = math.hypot(h, k)
        circ_hk = _circ(e_hk) or circ
        sl = 4.0 * e if circ_hk else 0.0
        w2 = {**wit, "retro": retro}
        if not retro:
            lam_of_F = conv("eccLong2MeanLong", an.eccLong2MeanLong, ang, h, k)
            F_of_lam = conv("meanLong2EccLong", an.meanLong2EccLong, ang, h, k)
            if lam_of_F is not None:
                _cmp(ctx, "anom_reference", "anomaly-value-eccLong2MeanLong", kr.angdiff(lam_of_F, ang + h * math.cos(ang) - k * math.sin(ang)),
                     (T_ANOM, sl), f"eccLong2MeanLong({ang!r}, {h!r}, {k!r}) = {lam_of_F!r}", {**w2, "fn": "eccLong2MeanLong"})
                ok, Fb = _call(ctx, "anomaly-meanLong2EccLong", w2, an.meanLong2EccLong, lam_of_F, h, k)
                if ok:
                    _cmp(ctx, "anom_inverse", "anomaly-inverse-meanLong2EccLong", kr.angdiff(float(Fb), ang), (T_ANOM, sl),
                         f"F -> lambda -> F at F={ang!r}, h={h!r}, k={k!r} came back as {float(Fb)!r}", {**w2, "fn": "meanLong2EccLong"})
            if F_of_lam is not None:
                _cmp(ctx, "anom_reference", "anomaly-value-meanLong2EccLong", kr.angdiff(F_of_lam, kr.kepler_F(ang, h, k)),
                     (T_ANOM, sl), f"meanLong2EccLong({ang!r}, {h!r}, {k!r}) = {F_of_lam!r}", {**w2, "fn": "meanLong2EccLong"})
                if not circ_hk:
                    res = kr.angdiff(F_of_lam + h * math.cos(F_of_lam) - k * math.sin(F_of_lam), ang)
                    _cmp(ctx, "kepler_residual", "kepler-residual-eqe", res, T_KEPLER,
                         f"meanLong2EccLong({ang!r}, {h!r}, {k!r}) = {F_of_lam!r} leaves equinoctial Kepler residual", {**w2, "fn": "meanLong2EccLong"})
                ok, lb = _call(ctx, "anomaly-eccLong2MeanLong", w2, an.eccLong2MeanLong, F_of_lam, h, k)
                if ok:
                    _cmp(ctx, "anom_inverse", "anomaly-inverse-eccLong2MeanLong", kr.angdiff(float(lb), ang), (T_ANOM, sl),
                         f"lambda -> F -> lambda at lambda={ang!r} came back as {float(lb)!r}", {**w2, "fn": "eccLong2MeanLong"})
        # nu <-> lambda with both retrograde factors
        ok, lam = _call(ctx, "anomaly-trueAnom2MeanLong", w2, an.trueAnom2MeanLong, ang, e, raan, argp, retro=retro)
        if ok:
            lam = float(lam)
            ctx.check(_in_2pi(lam), _range_key(lam), f"trueAnom2MeanLong = {lam!r} outside [0, 2pi)", {**w2, "fn": "trueAnom2MeanLong"}, mon="anom_range")
            key = "anomaly-value-trueAnom2MeanLong" + ("-retro" if retro else "")
            _cmp(ctx, "anom_reference", key, kr.angdiff(lam, kr.M_from_nu(ang, e) + varpi), (T_ANOM, slack),
                 f"trueAnom2MeanLong({ang!r}, {e!r}, raan={raan!r}, argp={argp!r}, retro={retro}) = {lam!r}, definition M + argp + I raan", {**w2, "fn": "trueAnom2MeanLong"})
            ok, nb = _call(ctx, "anomaly-meanLong2TrueAnom", w2, an.meanLong2TrueAnom, lam, e, raan, argp, retro=retro)
            if ok:
                nb = float(nb)
                ctx.check(_in_2pi(nb), _range_key(nb), f"meanLong2TrueAnom = {nb!r} outside [0, 2pi)", {**w2, "fn": "meanLong2TrueAnom"}, mon="anom_range")
                _cmp(ctx, "anom_inverse", "anomaly-inverse-meanLong2TrueAnom" + ("-retro" if retro else ""), kr.angdiff(nb, ang), (T_ANOM, slack),
                     f"nu -> lambda -> nu (retro={retro}) at nu={ang!r}, e={e!r} came back as {nb!r}", {**w2, "fn": "meanLong2TrueAnom"})
        ok, nu2 = _call(ctx, "anomaly-meanLong2TrueAnom", w2, an.meanLong2TrueAnom, ang, e, raan, argp, retro=retro)
        if ok:
            nu2 = float(nu2)
            key = "anomaly-value-meanLong2TrueAnom" + ("-retro" if retro else "")
            _cmp(ctx, "anom_reference", key, kr.angdiff(nu2, kr.nu_from_M(ang - varpi, e)), (T_ANOM, slack),
                 f"meanLong2TrueAnom({ang!r}, {e!r}, raan={raan!r}, argp={argp!r}, retro={retro}) = {nu2!r}", {**w2, "fn": "meanLong2TrueAnom"})


def chk_kepler(ctx, e, M, varpi):
    """keplerSolveCOE / keplerSolveEQE called directly; M in [-2pi, 2pi] (documented), Vallado's initial guess."""
    from resonaate.physics.orbits.kepler import keplerSolveCOE, keplerSolveEQE

    wit = {"kind": "kepler", "e": e, "M": M, "varpi": varpi}
    E0 = M - e if (-PI < M < 0.0 or M > PI) else M + e      # Vallado Algorithm 2
    ok, E = _call(ctx, "kepler-solve-coe", wit, keplerSolveCOE, E0, M, e)
    if ok:
        E = float(E)
        _cmp(ctx, "kepler_solve", "kepler-solve-coe-residual", abs(E - e * math.sin(E) - M), T_KEPLER,
             f"keplerSolveCOE({E0!r}, {M!r}, {e!r}) = {E!r} leaves residual", wit)
        _cmp(ctx, "kepler_solve", "kepler-solve-coe-value", kr.angdiff(E, kr.kepler_E(M, e)), T_ANOM,
             f"keplerSolveCOE({E0!r}, {M!r}, {e!r}) = {E!r} differs from the independent root", wit)
    h, k = e * math.sin(varpi), e * math.cos(varpi)
    lam = M
    ok, F = _call(ctx, "kepler-solve-eqe", wit, keplerSolveEQE, lam, h, k, lam)
    if ok:
        F = float(F)
        _cmp(ctx, "kepler_solve", "kepler-solve-eqe-residual", abs(F + h * math.cos(F) - k * math.sin(F) - lam), T_KEPLER,
             f"keplerSolveEQE({lam!r}, {h!r}, {k!r}, {lam!r}) = {F!r} leaves residual", wit)
        _cmp(ctx, "kepler_solve", "kepler-solve-eqe-value", kr.angdiff(F, kr.kepler_F(lam, h, k)), T_ANOM,
             f"keplerSolveEQE({lam!r}, {h!r}, {k!r}, {lam!r}) = {F!r} differs from the independent root", wit)


def chk_predicates(ctx, e, inc):
    from resonaate.physics.orbits import isEccentric, isInclined

    wit = {"kind": "pred", "e": e, "inc": inc}
    if abs(e - E_LIM) > 1e-9 * E_LIM:
        ok, v = _call(ctx, "predicate-isEccentric", wit, isEccentric, e)
        if ok:
            ctx.check(bool(v) == (e >= E_LIM), "predicate-isEccentric", f"isEccentric({e!r}) = {v}, documented limit 1e-7", wit, mon="predicates")
    d = _idev(inc)
    if abs(d - I_LIM) > 1e-5 * I_LIM:       # pi - tol is rounded to ulp(pi) = 4.4e-16 = 2.5e-7 I_LIM
        ok, v = _call(ctx, "predicate-isInclined", wit, isInclined, inc)
        if ok:
            ctx.check(bool(v) == (d >= I_LIM), "predicate-isInclined", f"isInclined({inc!r}) = {v}, documented limit 1e-7 deg from 0/180 deg", wit, mon="predicates")


# =============================================================================================================
# element sets <-> Cartesian state
# =============================================================================================================
def _coe_ranges(ctx, c, wit, src):
    ok = True
    sma, ecc, inc, raan, argp, anom = (float(v) for v in c)
    ok &= ctx.check(np.isfinite(sma) and sma > 0 and 0.0 <= ecc < 1.0 and 0.0 <= inc <= PI, "coe-range-a-e-i",
                    f"{src}: a={sma!r}, e={ecc!r}, i={inc!r} outside a>0, e in [0,1), i in [0,pi]", wit, mon="coe_ranges")
    for nm, v in (("raan", raan), ("argp", argp), ("anomaly", anom)):
        ok &= ctx.check(_in_2pi(v), _range_key(v, "quadrant" if src == "eci2coe" else "wrap"), f"{src}: {nm} = {v!r} outside [0, 2pi)", {**wit, "fn": src, "element": nm}, mon="coe_ranges")
    return ok


def chk_orbit_helpers(ctx, els, mu_other):
    """State -> anomaly / flight-path / momentum-direction helpers and the class flags, against the element definitions."""
    from resonaate.physics.orbits.elements import ClassicalElements
    from resonaate.physics.orbits.utils import (getAngularMomentumFromEQE, getFlightPathAngle, getMeanMotion, getSmaFromMeanMotion,
                                                getTrueAnomalyFromRV, retrogradeFactor)

    els = tuple(float(v) for v in els)
    sma, e, inc, raan, argp, nu = els
    wit = {"kind": "helpers", "els": list(els), "mu_other": mu_other}
    xr = np.array(kr.state_from_coe(*els))
    r, v = xr[:3], xr[3:]
    # an angle recovered through arccos loses digits next to 0 and pi: error ~ eps / |sin(nu)|, at most sqrt(2 eps) = 2e-8
    t_nu = 1e-9 / max(e, 1e-3) + min(1e-12 / max(abs(math.sin(nu)), 1e-300), 2e-7)
    if e >= 1e-3:
        ok, got = _call(ctx, "true-anomaly-from-state", wit, getTrueAnomalyFromRV, xr)
        if ok:
            _cmp(ctx, "helpers", "true-anomaly-from-state", abs(kr.angdiff(float(got), nu)), t_nu, f"getTrueAnomalyFromRV = {got!r} for a state at true anomaly {nu!r}", wit)
        xo = np.array(kr.state_from_coe(*els, mu=mu_other))
        ok, got = _call(ctx, "true-anomaly-from-state", wit, getTrueAnomalyFromRV, xo, mu_other)
        if ok:
            _cmp(ctx, "helpers", "true-anomaly-from-state-other-mu", abs(kr.angdiff(float(got), nu)), t_nu, f"getTrueAnomalyFromRV(mu={mu_other}) = {got!r} for a state at true anomaly {nu!r}", wit)
    ok, fpa = _call(ctx, "flight-path-angle", wit, getFlightPathAngle, e, nu)
    if ok:
        ref = math.asin(max(-1.0, min(1.0, float(r @ v) / (np.linalg.norm(r) * np.linalg.norm(v)))))
        _cmp(ctx, "helpers", "flight-path-angle", abs(kr.angdiff(float(fpa), ref)), 1e-10, f"getFlightPathAngle({e!r}, {nu!r}) = {fpa!r}; the velocity is {ref!r} rad above the local horizontal", wit)
    for mu in (kr.MU, mu_other):
        ok, a2 = _call(ctx, "sma-from-mean-motion", wit, lambda m=mu: getSmaFromMeanMotion(getMeanMotion(sma, m), m))
        if ok:
            _cmp(ctx, "helpers", "sma-from-mean-motion", abs(float(a2) - sma) / sma, 1e-13, f"getSmaFromMeanMotion(getMeanMotion(a)) = {a2!r} for a = {sma!r} (mu = {mu})", wit)
        ok, n_ = _call(ctx, "mean-motion", wit, getMeanMotion, sma, mu)
        if ok:
            _cmp(ctx, "helpers", "mean-motion", abs(float(n_) - math.sqrt(mu / sma ** 3)) / float(n_), 1e-13, "getMeanMotion != sqrt(mu / a^3)", wit)
    hhat = np.cross(r, v)
    hhat /= np.linalg.norm(hhat)
    for retro in (False, True):
        if (retro and inc < 0.05) or (not retro and inc > PI - 0.05):
            continue            # tan(i/2) (resp. its reciprocal) is unbounded there
        _a, _h, _k, p_, q_, _l = kr.eqe_from_coe(*els, retro=retro)
        ok, hv = _call(ctx, "momentum-direction-from-eqe", wit, getAngularMomentumFromEQE, p_, q_, retro)
        if ok:
            _cmp(ctx, "helpers", "momentum-direction-from-eqe" + ("-retro" if retro else ""), float(np.linalg.norm(np.asarray(hv, dtype=float) - hhat)), 1e-12 * (1 + p_ * p_ + q_ * q_),
                 f"getAngularMomentumFromEQE(p, q, retro={retro}) differs from r x v / |r x v|", wit)
    # class flags of an element object built from the state (outside a band around the documented limits)
    d = _idev(inc)
    # (an inclination recovered from a state resolves sqrt(2 eps) = 2e-8 rad at best, so only clearly inclined and exactly
    # equatorial states have a flag the documented limit decides)
    if abs(e - E_LIM) > 0.5 * E_LIM and (d >= 1e-6 or inc == 0.0) and not _retro_eq(els):
        ok, obj = _call(ctx, "classical-elements-from-state", wit, ClassicalElements.fromECI, xr)
        if ok:
            flags = (bool(obj.is_eccentric), bool(obj.is_circular), bool(obj.is_inclined), bool(obj.is_equatorial))
            want = (e >= E_LIM, e < E_LIM, d >= I_LIM, d < I_LIM)
            ctx.check(flags == want, "element-class-flags", f"(is_eccentric, is_circular, is_inclined, is_equatorial) = {flags} for e = {e!r}, inclination {d!r} rad from the equator; documented limits give {want}", wit, mon="helpers")
    if d >= 10 * I_LIM:
        ctx.check(retrogradeFactor(inc) == 1, "retrograde-factor", f"retrogradeFactor({inc!r}) = {retrogradeFactor(inc)} for an inclined orbit", wit, mon="helpers")
    ctx.check(retrogradeFactor(PI) == -1 and retrogradeFactor(0.0) == 1, "retrograde-factor", "retrogradeFactor(pi) / retrogradeFactor(0) are not -1 / +1", wit, mon="helpers")


def chk_orbit(ctx, els):
    from resonaate.physics.orbits.conversions import coe2eci, coe2eqe, eci2coe, eci2eqe, eqe2coe, eqe2eci
    from resonaate.physics.orbits.elements import ClassicalElements, EquinoctialElements

    els = tuple(float(v) for v in els)
    sma, e, inc, raan, argp, nu = els
    wit = {"kind": "orbit", "els": list(els)}
    xr = kr.state_from_coe(*els)
    cls = _classify(els)
    retro_eq = _retro_eq(els)
    seam = _seam_tol(els)
    apx = _approx_tol(els)
    sfx = "-retrograde-equatorial" if retro_eq else ""

    # classifiers for the two retrograde-equatorial mechanisms (signature = the state the mechanism would produce)
    def key_a(x, generic):
        """eci2coe returns the *eastward* longitude (of periapsis / true) although coe2eci at i = pi turns clockwise."""
        def k(tol):
            if retro_eq:
                for sig in ((sma, e, inc, 0.0, raan - argp, nu), (sma, e, inc, 0.0, 0.0, raan - argp - nu)):   # eccentric / circular form
                    if _serr(x, kr.state_from_coe(*sig)) <= 2.0 * tol + 4.0 * (e if e < 2 * E_LIM else 0.0):
                        return "coe-roundtrip-retrograde-equatorial"
            return generic + sfx
        return k

    def key_b(x, generic):
        """singularityCheck forms raan + argp (+ anomaly) where a retrograde equatorial orbit needs argp - raan."""
        def k(tol):
            if retro_eq and _serr(x, kr.state_from_coe(sma, e, inc, -raan, argp, nu)) <= 2.0 * tol:
                return "singularity-check-retrograde-equatorial"
            return generic + sfx
        return k

    # ---- forward: coe2eci is the definition ---------------------------------------------------------------
    ok, xf = _call(ctx, "coe2eci", wit, coe2eci, *els)
    if ok:
        _cmp(ctx, "coe_forward", "coe2eci-definition", _serr(xf, xr), T_BASE, f"coe2eci{els} differs from R3(raan) R1(inc) R3(argp) x_pqw", wit)

    # ---- eci -> coe ---------------------------------------------------------------------------------------
    ok, c = _call(ctx, "eci2coe", wit, eci2coe, xr)
    rt_ok = False
    if ok:
        c = tuple(float(v) for v in c)
        _coe_ranges(ctx, c, wit, "eci2coe")
        _cmp(ctx, "coe_values", "eci2coe-sma", abs(c[0] - sma) / sma, T_A_REL, f"eci2coe semi-major axis {c[0]!r} vs {sma!r}", wit)
        _cmp(ctx, "coe_values", "eci2coe-ecc", abs(c[1] - e), T_E_ABS, f"eci2coe eccentricity {c[1]!r} vs {e!r}", wit)
        si = abs(math.sin(inc))
        tol_i = T_SEAM_MAX if si <= 0 else min(T_SEAM_MAX, C_SEAM / si) + T_BASE
        _cmp(ctx, "coe_values", "eci2coe-inc", abs(c[2] - inc), tol_i, f"eci2coe inclination {c[2]!r} vs {inc!r}", wit)
        if e >= 1e-4 and si >= 1e-4:
            for nm, got, want in (("raan", c[3], raan), ("argp", c[4], argp), ("true-anomaly", c[5], nu)):
                _cmp(ctx, "coe_values", "eci2coe-" + nm, kr.angdiff(got, want), seam + 1e-9,
                     f"eci2coe {nm} {got!r} vs {want!r} (e={e!r}, i={inc!r})", wit)
        # documented zeroing of undefined elements
        if e < E_LIM * (1 - 1e-6):
            ctx.check(c[4] == 0.0, "singular-form-argp", f"circular orbit (e={e!r}) but eci2coe argp = {c[4]!r}", wit, mon="coe_singular_form")
        if _idev(inc) <= 1e-10:
            ctx.check(c[3] == 0.0, "singular-form-raan", f"equatorial orbit (i={inc!r}) but eci2coe raan = {c[3]!r}", wit, mon="coe_singular_form")
        # round trip
        ok2, xb = _call(ctx, "coe2eci", wit, coe2eci, *c)
        if ok2:
            rt_ok = _cmp(ctx, "coe_roundtrip", key_a(xb, "coe-roundtrip"), _serr(xb, xr), (T_BASE + seam, apx),
                         f"coe2eci(eci2coe(x)) != x for {cls} orbit {els}; eci2coe gave {c}", wit)
        ok3, xc = _call(ctx, "coe-class-fromECI", wit, lambda: ClassicalElements.fromECI(xr).toECI())
        if ok3:
            _cmp(ctx, "coe_roundtrip", key_a(xc, "coe-class-roundtrip"), _serr(xc, xr), (T_BASE + seam, 2 * apx),
                 f"ClassicalElements.fromECI(x).toECI() != x for {cls} orbit {els}", wit)

    # ---- ClassicalElements(elements): singularityCheck path -------------------------------------------------
    ok, xs = _call(ctx, "coe-class", wit, lambda: ClassicalElements(*els).toECI())
    if ok:
        _cmp(ctx, "coe_class_state", key_b(xs, "coe-class-state"), _serr(xs, xr), (T_BASE, apx),
             f"ClassicalElements{els}.toECI() differs from the definition of these elements ({cls})", wit)

    # ---- equinoctial sets, both retrograde factors ---------------------------------------------------------
    for retro in (False, True):
        II = -1.0 if retro else 1.0
        den = 1.0 + II * math.cos(inc)
        if den < 5e-7:
            ctx.count("eqe_skipped_at_own_singularity")
            continue
        cond = 2.0 / den
        w2 = {**wit, "retro": retro}
        tq = T_EQE * cond
        rs = "-retro" if retro else ""
        qr = kr.eqe_from_coe(*els, retro=retro)
        ok, xq = _call(ctx, "eqe2eci" + rs, w2, eqe2eci, *qr, retro=retro)
        if ok:
            _cmp(ctx, "eqe_forward", "eqe2eci-definition" + rs, _serr(xq, xr), (tq, _approx_tol(els, eq=False)),
                 f"eqe2eci(reference set, retro={retro}) differs from the definition for {cls} orbit {els}", w2)
        ok, q = _call(ctx, "eci2eqe" + rs, w2, eci2eqe, xr, retro=retro)
        if ok:
            q = tuple(float(v) for v in q)
            ctx.check(_in_2pi(q[5]), _range_key(q[5]), f"eci2eqe mean longitude {q[5]!r} outside [0, 2pi)", {**w2, "fn": "eci2eqe"}, mon="coe_ranges")
            scale = max(1.0, math.hypot(qr[3], qr[4]))
            dv = max(abs(q[0] - qr[0]) / sma / 1e2, abs(q[1] - qr[1]), abs(q[2] - qr[2]), abs(q[3] - qr[3]) / scale, abs(q[4] - qr[4]) / scale,
                     kr.angdiff(q[5], qr[5]))
            _cmp(ctx, "eqe_values", "eci2eqe-values" + rs, dv, (tq, _approx_tol(els, eq=False)),
                 f"eci2eqe(x, retro={retro}) = {q} differs from Danielson's definition {qr}", w2)
            ok2, xb = _call(ctx, "eqe2eci" + rs, w2, eqe2eci, *q, retro=retro)
            if ok2:
                _cmp(ctx, "eqe_roundtrip", "eqe-roundtrip" + rs, _serr(xb, xr), (tq, _approx_tol(els, eq=False)),
                     f"eqe2eci(eci2eqe(x, retro={retro})) != x for {cls} orbit {els}", w2)
            # another gravitational parameter: with mu' = s*mu the state (r, sqrt(s) v) has the same elements
            if int(abs(nu) * 1e6) % 4 == 0:
                from resonaate.physics.bodies.earth import Earth

                sc = (0.5, 2.0, 1.001, 4902.800066 / 398600.4418)[int(abs(raan) * 1e6) % 4]
                xsc = np.concatenate([np.asarray(xr, dtype=float)[:3], np.asarray(xr, dtype=float)[3:] * math.sqrt(sc)])
                okm, qm = _call(ctx, "eci2eqe-other-mu" + rs, w2, eci2eqe, xsc, mu=Earth.mu * sc, retro=retro)
                if okm:
                    qm = tuple(float(v) for v in qm)
                    dm = max(abs(qm[0] - q[0]) / sma / 1e2, abs(qm[1] - q[1]), abs(qm[2] - q[2]), abs(qm[3] - q[3]) / scale, abs(qm[4] - q[4]) / scale, kr.angdiff(qm[5], q[5]))
                    _cmp(ctx, "eqe_other_mu", "eci2eqe-other-mu" + rs, dm, (tq, _approx_tol(els, eq=False)),
                         f"eci2eqe((r, sqrt(s) v), mu = s*mu, retro={retro}) with s = {sc:.6g} gives {qm}, the Earth-mu elements of (r, v) are {q}", {**w2, "mu_scale": sc})
                okm, xm = _call(ctx, "eqe2eci-other-mu" + rs, w2, eqe2eci, *q, mu=Earth.mu * sc, retro=retro)
                if okm:
                    _cmp(ctx, "eqe_other_mu", "eqe2eci-other-mu" + rs, _serr(np.concatenate([np.asarray(xm, dtype=float)[:3], np.asarray(xm, dtype=float)[3:] / math.sqrt(sc)]), xr), (tq, _approx_tol(els, eq=False)),
                         f"eqe2eci(elements, mu = s*mu, retro={retro}) with s = {sc:.6g} is not (r, sqrt(s) v) of the Earth-mu state", {**w2, "mu_scale": sc})
            # EQE -> COE -> state
            ok2, c2 = _call(ctx, "eqe2coe" + rs, w2, eqe2coe, *q, retro=retro)
            if ok2:
                c2 = tuple(float(v) for v in c2)
                _coe_ranges(ctx, c2, w2, "eqe2coe")
                ok3, x2 = _call(ctx, "coe2eci", w2, coe2eci, *c2)
                if ok3:
                    _cmp(ctx, "eqe2coe_state", key_b(x2, "eqe2coe-state" + rs), _serr(x2, xr), (tq + T_BASE, 2 * apx),
                         f"coe2eci(eqe2coe(eci2eqe(x), retro={retro})) != x for {cls} orbit {els}; eqe2coe gave {c2}", w2)
        def key_c(obj, generic):
            """the factory was asked for the retrograde set but the object it returns says is_retro == False"""
            return lambda tol: "eqe-class-retro-flag-dropped" if (retro and not obj.is_retro) else generic + rs

        ok, ob = _call(ctx, "eqe-class-fromECI" + rs, w2, lambda: EquinoctialElements.fromECI(xr, retro=retro))
        ok, xe = _call(ctx, "eqe-class-toECI" + rs, w2, ob.toECI) if ok else (False, None)
        if ok:
            _cmp(ctx, "eqe_roundtrip", key_c(ob, "eqe-class-roundtrip"), _serr(xe, xr), (tq, _approx_tol(els, eq=False)),
                 f"EquinoctialElements.fromECI(x, retro={retro}).toECI() != x for {cls} orbit {els} (object.is_retro = {ob.is_retro})", w2)
        ok, ob = _call(ctx, "eqe-class-fromCOE" + rs, w2, lambda: EquinoctialElements.fromCOE(*els, retro=retro))
        ok, xe = _call(ctx, "eqe-class-toECI" + rs, w2, ob.toECI) if ok else (False, None)
        if ok:
            _cmp(ctx, "coe2eqe_state", key_c(ob, "eqe-class-fromCOE"), _serr(xe, xr), (tq + T_BASE, 2 * _approx_tol(els, eq=False)),
                 f"EquinoctialElements.fromCOE(elements, retro={retro}).toECI() differs from the definition for {cls} orbit {els} "
                 f"(object.is_retro = {ob.is_retro})", w2)
        ok, xe = _call(ctx, "coe-class-fromEQE" + rs, w2, lambda: ClassicalElements.fromEQE(*qr, retro=retro).toECI())
        if ok:
            _cmp(ctx, "eqe2coe_state", key_b(xe, "coe-class-fromEQE" + rs), _serr(xe, xr), (tq + T_BASE, 2 * apx),
                 f"ClassicalElements.fromEQE(reference set, retro={retro}).toECI() differs from the definition for {cls} orbit {els}", w2)
        # COE -> EQE -> state (from the defining elements, and from what eci2coe returned when that round trip held)
        ok, q3 = _call(ctx, "coe2eqe" + rs, w2, coe2eqe, *els, retro=retro)
        if ok:
            ok2, x3 = _call(ctx, "eqe2eci" + rs, w2, eqe2eci, *q3, retro=retro)
            if ok2:
                _cmp(ctx, "coe2eqe_state", "coe2eqe-state" + rs, _serr(x3, xr), (tq + T_BASE, 2 * _approx_tol(els, eq=False)),
                     f"eqe2eci(coe2eqe(elements, retro={retro})) differs from the definition for {cls} orbit {els}", w2)
        if rt_ok:
            ok, q4 = _call(ctx, "coe2eqe" + rs, w2, coe2eqe, *c, retro=retro)
            if ok:
                ok2, x4 = _call(ctx, "eqe2eci" + rs, w2, eqe2eci, *q4, retro=retro)
                if ok2:
                    _cmp(ctx, "coe2eqe_state", "coe2eqe-after-eci2coe" + rs, _serr(x4, xr), (tq + T_BASE + seam, 2 * apx),
                         f"eqe2eci(coe2eqe(eci2coe(x), retro={retro})) != x for {cls} orbit {els}", w2)
        else:
            ctx.count("dependent_check_skipped_after_failed_coe_roundtrip")
    ctx.count("class:" + cls)
    return cls


# =============================================================================================================
# configuration level
# =============================================================================================================
_DEG_SPECIAL = [0.0, 90.0, 180.0, 270.0, math.nextafter(360.0, 0.0), 1e-9, 359.999999, 179.9999999, 180.0000001, 45.0, 30.0]


def _gen_deg(rng):
    r = rng.random()
    if r < 0.3:
        return rng.choice(_DEG_SPECIAL)
    if r < 0.4:
        base = rng.choice([0.0, 90.0, 180.0, 270.0, 360.0])
        d = 10 ** rng.uniform(-10, -2)
        v = base + (d if rng.random() < 0.5 else -d)
        return min(max(v % 360.0, 0.0), math.nextafter(360.0, 0.0))
    return rng.uniform(0.0, 359.9999999)


def _gen_cfg(rng):
    """(a, e, inc_deg, raan_deg, argp_deg, nu_deg) by orbit class."""
    r = rng.random()
    if r < 0.30:
        ek, ik = "ecc", "incl"
    elif r < 0.45:
        ek, ik = "circ", "incl"
    elif r < 0.58:
        ek, ik = "ecc", "eq0"
    elif r < 0.70:
        ek, ik = "circ", "eq0"
    elif r < 0.80:
        ek, ik = "ecc", "eq180"
    elif r < 0.88:
        ek, ik = "circ", "eq180"
    else:
        ek, ik = None, "incl"
    e = _gen_ecc(rng, ek)
    if ik == "eq0":
        inc = rng.choice([0.0, 0.0, 10 ** rng.uniform(-12, -7.01), 1e-7 * (1 - 10 ** rng.uniform(-6, -1))])
    elif ik == "eq180":
        inc = 180.0 - rng.choice([0.0, 0.0, 10 ** rng.uniform(-12, -7.01), 1e-7 * (1 - 10 ** rng.uniform(-6, -1))])
    else:
        inc = _gen_inc(rng, "incl") * 180.0 / PI
        inc = min(max(inc, 2e-7), 180.0 - 2e-7)
    raan = _gen_deg(rng)
    if ik == "eq180" and rng.random() < 0.5:
        raan = 0.0
    return (_gen_sma(rng), e, inc, raan, _gen_deg(rng), _gen_deg(rng))


def _mod360(v):
    v = math.fmod(v, 360.0)
    if v < 0.0:
        v += 360.0
    return v if v < 360.0 else 0.0


def chk_config(ctx, cfg):
    from datetime import datetime

    from resonaate.scenario.config.state_config import COEStateConfig, ECIStateConfig, EQEStateConfig

    sma, e, inc_d, raan_d, argp_d, nu_d = (float(v) for v in cfg)
    wit = {"kind": "config", "cfg": [sma, e, inc_d, raan_d, argp_d, nu_d]}
    d2r = PI / 180.0
    els = (sma, e, inc_d * d2r, raan_d * d2r, argp_d * d2r, nu_d * d2r)
    inc = els[2]
    xr = kr.state_from_coe(*els)
    cls = _classify(els)
    t0 = datetime(2020, 1, 1)
    apx = _approx_tol(els)
    circ = e < E_LIM
    eq0 = inc < I_LIM
    eq180 = PI - inc < I_LIM
    states = {}

    def key_b(x, generic):
        """singularityCheck forms raan + argp (+ anomaly) where a retrograde equatorial orbit needs argp - raan."""
        def k(tol):
            if eq180 and _serr(x, kr.state_from_coe(sma, e, inc, -els[3], els[4], els[5])) <= 2.0 * tol:
                return "singularity-check-retrograde-equatorial"
            return generic + ("-retrograde-equatorial" if eq180 else "")
        return k

    def build(name, cls_, **kw):
        try:
            return True, cls_(**kw).toECI(t0)
        except Exception as ex:  # noqa: BLE001
            ctx.violation("config-" + name + "-raised", f"{cls_.__name__}(**{kw}).toECI raised {type(ex).__name__}: {str(ex)[:300]}", {**wit, "form": name})
            return False, None

    # 1. Cartesian description
    if float(np.linalg.norm(xr[:3])) > R_EARTH + 1e-3:
        ok, x = build("eci", ECIStateConfig, position=_f(xr[:3]), velocity=_f(xr[3:]))
        if ok:
            states["eci"] = x
            _cmp(ctx, "cfg_eci", "config-eci", _serr(x, xr), 1e-15, "ECIStateConfig.toECI() != the configured state", {**wit, "form": "eci"})
    else:
        ctx.count("cfg_eci_skipped_inside_earth")

    # 2. classical elements, form 1 (raan, argp, nu): valid for every orbit
    ok, x = build("coe-full", COEStateConfig, semi_major_axis=sma, eccentricity=e, inclination=inc_d,
                  right_ascension=raan_d, argument_periapsis=argp_d, true_anomaly=nu_d)
    if ok:
        states["coe-full"] = x
        _cmp(ctx, "cfg_coe_full", key_b(x, "config-coe-full"), _serr(x, xr), (T_BASE, apx),
             f"COEStateConfig(a, e, i, raan, argp, nu) of a {cls} orbit gives a state different from the definition; cfg={cfg}", {**wit, "form": "coe-full"})

    def longitude_form(name, mon, east, along, **fields):
        """Forms that replace raan/argp by a longitude.  Direct orbits: eastward == along the motion.  Retrograde
        equatorial: accept either reading of the configured longitude."""
        cands = [east] if not eq180 else [along, east]
        errs = []
        for val in cands:
            kw = {k: (_mod360(val) if v == "LONG" else v) for k, v in fields.items()}
            ok_, x_ = build(name, COEStateConfig, semi_major_axis=sma, eccentricity=e, inclination=inc_d, **kw)
            if not ok_:
                return
            errs.append(_serr(x_, xr))
            if errs[-1] <= T_BASE + apx:
                break
        states[name] = x_
        _cmp(ctx, mon, "config-" + name, min(errs), (T_BASE, apx),
             f"COEStateConfig form '{name}' of a {cls} orbit gives a state different from the orbit it describes; cfg={cfg}", {**wit, "form": name})

    # form 2: eccentric equatorial (true longitude of periapsis + true anomaly)
    if eq0 or eq180:
        longitude_form("coe-ecc-equatorial", "cfg_coe_ecc_equatorial", raan_d + argp_d if eq0 else raan_d - argp_d, argp_d - raan_d,
                       true_longitude_periapsis="LONG", true_anomaly=nu_d)
    # form 3: circular inclined (raan + argument of latitude)
    if circ and not eq180:
        ok, x = build("coe-circ-inclined", COEStateConfig, semi_major_axis=sma, eccentricity=e, inclination=inc_d,
                      right_ascension=raan_d, argument_latitude=_mod360(argp_d + nu_d))
        if ok:
            states["coe-circ-inclined"] = x
            _cmp(ctx, "cfg_coe_circ_inclined", "config-coe-circ-inclined", _serr(x, xr), (T_BASE, apx),
                 f"COEStateConfig(raan, argument_latitude) of a {cls} orbit gives a state different from the orbit it describes; cfg={cfg}", {**wit, "form": "coe-circ-inclined"})
    elif circ and eq180:
        ok, x = build("coe-circ-inclined", COEStateConfig, semi_major_axis=sma, eccentricity=e, inclination=inc_d,
                      right_ascension=raan_d, argument_latitude=_mod360(argp_d + nu_d))
        if ok:
            states["coe-circ-inclined"] = x
            _cmp(ctx, "cfg_coe_circ_inclined", key_b(x, "config-coe-circ-inclined"), _serr(x, xr), (T_BASE, apx),
                 f"COEStateConfig(raan, argument_latitude) of a {cls} orbit gives a state different from the definition; cfg={cfg}", {**wit, "form": "coe-circ-inclined"})
    # form 4: circular equatorial (true longitude)
    if circ and (eq0 or eq180):
        longitude_form("coe-circ-equatorial", "cfg_coe_circ_equatorial",
                       raan_d + argp_d + nu_d if eq0 else raan_d - argp_d - nu_d, argp_d + nu_d - raan_d, true_longitude="LONG")

    # 3. equinoctial elements, both factors
    for retro in (False, True):
        II = -1.0 if retro else 1.0
        den = 1.0 + II * math.cos(inc)
        if den < 5e-7:
            continue
        q = kr.eqe_from_coe(*els, retro=retro)
        lam_d = math.fmod(q[5], TWOPI)
        lam_d = (lam_d + TWOPI if lam_d < 0 else lam_d) * 180.0 / PI
        if not (0.0 <= lam_d < 360.0):
            lam_d = 0.0
        name = "eqe-retro" if retro else "eqe-direct"
        ok, x = build(name, EQEStateConfig, semi_major_axis=sma, h=q[1], k=q[2], p=q[3], q=q[4], mean_longitude=lam_d, retrograde=retro)
        if ok:
            states[name] = x
            _cmp(ctx, "cfg_" + name.replace("-", "_"), "config-" + name, _serr(x, xr), (T_EQE * 2.0 / den + T_BASE, _approx_tol(els, eq=False)),
                 f"EQEStateConfig(retrograde={retro}) of a {cls} orbit gives a state different from the orbit it describes; cfg={cfg}", {**wit, "form": name})
    ctx.count("cfgclass:" + cls)
    ctx.count("cfg_descriptions", len(states))
    return cls


# =============================================================================================================
# drivers
# =============================================================================================================
def run(ctx):
    budget = min(float(BUDGET_S[ctx.tier]), ctx.time_left())     # honours VERIF_BUDGET_S
    # ---- anomalies + Kepler (about 20 % of the wall budget) ---------------------------------------------------
    rng = ctx.pyrng("anom")
    n_anom = ctx.scale(16_000, 1_600_000)
    for i in range(n_anom):
        if ctx.time_left() < 0.80 * budget:
            break
        e = _gen_ecc(rng)
        ang = _gen_angle(rng)
        r = rng.random()
        if r < 0.15:
            ang = ang - TWOPI            # negative input angles
        elif r < 0.25:
            ang = ang + TWOPI            # more than one revolution
        raan, argp = _gen_angle(rng), _gen_angle(rng)
        chk_anomaly(ctx, e, ang, raan, argp)
        M = ang if abs(ang) <= TWOPI else ang - TWOPI
        chk_kepler(ctx, max(e, 0.0), M, _gen_angle(rng))
        chk_predicates(ctx, e, _gen_inc(rng, rng.choice([None, "eq0", "eq180"])))
        ctx.case(("a", e, ang, raan, argp), nontrivial=True)
        if i % 4000 == 0:
            ctx.sample({"anomaly_case": {"e": e, "angle": ang, "raan": raan, "argp": argp}})
    ctx.note("anomaly_cases", ctx.evaluations)
    # ---- orbits (about 55 %) -----------------------------------------------------------------------------------
    rng = ctx.pyrng("orbit")
    n_orb = ctx.scale(40_000, 4_000_000)
    n0 = ctx.evaluations
    for i in range(n_orb):
        if ctx.time_left() < 0.25 * budget:
            break
        els = _gen_orbit(rng)
        cls = chk_orbit(ctx, els)
        if i % 4 == 0:
            chk_orbit_helpers(ctx, els, rng.choice([4902.800066, 42828.37, 1.32712440018e11, 3.986e5 * rng.uniform(0.5, 2.0)]))
        ctx.case(("o",) + tuple(els), nontrivial=True)
        if i % 3000 == 0:
            ctx.sample({"orbit": {"class": cls, "els": list(els)}})
    ctx.note("orbit_cases", ctx.evaluations - n0)
    # ---- configurations (rest) ---------------------------------------------------------------------------------
    rng = ctx.pyrng("config")
    n_cfg = ctx.scale(12_000, 1_200_000)
    n0 = ctx.evaluations
    for i in range(n_cfg):
        if ctx.time_left() < 3:
            break
        cfg = _gen_cfg(rng)
        cls = chk_config(ctx, cfg)
        ctx.case(("c",) + tuple(cfg), nontrivial=True)
        if i % 3000 == 0:
            ctx.sample({"config": {"class": cls, "a_e_ideg_raandeg_argpdeg_nudeg": list(cfg)}})
    ctx.note("config_cases", ctx.evaluations - n0)


def replay(ctx, w):
    kind = w.get("kind")
    if kind == "anom":
        chk_anomaly(ctx, w["e"], w["ang"], w["raan"], w["argp"])
    elif kind == "kepler":
        chk_kepler(ctx, w["e"], w["M"], w["varpi"])
    elif kind == "pred":
        chk_predicates(ctx, w["e"], w["inc"])
    elif kind == "config":
        chk_config(ctx, w["cfg"])
    elif kind == "helpers":
        chk_orbit_helpers(ctx, w["els"], w["mu_other"])
    else:
        chk_orbit(ctx, w["els"])
