"""C14 - visibility predicates match exact geometry and respect its symmetries.

The repository's real predicates are called directly on generated, boundary-biased inputs:

  lineOfSight                     symmetric; equals the exact segment-vs-sphere test (radius Earth.radius)
  ConicFoV / RectangularFoV       reflexive; invariant under a common rotation about the local vertical
                                  (incl. across the az 0/360 seam); equal to the angular-offset definition
  calculateSunVizFraction         in [0,1]; 1 sunward / fully lit; 0 deep in the umbra; equal to the
                                  circle-overlap reference outside a conditioning band
  checkSpaceSensorEarthLimbObscuration / getBodyLimbConeAngle   equal to the tangent-cone (ray-vs-sphere) test
  Sensor.isVisible azimuth mask   admits exactly the azimuths inside the (possibly north-wrapping) mask;
                                  evaluated on a real Radar object and on a real SensingAgent.fromConfig sensor

Oracles live in refs/geomref.py (no repository code).  Booleans are compared only outside an epsilon band
around their own threshold; every band below states its error source and was calibrated on the unchanged
tree with >= 100x head-room (numbers in the comments next to each band).
"""

from __future__ import annotations

import math

import numpy as np

from ..refs import geomref as g

LEVEL = "exploration"
RULE = ("cases = one generated input of one of seven families (los | fov-conic | fov-rect | sun | limb | mask | mask-e2e). "
        "los: point pairs from the sphere surface to 10 Re built from a chosen closest-approach point at Re+delta "
        "(delta = +-1e-12..1e2 km, segment lengths 1e-4 km..20 Re), plus antipodal, radial, (near-)coincident, surface and below-sphere "
        "(ellipsoid site) endpoints; "
        "fov: boresight on a grid of azimuths containing the 0/360 seam (0, +-1e-12 .. +-1 deg) and elevations up to the exact "
        "zenith, full sizes 0.1..179 deg, target at a multiple k of the half angle (k = 0, 1+-1e-8..1+-0.1, 2, random), common "
        "rotation chosen to put the boresight on / the pair across / away from the seam; sun: satellites 1 km..9 Re above the "
        "sphere, random, at the penumbra/umbra contacts +-1e-12..1e-2 rad and bisected onto the contact; limb: observers from the "
        "limb radius to 10 Re, target at the cone angle +-1e-12..1e-1 rad; mask: wrapping, full, sliver and zero-width masks, "
        "azimuths at the edges +-1e-12..1e-3 rad, the seam, inside and outside. "
        "non-trivial = distinct input for which at least one boolean/value comparison lay outside its epsilon band "
        "(in-band cases are evaluated for range/reflexivity only and counted as trivial)")
ASSUME = [
    "Earth radius 6378.1363 km, atmosphere height 100 km and the Sun radius are the only values shared with the repository",
    "lineOfSight: for an endpoint strictly below the spherical surface (ellipsoid ground sites at high latitude) the documented "
    "Vallado Alg. 35 semantics is accepted (closest approach outside the segment => visible); exact segment-vs-sphere otherwise",
    "calculateSunVizFraction: Montenbruck's planar circle-overlap model is the documented model; tolerance follows its "
    "conditioning eps*b^3/(y*pi*a^2) and grows without bound at the contacts (those cases are trivial for the value comparison)",
    "checkSpaceSensorEarthLimbObscuration is tested with the SEZ vertical along the geocentric radial, as its docstring assumes",
    "RectangularFoV at the exact zenith takes the azimuth from the SEZ velocity (Vallado Alg. 27, as documented); directions "
    "within 1e-6 rad of the vertical (but not on it) and the exact nadir have no defined azimuth and are trivial for the "
    "rectangular comparisons",
]
SHARDS = {"quick": 4, "thorough": 16}
BUDGET_S = {"quick": 60, "thorough": 560}
DECIDING = ["los_exact", "los_symmetric", "fov_reflexive", "fov_rotation", "fov_definition", "sun_range", "sun_sunward",
            "sun_umbra", "sun_fraction", "limb_cone", "limb_angle", "az_mask", "az_mask_e2e"]
MANIFEST = {
    "technique": "runtime monitoring: direct calls of the real predicates on boundary-biased inputs, independent geometric "
                 "references and metamorphic rotations",
    "level_text": "exploration of ~2e5 (quick) / ~2e7 (thorough) generated inputs",
    "level_note": "booleans compared only outside calibrated epsilon bands; seam, zenith, tangency and contact cases are generated on purpose",
}

RE = g.RE
ATM = 100.0           # documented in Earth.atmosphere
R_LIMB = RE + ATM
R_SUN = 696000.0      # Sun.radius (Vallado); cross-checked against the repository constant at start-up
TWO_PI = 2 * math.pi
SEAM_KEY = "fov-rect-azimuth-seam"
EPS = 2.220446049250313e-16


def _arr(v):
    return np.array(v, dtype=float)


def _lst(v):
    return [float(x) for x in v]


def _unit_rand(rng):
    while True:
        v = np.array([rng.gauss(0, 1) for _ in range(3)])
        n = np.linalg.norm(v)
        if n > 1e-6:
            return v / n


def _perp(u, rng):
    while True:
        w = g.cross3(u, _unit_rand(rng))
        n = np.linalg.norm(w)
        if n > 1e-3:
            return w / n


def _quiet():
    import warnings

    from .. import scenario_kit as sk

    sk.init()       # the ray stand-in must be in place before resonaate is imported (needed by the end-to-end mask cases)

    warnings.filterwarnings("ignore")
    np.seterr(all="ignore")


def _call(fn, *a):
    """Run a predicate; an exception is a result, not a harness failure."""
    try:
        return fn(*a), None
    except Exception as e:  # noqa: BLE001
        return None, f"{type(e).__name__}: {e}"


# =============================================================================================
# 1. lineOfSight
# =============================================================================================
def _los_band(p1, p2):
    """Band (km) on the closest-approach distance.

    Error source: the repository evaluates d^2 = (1-tau) r1^2 + tau r1.r2 with tau = (r1^2 - r1.r2)/|r1-r2|^2; the
    cancellation in tau gives delta(d^2) ~ eps q (1 + rmax/sep), q = r1^2 + r2^2.  Calibrated: over 1.5e6 grazing pairs the
    worst disagreement was 15 * 2.2e-16 q (1 + rmax/sep)/(2 Re); the band is 1500x that unit (100x head-room) + 1e-9 km.
    """
    q = float(p1 @ p1 + p2 @ p2)
    rmax = math.sqrt(max(float(p1 @ p1), float(p2 @ p2)))
    sep = float(np.linalg.norm(p1 - p2))
    return 1e-9 + 1500 * EPS * q * (1.0 + rmax / max(sep, 1e-300)) / (2 * RE), sep, q


def chk_los(ctx, p1, p2, tag=""):
    from resonaate.physics.sensor_utils import lineOfSight

    p1, p2 = _arr(p1), _arr(p2)
    w = {"kind": "los", "p1": _lst(p1), "p2": _lst(p2), "tag": tag}
    a12, e12 = _call(lineOfSight, p1, p2)
    a21, e21 = _call(lineOfSight, p2, p1)
    if e12 or e21:
        ctx.check(False, "los-raises", f"lineOfSight raised {e12 or e21}", w, mon="los_exact")
        return False
    a12, a21 = bool(a12), bool(a21)
    band, sep, q = _los_band(p1, p2)
    n1, n2 = float(np.linalg.norm(p1)), float(np.linalg.norm(p2))
    dmin = g.segment_min_distance(p1, p2)
    if sep <= 3e-7 * max(n1, n2):
        # (near-)coincident points, closer than ~sqrt(eps)*|r| (x10): the repository's tau is 0/0 there.  The segment is
        # shorter than 2 cm per 1e5 km of radius, so it clears the sphere iff its endpoints do (margin: its own length).
        if min(n1, n2) > RE + sep + 1e-6:
            ok = a12 and a21
            ctx.check(ok, "los-near-coincident-points", f"lineOfSight between (near-)coincident points {sep:.3e} km apart at radius {n1:.3f} km "
                      f"returned {a12}/{a21}; the degenerate segment stays {n1 - RE:.3f} km above the sphere", w, mon="los_degenerate")
            return True
        return False
    nontrivial = False
    if min(n1, n2) >= RE - band:
        ref = dmin >= RE
        if abs(dmin - RE) > band:
            nontrivial = True
            ctx.check(a12 == ref and a21 == ref, "los-exact-segment-sphere",
                      f"lineOfSight={a12}/{a21} but the segment's closest approach to the centre is {dmin:.9f} km (Re={RE}) [{tag}]", w, mon="los_exact")
            ctx.check(a12 == a21, "los-symmetry", f"lineOfSight(a,b)={a12} != lineOfSight(b,a)={a21}, closest approach {dmin:.9f} km [{tag}]", w, mon="los_symmetric")
    else:
        # an endpoint below the spherical surface: documented Vallado semantics
        t = g.line_closest_param(p1, p2)
        tb = 1e-9 + 1500 * EPS * q / (sep * sep)
        exp = None
        if t < -tb or t > 1 + tb:
            exp = True
        elif tb < t < 1 - tb:
            exp = False  # closest approach inside the segment and <= the sub-surface endpoint radius < Re
            if dmin > RE - band:
                exp = None
        if exp is not None:
            nontrivial = True
            ctx.check(a12 == exp and a21 == exp, "los-subsurface-endpoint",
                      f"endpoint below the sphere: closest-approach parameter {t:.6g}, lineOfSight={a12}/{a21}, expected {exp}", w, mon="los_subsurface")
            ctx.check(a12 == a21, "los-symmetry", f"lineOfSight(a,b)={a12} != lineOfSight(b,a)={a21} (sub-surface endpoint)", w, mon="los_symmetric")
    return nontrivial


def gen_los(rng):
    kind = rng.choice(["graze", "graze", "graze", "graze", "random", "antipodal", "radial", "coincident", "surface", "subsurface"])
    rmax = 10 * RE
    if kind == "graze":
        n = _unit_rand(rng)
        t = _perp(n, rng)
        delta = rng.choice([-1, 1]) * 10 ** rng.uniform(-12, 2)
        if rng.random() < 0.1:
            delta = abs(delta) + 10 ** rng.uniform(2, 4.7)
        foot = (RE + delta) * n
        smax = math.sqrt(max(rmax ** 2 - (RE + delta) ** 2, 1.0))
        s1 = 10 ** rng.uniform(-4, math.log10(smax))
        s2 = 10 ** rng.uniform(-4, math.log10(smax))
        if rng.random() < 0.2:   # both on the same side: closest approach outside the segment
            p1, p2 = foot + s1 * t, foot + (s1 + s2) * t
        else:
            p1, p2 = foot - s1 * t, foot + s2 * t
        if rng.random() < 0.15:  # one endpoint exactly on the 10 Re shell / on a coordinate axis
            p2 = foot + smax * t
        return p1, p2, kind
    if kind == "random":
        p1 = _unit_rand(rng) * RE * (1 + 10 ** rng.uniform(-4, 0.954))
        p2 = _unit_rand(rng) * RE * (1 + 10 ** rng.uniform(-4, 0.954))
        return p1, p2, kind
    if kind == "antipodal":
        u = _unit_rand(rng)
        p1 = u * RE * (1 + 10 ** rng.uniform(-4, 0.954))
        v = -u if rng.random() < 0.5 else g.unit(-u + 10 ** rng.uniform(-12, -1) * _perp(u, rng))
        return p1, v * RE * (1 + 10 ** rng.uniform(-4, 0.954)), kind
    if kind == "radial":
        u = _unit_rand(rng) if rng.random() < 0.7 else np.eye(3)[rng.randrange(3)] * rng.choice([-1, 1])
        p1 = u * RE * (1 + 10 ** rng.uniform(-6, 0.9))
        return p1, p1 * (1 + 10 ** rng.uniform(-6, 0.0)), kind
    if kind == "coincident":
        p1 = _unit_rand(rng) * RE * (1 + 10 ** rng.uniform(-3, 0.954))
        m = rng.randrange(4)
        if m == 0:
            p2 = p1.copy()
        elif m == 1:
            p2 = p1 * (1 + 2.0 ** -52)
        elif m == 2:
            p2 = p1 + _unit_rand(rng) * 10 ** rng.uniform(-12, -7)
        else:
            p2 = p1 + _unit_rand(rng) * 10 ** rng.uniform(-6, -1)   # short but resolvable segments
        return p1, p2, kind
    if kind == "surface":
        u = _unit_rand(rng)
        p1 = u * (RE + 10 ** rng.uniform(-3, 1))
        el = rng.choice([rng.uniform(-0.3, 0.3), rng.uniform(-math.pi / 2, math.pi / 2), 10 ** rng.uniform(-9, -2) * rng.choice([-1, 1])])
        d = math.cos(el) * _perp(u, rng) + math.sin(el) * u
        return p1, p1 + d * 10 ** rng.uniform(0, 4.7), kind
    # subsurface: ellipsoid site at mid/high latitude (below the sphere of radius Re), target around its horizon
    lat = math.radians(rng.uniform(20, 90)) * rng.choice([-1, 1])
    p1 = g.ellipsoid_point(lat, rng.uniform(-math.pi, math.pi), rng.uniform(0, 3.0))
    u = g.unit(p1)
    el = rng.choice([rng.uniform(-0.5, 1.5), 10 ** rng.uniform(-8, -1) * rng.choice([-1, 1])])
    d = math.cos(el) * _perp(u, rng) + math.sin(el) * u
    return p1, p1 + d * 10 ** rng.uniform(1.5, 4.7), kind


# =============================================================================================
# 2. fields of view
# =============================================================================================
_FOV_CACHE: dict = {}


def _fov(shape, size):
    from resonaate.sensors.field_of_view import ConicFoV, RectangularFoV

    key = (shape, tuple(size))
    f = _FOV_CACHE.get(key)
    if f is None:
        f = ConicFoV(size[0]) if shape == "conic" else RectangularFoV(azimuth_angle=size[0], elevation_angle=size[1])
        if len(_FOV_CACHE) > 4096:
            _FOV_CACHE.clear()
        _FOV_CACHE[key] = f
    return f


def _az_0_2pi(sez6):
    """Azimuth for the rectangular reference: position based; at the exact zenith velocity based (Vallado Alg. 27).

    Returns (az in [0, 2pi] with east<0 mapped to (pi, 2pi], el, defined?)."""
    s, e, z = float(sez6[0]), float(sez6[1]), float(sez6[2])
    h = math.hypot(s, e)
    rho = math.sqrt(h * h + z * z)
    el = math.atan2(z, h)
    if h == 0.0:
        if z > 0 and len(sez6) >= 6 and math.hypot(float(sez6[3]), float(sez6[4])) > 0.0:
            s, e = float(sez6[3]), float(sez6[4])
        else:
            return None, el, False
    elif h < 1e-6 * rho:
        return None, el, False
    az = math.atan2(e, -s)
    if az < 0:
        az += TWO_PI
    return az, el, True


def _fov_ref(shape, size, p, t):
    """(expected or None if inside a band / undefined, straddles the seam?)."""
    if shape == "conic":
        th = g.angle3(p, t)
        half = size[0] / 2
        # band: arccos conditioning eps/sin(theta) at theta ~ half >= 8.7e-4 rad; calibrated worst 1.9*eps/sin(half) over 1e6
        # threshold cases = 5e-13 rad at the smallest cone; band 1e-9 rad
        if abs(th - half) <= 1e-9:
            return None, False
        return th <= half, False
    azp, elp, okp = _az_0_2pi(p)
    azt, elt, okt = _az_0_2pi(t)
    hel = size[1] / 2
    haz = size[0] / 2
    # elevation band: arcsin conditioning eps/cos(el), saturating at sqrt(2 eps) ~ 2e-8 at the zenith; calibrated worst
    # 0.85 * eps (1/cos e1 + 1/cos e2); band = 1e-9 + min(100 * eps * (...), 4e-6)
    band_el = 1e-9 + min(100 * EPS * (1 / max(math.cos(elp), 1e-12) + 1 / max(math.cos(elt), 1e-12)), 4e-6)
    d_el = abs(elp - elt)
    if d_el > hel + band_el:
        return False, False
    if not (okp and okt):
        return None, False
    straddle = abs(azp - azt) > math.pi
    d_az = abs(g.wrap_pm_pi(azp - azt))
    # azimuth band: atan2 + wrap rounding, calibrated worst 4.5 eps; band 1e-9 rad
    if d_az > haz + 1e-9:
        return False, straddle
    if d_az < haz - 1e-9 and d_el < hel - band_el:
        return True, straddle
    return None, straddle


def chk_fov(ctx, shape, size, p, t, phi):
    p, t = _arr(p), _arr(t)
    w = {"kind": "fov", "shape": shape, "size": _lst(size), "p": _lst(p), "t": _lst(t), "phi": float(phi)}
    fov = _fov(shape, size)
    rp, rt = g.rotate_about_vertical(p, phi), g.rotate_about_vertical(t, phi)
    sz = "/".join(f"{math.degrees(x):.6g}" for x in size)

    def run(a, b):
        res, err = _call(fov.inFieldOfView, a, b)
        if err:
            ctx.check(False, f"fov-{shape}-raises", f"{shape} FoV {sz} deg raised {err}", w, mon="fov_definition")
            return None
        return bool(res)

    for v, nm in ((p, "boresight"), (t, "target"), (rp, "rotated boresight")):
        r = run(v, v)
        if r:
            ctx.mon("fov_reflexive")
        elif r is not None:
            ctx.check(False, f"fov-{shape}-reflexive", f"{shape} FoV {sz} deg does not contain its own {nm} direction {_lst(v[:3])}", w, mon="fov_reflexive")
    a0, a1 = run(p, t), run(rp, rt)
    e0, s0 = _fov_ref(shape, size, p, t)
    e1, s1 = _fov_ref(shape, size, rp, rt)
    nontrivial = False
    for a, e, s, pp, tt, nm in ((a0, e0, s0, p, t, "original"), (a1, e1, s1, rp, rt, "rotated")):
        if a is None or e is None:
            continue
        nontrivial = True
        if a == e:          # messages are built only on failure (hot path)
            ctx.mon("fov_definition")
            continue
        key = f"fov-{shape}-definition"
        if shape == "rect" and s and e and not a:
            # boresight and target lie on opposite sides of north and a target inside the field was rejected.  Differential
            # probe: the same pair turned by 180 deg about the vertical straddles south instead; if that one is accepted the
            # failure is specific to the az 0/360 seam (unwrapped azimuth difference), otherwise it is a plain definition failure.
            if run(g.rotate_about_vertical(pp, math.pi), g.rotate_about_vertical(tt, math.pi)) is True:
                key = SEAM_KEY
        ctx.check(False, key, f"{shape} FoV {sz} deg: inFieldOfView={a} but the angular offset says {e} ({nm} pair; boresight az/el "
                  f"{_azel_txt(pp)}, target {_azel_txt(tt)})", w, mon="fov_definition")
    if a0 is not None and a1 is not None and e0 is not None and e1 is not None and e0 == e1:
        if a0 == a1:
            ctx.mon("fov_rotation")
        else:
            key = f"fov-{shape}-rotation"
            if shape == "rect" and s0 != s1 and ((s0 and not a0 and a1) or (s1 and not a1 and a0)):
                key = SEAM_KEY
            ctx.check(False, key, f"{shape} FoV {sz} deg: membership changed from {a0} to {a1} when boresight and target were both rotated by "
                      f"{math.degrees(phi):.9g} deg about the vertical (boresight az/el {_azel_txt(p)} -> {_azel_txt(rp)}, target {_azel_txt(t)} -> {_azel_txt(rt)})",
                      w, mon="fov_rotation")
    return nontrivial


def _azel_txt(v):
    az, el, _ = g.azel_stable(v)
    return f"{math.degrees(az):.9g}/{math.degrees(el):.9g}"


_SIZES = [0.1, 0.2, 0.5, 1.0, 2.0, 5.0, 10.0, 30.0, 60.0, 90.0, 120.0, 150.0, 179.0]
_K = [0.0, 0.5, 0.9, 1.1, 2.0]


def _pick_size(rng):
    return math.radians(rng.choice(_SIZES) if rng.random() < 0.7 else rng.uniform(0.1, 179.0))


def _pick_az(rng):
    r = rng.random()
    if r < 0.45:
        tiny = rng.choice([0.0, 1e-12, 1e-9, 1e-6, 1e-3, math.radians(0.05), math.radians(1.0), math.radians(5.0)])
        return tiny if rng.random() < 0.5 else (TWO_PI - tiny if tiny else 0.0)
    if r < 0.55:
        return rng.choice([math.pi / 2, math.pi, 3 * math.pi / 2])
    return rng.uniform(0, TWO_PI)


def _pick_el(rng):
    r = rng.random()
    if r < 0.12:
        return math.pi / 2  # exact zenith
    if r < 0.5:
        return math.radians(rng.choice([0.0, 10.0, -10.0, 45.0, -45.0, 80.0, 89.0, 89.9, 89.999, -89.0]))
    return rng.uniform(-1.55, 1.55)


def _pick_k(rng):
    r = rng.random()
    if r < 0.45:
        return 1.0 + rng.choice([-1, 1]) * 10 ** rng.uniform(-8, -1)
    if r < 0.75:
        return rng.choice(_K)
    return rng.uniform(0, 3)


def _dir6(rng, az, el, zero_vel=False):
    rho = 10 ** rng.uniform(0, 5)
    if el >= math.pi / 2:
        pos = np.array([0.0, 0.0, rho])
    elif el <= -math.pi / 2:
        pos = np.array([0.0, 0.0, -rho])
    else:
        pos = g.sez_from_azel(az, el, rho)
    vel = np.zeros(3) if zero_vel else np.array([rng.gauss(0, 3) for _ in range(3)])
    return np.concatenate([pos, vel])


def _pick_phi(rng, azp, azt):
    r = rng.random()
    if r < 0.2:
        return -azp
    if r < 0.3:
        return -azt
    if r < 0.5:
        return -(azp + g.wrap_pm_pi(azt - azp) / 2)       # seam between boresight and target
    if r < 0.6:
        return -azp + rng.choice([-1, 1]) * 10 ** rng.uniform(-12, -2)
    if r < 0.7:
        return rng.choice([math.pi, math.pi / 2, -math.pi / 2, TWO_PI])
    return rng.uniform(0, TWO_PI)


def gen_fov(rng, shape):
    azp, elp = _pick_az(rng), _pick_el(rng)
    zero_vel = rng.random() < 0.05
    p = _dir6(rng, azp, elp, zero_vel)
    if shape == "conic":
        size = (_pick_size(rng),)
        half = size[0] / 2
        k = _pick_k(rng)
        th = min(half * k, math.pi) if rng.random() > 0.03 else math.pi
        u = g.unit(p[:3])
        # position angle of the target around the boresight: random, or along the local parallel towards/away from north
        if rng.random() < 0.5 and abs(u[2]) < 0.999:
            wv = g.unit(g.cross3([0.0, 0.0, 1.0], u)) * rng.choice([-1, 1])
        else:
            wv = _perp(u, rng)
        tpos = (math.cos(th) * u + math.sin(th) * wv) * 10 ** rng.uniform(0, 5)
        t = np.concatenate([tpos, [rng.gauss(0, 3) for _ in range(3)]])
        azt = g.azel_stable(t)[0]
    else:
        size = (_pick_size(rng), _pick_size(rng))
        haz, hel = size[0] / 2, size[1] / 2
        ka, ke = _pick_k(rng), _pick_k(rng)
        if rng.random() < 0.5:      # stress one axis at a time
            if rng.random() < 0.5:
                ke = rng.uniform(0, 0.9)
            else:
                ka = rng.uniform(0, 0.9)
        azt = (azp + rng.choice([-1, 1]) * haz * ka) % TWO_PI
        elt = elp + rng.choice([-1, 1]) * hel * ke
        if elt > math.pi / 2:
            elt = math.pi / 2 if rng.random() < 0.5 else elp - abs(hel * ke)
        if elt < -math.pi / 2 + 1e-3:
            elt = max(elp + abs(hel * ke), -math.pi / 2 + 1e-3)
            elt = min(elt, math.pi / 2)
        t = _dir6(rng, azt, elt, zero_vel and rng.random() < 0.5)
    return shape, size, p, t, _pick_phi(rng, azp, azt)


# =============================================================================================
# 3. visible fraction of the Sun
# =============================================================================================
def _sun_abc(r, S):
    s = S - r
    ns, nr = float(np.linalg.norm(s)), float(np.linalg.norm(r))
    a = math.atan2(R_SUN, math.sqrt(max(ns * ns - R_SUN * R_SUN, 0.0)))
    b = math.atan2(RE, math.sqrt(max(nr * nr - RE * RE, 0.0)))
    c = g.angle3(-r, s)
    return a, b, c


def chk_sun(ctx, r, S, rays=False, tag=""):
    from resonaate.physics.sensor_utils import calculateSunVizFraction

    r, S = _arr(r), _arr(S)
    w = {"kind": "sun", "r": _lst(r), "S": _lst(S), "rays": bool(rays), "tag": tag}
    f, err = _call(calculateSunVizFraction, r, S)
    if err:
        ctx.check(False, "sun-fraction-raises", f"calculateSunVizFraction raised {err}", w, mon="sun_range")
        return False
    f = float(f)
    a, b, c = _sun_abc(r, S)
    m1, m2 = c - (b - a), c - (a + b)      # >0: outside total occultation ; <0: inside the penumbra cone
    contact = min(abs(m1), abs(m2))
    if not math.isfinite(f):
        key = "sun-fraction-nan-at-contact" if contact < 1e-9 else "sun-fraction-not-finite"
        ctx.check(False, key, f"calculateSunVizFraction returned {f!r}; Sun/Earth discs are {contact:.3e} rad from "
                  f"{'inner (umbra)' if abs(m1) < abs(m2) else 'outer (penumbra)'} contact (a={a:.9g}, b={b:.9g}, c={c:.17g})", w, mon="sun_range")
        return True
    ref = g.circle_overlap_fraction(a, b, c)
    # tolerance: the overlap area is a difference of terms b^2*arccos(..)~b*y each; arccos near 1 has error eps*b/y, hence
    # delta f ~ eps b^3 / (y pi a^2).  Calibrated: worst |f - ref| = 2.3 units over 2.4e5 contact-biased cases; K = 230 (100x).
    if m1 > 1e-9 and m2 < -1e-9:
        x = (c * c + a * a - b * b) / (2 * c)
        y = math.sqrt(max(a * a - x * x, 0.0))
        tol = 1e-12 + 230 * EPS * b ** 3 / (max(y, 1e-300) * math.pi * a * a)
    elif contact > 1e-9:
        tol = 1e-12
    else:
        tol = math.inf
    rtol = min(tol, 1e-2)
    ctx.check(-rtol <= f <= 1 + rtol, "sun-fraction-out-of-range", f"visible Sun fraction {f!r} outside [0,1] (rounding allowance {rtol:.2e})", w, mon="sun_range")
    if f < 0.0 or f > 1.0:
        ctx.count("sun_strict_excursions_within_rounding")
        ctx.add_to_set("sun_strict_excursion_decades", int(math.floor(math.log10(max(-f, f - 1.0, 1e-300)))))
    nontrivial = False
    if tol <= 1e-4:
        nontrivial = True
        ctx.check(abs(f - ref) <= tol, "sun-fraction-overlap", f"visible Sun fraction {f!r} vs circle-overlap reference {ref!r} (tol {tol:.2e}; "
                  f"a={a:.6g}, b={b:.6g}, c={c:.9g})", w, mon="sun_fraction")
    sun_hat = g.unit(S)
    if float(r @ sun_hat) > 1.0 and float(np.linalg.norm(r)) >= RE + 1.0:
        nontrivial = True
        ctx.check(f == 1.0, "sun-sunward-not-one", f"satellite on the sunward side (r.s = {float(r @ sun_hat):.3f} km) sees fraction {f!r}", w, mon="sun_sunward")
    if rays:
        # independent ray casting: segments from the satellite to 24 points of the Sun's limb against the Earth sphere
        ds = [g.segment_min_distance(r, P) for P in g.disc_limb_points(S, R_SUN, r, 24)] + [g.segment_min_distance(r, S)]
        if max(ds) < RE - 10.0:
            nontrivial = True
            ctx.check(f == 0.0, "sun-umbra-not-zero", f"every ray to the Sun's limb passes >= 10 km inside the Earth (deep umbra) but fraction = {f!r}", w, mon="sun_umbra")
        elif min(ds) > RE + 10.0:
            nontrivial = True
            ctx.check(f == 1.0, "sun-lit-not-one", f"every ray to the Sun's limb clears the Earth by >= 10 km but fraction = {f!r}", w, mon="sun_rays")
        elif min(ds) < RE - 10.0 and max(ds) > RE + 10.0:
            nontrivial = True
            ctx.check(0.0 < f < 1.0, "sun-penumbra-not-partial", f"some limb rays blocked and some clear (penumbra) but fraction = {f!r}", w, mon="sun_rays")
    return nontrivial


def gen_sun(rng):
    sd = rng.uniform(1.47e8, 1.525e8)
    sh = _unit_rand(rng) if rng.random() < 0.85 else np.eye(3)[rng.randrange(3)] * rng.choice([-1, 1])
    S = sd * sh
    nr = RE + 10 ** rng.uniform(0, math.log10(9 * RE))
    wv = _perp(sh, rng)

    def mk(c0):
        return -nr * (math.cos(c0) * sh + math.sin(c0) * wv)

    a0, b0 = math.asin(R_SUN / sd), math.asin(RE / nr)
    m = rng.random()
    if m < 0.25:
        return _unit_rand(rng) * nr, S, True, "random"
    if m < 0.40:   # around the shadow axis (umbra) and the anti-solar hemisphere; a third exactly ON the axis
        c_axis = rng.choice([0.0, 0.0, 10 ** rng.uniform(-17, -9)]) if rng.random() < 0.35 else rng.uniform(0, 1.3 * (a0 + b0))
        return mk(c_axis), S, True, "shadow"
    if m < 0.50:   # sunward hemisphere incl. the terminator plane
        u = g.unit(sh * rng.choice([1.0, 10 ** rng.uniform(-7, -1)]) + wv * rng.uniform(0, 1))
        return u * nr, S, rng.random() < 0.3, "sunward"
    sign = rng.choice([-1, 1])
    if m < 0.85:   # contacts +- delta (Newton steps remove the parallax between Earth-centred and satellite-centred angles)
        delta = rng.choice([-1, 1]) * 10 ** rng.uniform(-12, -2)
        c0 = b0 + sign * a0 + delta
        for _ in range(3):
            a, b, c = _sun_abc(mk(c0), S)
            c0 -= (c - (b + sign * a)) - delta
        return mk(c0), S, rng.random() < 0.2, "contact"
    # bisect onto the contact itself
    lo, hi = b0 + sign * a0 - 1e-3, b0 + sign * a0 + 1e-3
    target = rng.choice([0.0, 0.0, 1e-15, -1e-15, 1e-13, -1e-13])
    for _ in range(60):
        mid = 0.5 * (lo + hi)
        a, b, c = _sun_abc(mk(mid), S)
        if c - (b + sign * a) < target:
            lo = mid
        else:
            hi = mid
    return mk(lo if rng.random() < 0.5 else hi), S, False, "bisected-contact"


# =============================================================================================
# 4. Earth-limb obscuration
# =============================================================================================
def chk_limb(ctx, r, sez, tag=""):
    from resonaate.physics.sensor_utils import checkSpaceSensorEarthLimbObscuration, getBodyLimbConeAngle

    r, sez = _arr(r), _arr(sez)
    w = {"kind": "limb", "r": _lst(r), "sez": _lst(sez), "tag": tag}
    nr = float(np.linalg.norm(r[:3]))
    state = np.concatenate([r[:3], [0.0, 7.0, 0.0]]) if len(r) < 6 else r
    if nr < R_LIMB * (1 - 1e-12):
        _, err = _call(checkSpaceSensorEarthLimbObscuration, state, sez)
        _, err2 = _call(getBodyLimbConeAngle, R_LIMB, nr)
        ctx.check(bool(err) and bool(err2) and "ValueError" in err and "ValueError" in err2, "limb-observer-inside-limb-no-error",
                  f"observer at {nr:.6f} km is inside the limb radius {R_LIMB} km: documented ValueError expected, got {err!r}/{err2!r}", w, mon="limb_angle")
        return True
    if nr <= R_LIMB * (1 + 1e-12):
        return False
    ang, err = _call(getBodyLimbConeAngle, R_LIMB, nr)
    if err:
        ctx.check(False, "limb-raises", f"getBodyLimbConeAngle raised {err}", w, mon="limb_angle")
        return True
    cosc = math.sqrt(max((nr - R_LIMB) * (nr + R_LIMB), 0.0)) / nr
    ref_ang = math.atan2(R_LIMB, nr * cosc)
    # arcsin conditioning eps/cos(cone); 100x
    ctx.check(abs(float(ang) - ref_ang) <= 1e-12 + 100 * EPS / max(cosc, 1e-9), "limb-cone-angle",
              f"getBodyLimbConeAngle({R_LIMB}, {nr}) = {float(ang)!r}, tangent-cone half angle is {ref_ang!r}", w, mon="limb_angle")
    got, err = _call(checkSpaceSensorEarthLimbObscuration, state, sez)
    if err:
        ctx.check(False, "limb-raises", f"checkSpaceSensorEarthLimbObscuration raised {err}", w, mon="limb_cone")
        return True
    got = bool(got)
    B = g.radial_sez_basis(r)
    d_eci = B.T @ sez[:3]
    dist = g.ray_min_distance(r, d_eci)
    ref = dist < R_LIMB
    # band (km): angle errors (arcsin: eps/cos) map to r*eps ~ 1e-11 km on the ray's closest approach; band 1e-7 km + 1e-12 r
    band = 1e-7 + 1e-12 * nr
    if abs(dist - R_LIMB) <= band:
        return False
    ctx.check(got == ref, "limb-tangent-cone", f"limb obscuration = {got} but the line of sight's closest approach to the Earth's centre is {dist:.9f} km "
              f"(limb radius {R_LIMB} km, observer at {nr:.3f} km) [{tag}]", w, mon="limb_cone")
    return True


def gen_limb(rng):
    u = _unit_rand(rng) if rng.random() < 0.85 else np.eye(3)[rng.randrange(3)] * rng.choice([-1, 1])
    m = rng.random()
    if m < 0.06:
        nr = R_LIMB * (1 - 10 ** rng.uniform(-9, -0.5))        # inside the limb sphere: must raise
    elif m < 0.25:
        nr = R_LIMB * (1 + 10 ** rng.uniform(-9, -2))
    else:
        nr = R_LIMB + 10 ** rng.uniform(0, math.log10(10 * RE - R_LIMB))
    r = u * nr
    cone = math.asin(min(1.0, R_LIMB / nr))
    k = rng.random()
    if k < 0.6:
        nad = cone + rng.choice([-1, 1]) * 10 ** rng.uniform(-12, -1)
    elif k < 0.7:
        nad = rng.choice([0.0, math.pi / 2, math.pi, cone / 2, min(math.pi, 2 * cone)])
    else:
        nad = rng.uniform(0, math.pi)
    nad = min(max(nad, 0.0), math.pi)
    el = nad - math.pi / 2
    az = _pick_az(rng)
    rho = 10 ** rng.uniform(0, 5)
    pos = g.sez_from_azel(az, el, rho) if 0 < nad < math.pi else np.array([0.0, 0.0, -rho if nad == 0 else rho])
    return r, np.concatenate([pos, [rng.gauss(0, 3) for _ in range(3)]]), "limb"


# =============================================================================================
# 5. azimuth mask inside Sensor.isVisible
# =============================================================================================
_RADARS: dict = {}


def _radar(lo_deg, hi_deg):
    """A real Radar sensor (concrete Sensor) with the given azimuth mask on a minimal host."""
    key = (lo_deg, hi_deg)
    s = _RADARS.get(key)
    if s is None:
        from types import SimpleNamespace

        from resonaate.physics.time.stardate import ScenarioTime
        from resonaate.sensors.field_of_view import ConicFoV
        from resonaate.sensors.radar import Radar

        s = Radar(az_mask=np.array((lo_deg, hi_deg)), el_mask=np.array((-90.0, 90.0)), r_matrix=np.diag([1e-6] * 4), diameter=10.0,
                  efficiency=0.95, tx_power=2.5e6, tx_frequency=1.5e9, min_detectable_power=1e-15, slew_rate=1.0,
                  field_of_view=ConicFoV(math.radians(1.0)), background_observations=False, minimum_range=None, maximum_range=None)
        s.host = SimpleNamespace(time=ScenarioTime(0.0), eci_state=np.array([2.0 * RE, 0.0, 0.0, 0.0, 5.0, 0.0]))
        if len(_RADARS) > 2048:
            _RADARS.clear()
        _RADARS[key] = s
    return s


def _mask_verdict(ctx, res, reason, sez, lo_deg, hi_deg, w, mon):
    from resonaate.common.labels import Explanation

    az, el, hfrac = g.azel_stable(sez)
    lo, hi = math.radians(lo_deg), math.radians(hi_deg)
    if hfrac < 1e-6:
        return False
    # band: atan2 azimuth (few eps) + DEG2RAD rounding of the mask edges (1 ulp); 1e-9 rad
    if g.az_mask_margin(az, lo, hi) <= 1e-9:
        return False
    ref = g.az_arc_contains(az, lo, hi)
    if reason not in (Explanation.VISIBLE, Explanation.AZIMUTH_MASK):
        ctx.count("mask_cases_rejected_for_other_reason")
        return False
    ok = bool(res) == ref and (reason == Explanation.VISIBLE) == ref
    key = "az-mask-wrapping" if lo > hi else ("az-mask-full-circle" if hi - lo >= TWO_PI - 1e-9 else "az-mask-plain")
    ctx.check(ok, key, f"azimuth mask [{lo_deg}, {hi_deg}] deg: azimuth {math.degrees(az):.10f} deg is {'inside' if ref else 'outside'} "
              f"but isVisible returned ({res}, {getattr(reason, 'value', reason)})", w, mon=mon)
    return True


def chk_mask(ctx, lo_deg, hi_deg, sez):
    from resonaate.sensors.sensor_base import Sensor

    sez = _arr(sez)
    w = {"kind": "mask", "lo_deg": lo_deg, "hi_deg": hi_deg, "sez": _lst(sez)}
    sensor = _radar(lo_deg, hi_deg)
    tgt = np.array([3.0 * RE, 0.0, 0.0, 0.0, 4.0, 0.0])     # line of sight to the host exists
    out, err = _call(Sensor.isVisible, sensor, tgt, 10.0, 0.2, sez)
    if err:
        ctx.check(False, "az-mask-raises", f"Sensor.isVisible raised {err}", w, mon="az_mask")
        return True
    return _mask_verdict(ctx, out[0], out[1], sez, lo_deg, hi_deg, w, "az_mask")


_MASKS = [(350.0, 10.0), (0.0, 360.0), (0.0, 359.99999), (359.5, 0.5), (359.0, 360.0), (0.0, 1.0), (1.0, 2.0), (89.0, 90.0), (179.0, 180.0),
          (180.0, 181.0), (358.0, 359.0), (10.0, 350.0), (270.0, 90.0), (90.0, 270.0), (180.0, 180.0), (0.0, 0.0), (360.0, 0.0), (360.0, 1.0),
          (359.99999, 0.00001), (200.0, 199.0), (0.5, 359.5), (45.0, 46.0)]


def gen_mask_interval(rng, e2e=False):
    if rng.random() < 0.75:
        lo, hi = rng.choice(_MASKS)
    else:
        lo = round(rng.uniform(0, 360), rng.choice([0, 1, 5]))
        hi = round((lo + rng.choice([1.0, rng.uniform(0, 360)])) % 360.0, 5) if rng.random() < 0.7 else round(rng.uniform(0, 360), 3)
    if e2e:   # the configuration model admits [0, 360) only
        lo, hi = min(lo, 359.99999), min(hi, 359.99999)
    return lo, hi


def gen_mask_az(rng, lo, hi, min_exp=-12):
    lo_r, hi_r = math.radians(lo), math.radians(hi)
    r = rng.random()
    if r < 0.5:
        az = rng.choice([lo_r, hi_r]) + rng.choice([-1, 1]) * 10 ** rng.uniform(min_exp, -2)
    elif r < 0.65:
        tiny = rng.choice([0.0, 1e-12, 1e-8, 1e-6, 1e-3])
        az = tiny if rng.random() < 0.5 else -tiny
    elif r < 0.8:
        az = lo_r + rng.uniform(0, 1) * ((hi_r - lo_r) % TWO_PI)
    else:
        az = rng.uniform(0, TWO_PI)
    return az % TWO_PI


# ---- end to end: a real SensingAgent built from configuration, real SEZ transformation ------------------------
_E2E: dict = {}


def _agent(lo_deg, hi_deg, lat, lon):
    key = (lo_deg, hi_deg, lat, lon)
    ag = _E2E.get(key)
    if ag is None:
        from datetime import datetime
        from unittest.mock import MagicMock

        from .. import scenario_kit as sk

        sk.init()
        from resonaate.agents.sensing_agent import SensingAgent
        from resonaate.data import setDBPath
        from resonaate.dynamics.two_body import TwoBody
        from resonaate.scenario.clock import ScenarioClock
        from resonaate.scenario.config.agent_config import SensingAgentConfig

        if "clock" not in _E2E:
            try:
                setDBPath("sqlite://")
            except Exception:  # noqa: BLE001
                pass
            _E2E["clock"] = ScenarioClock(datetime(2020, 6, 6, 0, 0, 0), 3600.0, 60.0)
        cfg = sk.ground_sensor_cfg(20001, lat, lon, azimuth_range=[lo_deg, hi_deg], elevation_range=[1.0, 89.99999])
        prop = MagicMock()
        prop.station_keeping = False
        prop.sensor_realtime_propagation = True
        ag = SensingAgent.fromConfig(SensingAgentConfig(**cfg), _E2E["clock"], TwoBody(), prop)
        _E2E[key] = ag
    return ag


def chk_mask_e2e(ctx, lo_deg, hi_deg, lat, lon, az, el, rho):
    from resonaate.physics.transforms.methods import ecef2eci, eci2ecef, getSlantRangeVector, sez2ecef
    from resonaate.sensors.sensor_base import Sensor

    w = {"kind": "mask_e2e", "lo_deg": lo_deg, "hi_deg": hi_deg, "lat": lat, "lon": lon, "az": az, "el": el, "rho": rho}
    ag = _agent(lo_deg, hi_deg, lat, lon)
    ctx.add_to_set("e2e_sensor_types", type(ag.sensors).__name__)
    # place the target with the repository's own inverse chain; the oracle reads the azimuth back from the real slant vector
    want = np.concatenate([g.sez_from_azel(az, el, rho), np.zeros(3)])
    site_ecef = eci2ecef(ag.eci_state, ag.datetime_epoch)
    tgt_ecef = site_ecef + sez2ecef(want, float(ag.lla_state[0]), float(ag.lla_state[1]))
    tgt_eci = ecef2eci(tgt_ecef, ag.datetime_epoch)
    slant = getSlantRangeVector(ag.eci_state, tgt_eci, ag.datetime_epoch)
    out, err = _call(Sensor.isVisible, ag.sensors, tgt_eci, 10.0, 0.2, slant)
    if err:
        ctx.check(False, "az-mask-raises", f"Sensor.isVisible raised {err}", w, mon="az_mask_e2e")
        return True
    mlo, mhi = (math.degrees(float(x)) for x in ag.sensors.az_mask)
    if abs(mlo - lo_deg) > 1e-9 or abs(mhi - hi_deg) > 1e-9:
        ctx.check(False, "az-mask-config-not-honoured", f"configured azimuth_range [{lo_deg}, {hi_deg}] became [{mlo}, {mhi}] on the sensor", w, mon="az_mask_e2e")
    return _mask_verdict(ctx, out[0], out[1], slant, lo_deg, hi_deg, w, "az_mask_e2e")


# =============================================================================================
# driver
# =============================================================================================
def _startup(ctx):
    _quiet()
    from resonaate.physics.bodies import Earth
    from resonaate.physics.bodies.third_body import Sun

    # strings, not numbers: the core sums numeric notes over shards
    ctx.note("constants", f"repo Earth.radius={float(Earth.radius)!r} Earth.atmosphere={float(Earth.atmosphere)!r} Sun.radius={float(Sun.radius)!r}; "
                          f"reference Re={RE!r} atmosphere={ATM!r} Rsun={R_SUN!r}")
    ctx.note("bands", "los_km = 1e-9 + 1500 eps q (1 + rmax/sep)/(2 Re); conic_rad = 1e-9; rect_az_rad = 1e-9; "
                      "rect_el_rad = 1e-9 + min(100 eps (1/cos e1 + 1/cos e2), 4e-6); sun_fraction = 1e-12 + 230 eps b^3/(y pi a^2), compared when <= 1e-4; "
                      "limb_km = 1e-7 + 1e-12 r; mask_rad = 1e-9")


def _rk(v, nd=9):
    return [round(float(x), nd) for x in v]


def run(ctx):
    _startup(ctx)
    rng = ctx.pyrng("c14")
    n = ctx.scale(200_000, 20_000_000)
    reserve = 8.0 if ctx.quick else 40.0
    fam = ["los", "los", "conic", "rect", "rect", "conic", "sun", "limb", "mask", "mask"]
    for i in range(n):
        if (i & 255) == 0 and ctx.time_left() < reserve:
            ctx.note("stopped_by_time_budget", True)
            break
        k = fam[i % 10]
        smp = None
        if k == "los":
            p1, p2, tag = gen_los(rng)
            nt = chk_los(ctx, p1, p2, tag)
            key = ("los", _rk(p1, 6), _rk(p2, 6))
            ctx.count("los_kind_" + tag)
            if i % 4001 == 0:
                smp = {"family": "los", "kind": tag, "p1_km": _rk(p1, 3), "p2_km": _rk(p2, 3)}
        elif k in ("conic", "rect"):
            shape, size, p, t, phi = gen_fov(rng, k)
            nt = chk_fov(ctx, shape, size, p, t, phi)
            key = (k, _rk(size), _rk(p[:3], 6), _rk(t[:3], 6), round(phi, 9))
            if i % 4003 == 3:
                smp = {"family": "fov-" + k, "size_deg": [round(math.degrees(x), 4) for x in size], "boresight_az_el_deg": _azel_txt(p),
                       "target_az_el_deg": _azel_txt(t), "rotation_deg": round(math.degrees(phi), 6)}
        elif k == "sun":
            r, S, rays, tag = gen_sun(rng)
            nt = chk_sun(ctx, r, S, rays, tag)
            key = ("sun", _rk(r, 6), _rk(S, 3))
            ctx.count("sun_kind_" + tag)
            if i % 4006 == 6:
                smp = {"family": "sun", "kind": tag, "r_km": _rk(r, 3)}
        elif k == "limb":
            r, sez, tag = gen_limb(rng)
            nt = chk_limb(ctx, r, sez, tag)
            key = ("limb", _rk(r, 6), _rk(sez[:3], 6))
            if i % 4007 == 7:
                smp = {"family": "limb", "observer_radius_km": round(float(np.linalg.norm(r)), 6), "target_el_deg": round(math.degrees(g.azel_stable(sez)[1]), 9)}
        else:
            lo, hi = gen_mask_interval(rng)
            az = gen_mask_az(rng, lo, hi)
            el = rng.uniform(-1.4, 1.4)
            sez = np.concatenate([g.sez_from_azel(az, el, 10 ** rng.uniform(0, 4.5)), [rng.gauss(0, 3) for _ in range(3)]])
            nt = chk_mask(ctx, lo, hi, sez)
            key = ("mask", lo, hi, _rk(sez[:3], 7))
            if i % 4008 == 8:
                smp = {"family": "mask", "mask_deg": [lo, hi], "az_deg": round(math.degrees(az), 9)}
        ctx.case(key, nontrivial=bool(nt), sample=smp)
    # end-to-end azimuth masks on real SensingAgent objects
    n_e2e = ctx.scale(2400, 96_000)
    sites = [(35.0, -106.0), (64.3, -149.2), (-21.9, 114.1), (0.0, 0.0)]
    done = 0
    erng = ctx.pyrng("c14-e2e")
    while done < n_e2e and ctx.time_left() > 2.0:
        lat, lon = erng.choice(sites)
        lo, hi = gen_mask_interval(erng, e2e=True)      # one real agent per batch of 40 azimuths
        for _ in range(40):
            az = gen_mask_az(erng, lo, hi, min_exp=-8)
            el = math.radians(erng.uniform(5, 85))
            rho = 10 ** erng.uniform(2.7, 4.6)
            nt = chk_mask_e2e(ctx, lo, hi, lat, lon, az, el, rho)
            ctx.case(("e2e", lo, hi, lat, lon, round(az, 9), round(el, 9), round(rho, 6)), nontrivial=bool(nt),
                     sample={"family": "mask-e2e", "mask_deg": [lo, hi], "site": [lat, lon], "az_deg": round(math.degrees(az), 7)} if done % 997 == 0 else None)
            done += 1
        _E2E.pop((lo, hi, lat, lon), None)
    ctx.note("e2e_cases", done)


def replay(ctx, w):
    from .. import core

    core.install_paths()
    _quiet()
    k = w["kind"]
    if k == "los":
        chk_los(ctx, w["p1"], w["p2"], w.get("tag", ""))
    elif k == "fov":
        chk_fov(ctx, w["shape"], tuple(w["size"]), w["p"], w["t"], w["phi"])
    elif k == "sun":
        chk_sun(ctx, w["r"], w["S"], w.get("rays", False), w.get("tag", ""))
    elif k == "limb":
        chk_limb(ctx, w["r"], w["sez"], w.get("tag", ""))
    elif k == "mask":
        chk_mask(ctx, w["lo_deg"], w["hi_deg"], w["sez"])
    elif k == "mask_e2e":
        chk_mask_e2e(ctx, w["lo_deg"], w["hi_deg"], w["lat"], w["lon"], w["az"], w["el"], w["rho"])
