"""C15 - finite burns thrust for exactly their configured interval.

Real truth-only Scenario runs with ``finite_burn`` / ``finite_maneuver`` events.  A wrapper on
``ScheduledFiniteThrust.getStateChangeCallback`` logs every thrust on/off transition with its time
(so a witness shows *when* thrust really ended).  Oracle: an independent piecewise integration
(DOP853, rtol 1e-12) over [t0,ts], [ts,te], [te,tf] that uses the repository's force function as a
black box for gravity/perturbations (its correctness is C13's subject) and the harness' own
thrust law (constant ECI; NTW from explicit unit vectors; spiral; plane change).
"""

from __future__ import annotations

import json
from datetime import datetime, timedelta

import numpy as np

LEVEL = "exploration"
RULE = ("case = (start instant, step in {10..600}, burn start/end relative to the grid: inside one step / spanning several / start on a boundary / end on a "
        "boundary / both / neither, thrust frame eci|ntw or maneuver spiral|plane_change, truth dynamics special_perturbations (J2) or two_body). "
        "Non-trivial = burn end NOT on a step boundary (the aligned case is what the repository's integration test uses); distinct = distinct case tuple")
ASSUME = ["the repository's gravity/perturbation function is used as a black box inside the reference integration (subject of C13)",
          "ray stand-in replaces the executor"]
SHARDS = {"quick": 8, "thorough": 16}
BUDGET_S = {"quick": 100, "thorough": 1300}
DECIDING = ["burn_trajectory", "misaligned_end_cases"]
MANIFEST = {
    "technique": "runtime monitoring: real Scenario runs with finite-thrust events compared with an independent piecewise integration; thrust on/off transitions logged",
    "level_text": "held on every executed (start, end, step, frame/type): final truth state equals the reference with thrust on exactly inside [t_start, t_end]",
    "level_note": "sampled burns; gravity model taken from the repository as a black box (C13)",
}
STEPS = [10, 30, 60, 100, 300, 600]
TID = 10001


def gen_case(rng, force_shape=None):
    step = rng.choice(STEPS)
    n = rng.randrange(3, 8)
    start = datetime(rng.choice([2018, 2019, 2020, 2021]), rng.randrange(1, 13), rng.randrange(1, 28), rng.randrange(24), rng.randrange(60), rng.choice([0, 0, rng.randrange(60)]))
    shape = rng.choice(["inside", "spanning", "start_on", "end_on", "both_on", "neither", "neither", "at_epoch", "dyadic", "abutting", "abutting", "late_tail", "before_epoch", "zero_length"])
    if shape == "late_tail" and rng.random() < 0.5:
        shape = "neither"  # the long runs are expensive: half as frequent
    if force_shape:
        shape = force_shape
    if shape == "dyadic":
        # exact Julian-date arithmetic: start on a dyadic day fraction, burn start 2700 s (1/32 day) later, on a step boundary
        step = rng.choice([100, 300, 300, 600])
        n = 2700 // step + rng.randrange(2, 5)
        h, m = rng.choice([(0, 0), (6, 0), (12, 0), (18, 0), (3, 0), (12, 45), (1, 30)])
        start = start.replace(hour=h, minute=m, second=0)
    total = n * step
    if shape == "inside":
        k = rng.randrange(0, n)
        a = k * step + rng.randrange(1, max(2, step // 2))
        b = min(a + rng.randrange(1, max(2, step // 2)), (k + 1) * step - 1)
        b = max(b, a + 1)
    elif shape == "spanning":
        a = rng.randrange(1, total // 2)
        b = rng.randrange(a + step, total)
    elif shape == "start_on":
        a = rng.randrange(1, n - 1) * step
        b = a + rng.randrange(1, total - a)
        if b % step == 0:
            b -= 1
    elif shape == "end_on":
        b = rng.randrange(2, n) * step
        a = rng.randrange(1, b)
        if a % step == 0:
            a += 1
    elif shape == "both_on":
        ka = rng.randrange(1, n - 1)
        kb = rng.randrange(ka + 1, n)
        a, b = ka * step, kb * step
    elif shape == "late_tail":
        # more than a day into the scenario, a multi-step burn ending 1-3 s after a step boundary: anything comparing
        # times with a *relative* tolerance treats that tail as "already over"
        step = 3600
        n = rng.randrange(32, 40)
        total = n * step
        k_end = rng.randrange(30, n)
        b = k_end * step + 1  # one second: the smallest whole-second tail
        a = b - rng.randrange(step + 10, 2 * step)
    elif shape == "zero_length":
        # an empty interval (t_end == t_start, also what a finite_burn without an end time means): no thrust at all
        a = rng.randrange(1, n) * step if rng.random() < 0.4 else rng.randrange(1, total - 1)
        b = a
    elif shape == "at_epoch":
        a = 0
        b = rng.randrange(1, total)
    elif shape == "before_epoch":
        # the burn is already under way when the scenario starts: it thrusts from the epoch to its configured end
        a = -rng.randrange(1, 3 * step)
        b = rng.randrange(1, total)
    elif shape == "dyadic":
        a = 2700
        b = a + rng.randrange(1, total - a)
    elif shape == "abutting":
        a = rng.randrange(1, total - 4)
        b = rng.randrange(a + 2, total)
    else:
        a = rng.randrange(1, total - 2)
        b = rng.randrange(a + 1, total)
        if a % step == 0:
            a += 1
        if b % step == 0:
            b -= 1
    if shape != "zero_length":
        b = max(b, a + 1)
        b = min(b, total - 1) if b % step else b
    kind = rng.choice(["burn_eci", "burn_ntw", "spiral", "plane_change"])
    mag = rng.choice([1e-5, 5e-5, 2e-4])
    vec = [rng.choice([-1, 1]) * mag * rng.uniform(0.3, 1) for _ in range(3)]
    second = None
    if shape == "abutting":
        # a second burn of the same agent that starts exactly when the first one ends (hand-over anywhere in the grid)
        mid = rng.randrange(int(a) + 1, int(b))
        if force_shape == "abutting" and n >= 3 and step >= 4:
            # forced once per run: the first burn is already active when a step starts and the second one, not yet active, is
            # queued in that same step (first burn spans the boundary k*step, hand-over shortly after it)
            kb = rng.randrange(1, n - 1)
            a = kb * step - rng.randrange(1, step // 2 + 1)
            mid = kb * step + rng.randrange(1, step // 2 + 1)
            b = min(mid + rng.randrange(1, step), total - 1)
        second = {"t_on": mid, "t_off": int(b), "vec": [rng.choice([-1, 1]) * mag * rng.uniform(0.3, 1) for _ in range(3)], "mag": rng.choice([-1, 1]) * mag}
        b = mid
        if kind in ("spiral", "plane_change"):
            kind = rng.choice(["burn_eci", "burn_ntw"])
    # a second satellite burning over exactly the same interval (same event type), stored before or after this one's event
    twin = rng.choice(["before", "after"]) if rng.random() < 0.25 else None
    a, b = int(a), int(b)
    impulse = None
    if second is None and kind != "plane_change" and b - a >= 4 and a >= 16 and rng.random() < 0.25:
        # an impulsive manoeuvre of the same satellite strictly inside the burn: the burn goes on after it
        # (a third of them exactly on a switching instant of the burn: the satellite's two events then coincide)
        impulse = {"t": rng.choice([rng.randrange(a + 1, b - 1), rng.randrange(a + 1, b - 1), a, b]), "dv": [rng.choice([-1, 1]) * rng.uniform(1e-3, 1e-2) for _ in range(3)]}
    if second is None and shape in ("inside", "spanning", "neither", "start_on", "end_on") and rng.random() < 0.3:
        # switching times with a fractional second
        fa, fb = rng.choice([0.4, 0.25, 0.6, 0.5]), rng.choice([0.6, 0.3, 0.75, 0.5])
        if b + fb < total and (impulse is None or impulse["t"] > a + 1):
            a, b = a + fa, b + fb
    return {"kind": "burn", "no_end_time": shape == "zero_length" and rng.random() < 0.5, "impulse": impulse, "twin": twin, "start": start.isoformat(), "step": step, "n": n, "t_on": a, "t_off": b, "burn": kind, "vec": vec, "mag": rng.choice([-1, 1]) * mag, "second": second, "out_mult": rng.choice([1, 1, 1, 2, 3]),
            "model": rng.choice(["special_perturbations", "special_perturbations", "special_perturbations", "two_body"]), "shape": shape,
            "orbit": [rng.choice([6900.0, 7300.0, 12000.0, 42164.0]), rng.uniform(0, 120), rng.uniform(0, 360), rng.uniform(0, 360)]}


def build_cfg(case):
    from .. import scenario_kit as sk

    start = datetime.fromisoformat(case["start"])
    r, v = sk.circ_state(*case["orbit"])
    tg = [sk.target_cfg(TID, r, v)]
    sn = [sk.ground_sensor_cfg(20001, 35.0, -106.0)]
    t1, t2 = start + timedelta(seconds=case["t_on"]), start + timedelta(seconds=case["t_off"])
    if case["burn"] in ("burn_eci", "burn_ntw"):
        ev = {"scope": "agent_propagation", "scope_instance_id": TID, "start_time": sk.iso(t1), "end_time": sk.iso(t2), "event_type": "finite_burn",
              "acc_vector": case["vec"], "thrust_frame": case["burn"][-3:], "planned": False}
    else:
        ev = {"scope": "agent_propagation", "scope_instance_id": TID, "start_time": sk.iso(t1), "end_time": sk.iso(t2), "event_type": "finite_maneuver",
              "maneuver_mag": case["mag"], "maneuver_type": case["burn"], "planned": False}
    if case.get("no_end_time"):
        del ev["end_time"]      # documented default: the end time is the start time
    evs = [ev]
    if case.get("impulse"):
        evs.append({"scope": "agent_propagation", "scope_instance_id": TID, "start_time": sk.iso(start + timedelta(seconds=case["impulse"]["t"])), "event_type": "impulse",
                    "thrust_vector": case["impulse"]["dv"], "thrust_frame": "eci", "planned": False})
    if case.get("twin"):
        r2, v2 = sk.circ_state(case["orbit"][0] + 500.0, 40.0, 10.0, 200.0)
        tg.append(sk.target_cfg(TID + 1, r2, v2))
        ev2 = dict(ev, scope_instance_id=TID + 1)
        if "acc_vector" in ev2:
            ev2["acc_vector"] = [0.5 * c for c in reversed(ev["acc_vector"])]
        evs = [ev2, *evs] if case["twin"] == "before" else [*evs, ev2]
    if case.get("second"):
        s2 = case["second"]
        evs.append({"scope": "agent_propagation", "scope_instance_id": TID, "start_time": sk.iso(start + timedelta(seconds=s2["t_on"])),
                    "end_time": sk.iso(start + timedelta(seconds=s2["t_off"])), "event_type": "finite_burn", "acc_vector": s2["vec"], "thrust_frame": case["burn"][-3:], "planned": False})
    return sk.scenario_cfg(start, start + timedelta(seconds=(case["n"] + 1) * case["step"]), case["step"], [sk.engine_cfg(1, tg, sn)], truth_only=True, model=case["model"],
                           geopotential={"model": "egm96.txt", "degree": 2, "order": 0}, events=evs, output_step=case["step"] * case.get("out_mult", 1), integration="DOP853" if case["shape"] == "late_tail" else "RK45")


def _thrust(case, y):
    r, v = y[:3], y[3:]
    if case["burn"] == "burn_eci":
        return np.array(case["vec"], dtype=float)
    t = v / np.linalg.norm(v)
    w = np.cross(r, v)
    w /= np.linalg.norm(w)
    n = np.cross(t, w)
    if case["burn"] == "burn_ntw":
        a = np.array(case["vec"], dtype=float)
        return a[0] * n + a[1] * t + a[2] * w
    if case["burn"] == "spiral":
        return case["mag"] * t
    sgn = 1.0 if y[2] >= 0 else -1.0
    return sgn * case["mag"] * w


def reference(case, dyn, x0, t_final):
    from scipy.integrate import solve_ivp

    old = dyn.finite_thrust
    dyn.finite_thrust = None

    def grav(t, y):
        return np.asarray(dyn._differentialEquation(t, np.asarray(y, dtype=float), check_collision=False), dtype=float)  # noqa: SLF001

    def rhs_on(t, y):
        d = grav(t, y)
        d[3:] = d[3:] + _thrust(case, y)
        return d

    def rhs_second(t, y):
        d = grav(t, y)
        c2 = {**case, "vec": case["second"]["vec"], "mag": case["second"]["mag"]}
        d[3:] = d[3:] + _thrust(c2, y)
        return d

    x, t = np.array(x0, dtype=float), 0.0
    legs = [(0.0, float(case["t_on"]), grav), (float(case["t_on"]), float(case["t_off"]), rhs_on)]
    last = float(case["t_off"])
    if case.get("second"):
        legs.append((float(case["second"]["t_on"]), float(case["second"]["t_off"]), rhs_second))
        last = float(case["second"]["t_off"])
    legs.append((last, float(t_final), grav))
    try:
        for (ta, tb, f) in legs:
            tb = min(tb, float(t_final))
            ta = max(ta, 0.0)
            if tb <= ta:
                continue
            if case["burn"] == "plane_change" and f is rhs_on:
                # the thrust direction flips when the satellite crosses the equatorial plane: integrate piecewise between crossings
                cur = ta
                while cur < tb:
                    ev = lambda tt, yy: yy[2]  # noqa: E731
                    ev.terminal = True
                    sol = solve_ivp(f, (cur, tb), x, method="DOP853", rtol=1e-12, atol=1e-12, events=ev)
                    x = sol.y[:, -1]
                    if sol.status == 1 and sol.t[-1] < tb:
                        case["_crossings"] = case.get("_crossings", 0) + 1
                        cur = float(np.nextafter(sol.t[-1], np.inf)) + 1e-9
                        # step just across the plane without thrust ambiguity
                        x = x + 1e-9 * np.concatenate([x[3:], np.zeros(3)])
                    else:
                        cur = tb
            else:
                imp = case.get("impulse")
                if imp and ta < float(imp["t"]) <= tb:
                    sol = solve_ivp(f, (ta, float(imp["t"])), x, method="DOP853", rtol=1e-12, atol=1e-12)
                    x = sol.y[:, -1] + np.concatenate([np.zeros(3), np.array(imp["dv"], dtype=float)])
                    ta = float(imp["t"])
                if tb > ta:
                    sol = solve_ivp(f, (ta, tb), x, method="DOP853", rtol=1e-12, atol=1e-12)
                    x = sol.y[:, -1]
    finally:
        dyn.finite_thrust = old
    return x


def eval_case(ctx, case):
    from .. import scenario_kit as sk

    sk.init()
    from resonaate.dynamics.integration_events.finite_thrust import ScheduledFiniteThrust

    wit = case
    log = []
    orig = ScheduledFiniteThrust.getStateChangeCallback

    def getStateChangeCallback(self, time):
        cb = orig(self, time)
        log.append((float(time), "on" if cb is not None else "off"))
        return cb

    ScheduledFiniteThrust.getStateChangeCallback = getStateChangeCallback
    import resonaate.dynamics.integration_events.finite_thrust as ftmod

    end_cls = getattr(ftmod, "FiniteThrustEnd", None)  # companion end-of-thrust event, when the tree has one
    orig_end = None
    if end_cls is not None:
        orig_end = end_cls.getStateChangeCallback

        def endCallback(self, time):
            cb = orig_end(self, time)
            log.append((float(time), "on" if cb is not None else "off"))
            return cb

        end_cls.getStateChangeCallback = endCallback
    b = sk.build(build_cfg(case))
    err = None
    try:
        app = b.app
        x0 = np.array(app.target_agents[TID].eci_state, dtype=float)
        for _ in range(case["n"]):
            app.stepForward()
        got = np.array(app.target_agents[TID].eci_state, dtype=float)
        import copy

        dyn = copy.deepcopy(app.target_agents[TID].dynamics)
    except Exception as e:  # noqa: BLE001
        import traceback

        err = f"{type(e).__name__}: {e} :: {traceback.format_exc()[-500:]}"
    finally:
        ScheduledFiniteThrust.getStateChangeCallback = orig
        if end_cls is not None:
            end_cls.getStateChangeCallback = orig_end
        sk.teardown(b)
    if err and "EarthCollisionError" in err:
        ctx.count("cases_skipped_reentry")  # the generated burn de-orbits the satellite: not a subject of the property
        return
    if err:
        ctx.check(False, "run-raised", f"run raised {err}", wit, mon="burn_trajectory")
        return
    t_final = case["n"] * case["step"]
    ref = reference(case, dyn, x0, t_final)
    coast = reference({**case, "t_on": t_final + 1, "t_off": t_final + 2, "second": None}, dyn, x0, t_final)
    dr, dv = float(np.linalg.norm(got[:3] - ref[:3])), float(np.linalg.norm(got[3:] - ref[3:]))
    effect = float(np.linalg.norm(ref[3:] - coast[3:]))
    # tolerance = the repository integrator's own error on this arc (measured: its thrust-free propagation
    # versus the reference's thrust-free integration) with 30x head-room, plus a floor
    dyn_thrust = copy.deepcopy(dyn)
    dyn.finite_thrust = None
    coast_repo = np.asarray(dyn.propagate(0.0, float(t_final), np.array(x0, dtype=float)), dtype=float)
    coast_free = coast if not case.get("impulse") else reference({**case, "t_on": t_final + 1, "t_off": t_final + 2, "second": None, "impulse": None}, dyn, x0, t_final)
    e_r, e_v = float(np.linalg.norm(coast_repo[:3] - coast_free[:3])), float(np.linalg.norm(coast_repo[3:] - coast_free[3:]))
    # a Julian date resolves ~40 us, so thrust may legitimately switch up to ~5e-5 s off its configured times
    # (twice: start and end); orbital dynamics amplify the resulting velocity offset by a small factor
    amag = float(np.linalg.norm(case["vec"])) if case["burn"].startswith("burn") else abs(case["mag"])
    jitter_v = 6.0 * amag * 1e-4
    # a plane-change thrust flips sign when the satellite crosses the equatorial plane: the repository integrates
    # across that discontinuity with its adaptive step control (no event), the reference stops exactly on it.
    # Allow the equivalent of a 20 ms switching error per crossing (measured: <= 2 ms).
    ncross = int(case.pop("_crossings", 0))
    cross_v = 0.02 * amag * ncross
    tol_r = 1e-5 + 30.0 * e_r + (jitter_v + cross_v) * t_final
    tol_v = 1e-8 + 30.0 * e_v + jitter_v + cross_v
    if not (dr <= tol_r and dv <= tol_v):
        # The flat jitter term assumes the orbit amplifies a switching-time offset about six-fold. Before reporting, measure the
        # amplification on this very arc: sensitivity of the reference's final state to each switching time (finite difference,
        # 1 ms), times two Julian-date ulps (8e-5 s; observed offsets of the repository's switch times: up to 3.8e-5 s).
        # A one-second timing error still exceeds this by four orders of magnitude.
        s_r = s_v = 0.0
        for path in (("t_on",), ("t_off",), ("second", "t_on"), ("second", "t_off")):
            if path[0] == "second" and not case.get("second"):
                continue
            c2 = json.loads(json.dumps({k: v for k, v in case.items() if not k.startswith("_")}))
            tgt = c2 if len(path) == 1 else c2["second"]
            if tgt[path[-1]] >= t_final:
                continue
            tgt[path[-1]] = tgt[path[-1]] + 1e-3
            r2 = reference(c2, dyn_thrust, x0, t_final)
            s_r += float(np.linalg.norm(r2[:3] - ref[:3])) / 1e-3
            s_v += float(np.linalg.norm(r2[3:] - ref[3:])) / 1e-3
        tol_r = max(tol_r, 1e-5 + 30.0 * e_r + cross_v * t_final + 8e-5 * s_r)
        tol_v = max(tol_v, 1e-8 + 30.0 * e_v + cross_v + 8e-5 * s_v)
        ctx.count("cases_tolerance_refined_by_measured_sensitivity")
    if tol_v > 0.2 * effect and effect > 0:
        ctx.count("cases_effect_below_resolution")
    misaligned_end = case["t_off"] % case["step"] != 0 or bool(case.get("second") and case["second"]["t_off"] % case["step"] != 0)
    if misaligned_end:
        ctx.mon("misaligned_end_cases")
    # classify by mechanism (observed facts only)
    ignored = float(np.linalg.norm(got[3:] - coast[3:])) <= tol_v and effect > 10 * tol_v
    if ignored:
        key = f"burn-ignored-{case['model']}"
    elif case.get("second"):
        key = "burn-trajectory-abutting-burns"
    elif case.get("impulse") and case["impulse"]["t"] in (case["t_on"], case["t_off"]):
        key = "burn-trajectory-impulse-on-a-switching-instant"
    elif case.get("impulse"):
        key = "burn-trajectory-impulse-inside-burn"
    elif case["shape"] == "zero_length":
        key = "burn-thrusts-over-an-empty-interval"
    elif case["shape"] == "before_epoch":
        key = "burn-trajectory-started-before-epoch"
    elif case["shape"] in ("at_epoch", "dyadic"):
        key = "burn-trajectory-start-bit-identical-to-step-start"
    elif misaligned_end:
        key = "burn-overshoot-misaligned-end"
    else:
        key = "burn-trajectory-aligned-end"
    dv_nominal = (np.linalg.norm(case["vec"]) if case["burn"].startswith("burn") else abs(case["mag"])) * (min(case["t_off"], t_final) - max(case["t_on"], 0))
    ons = [t for t, s in log if s == "on"]
    ctx.check(dr <= tol_r and dv <= tol_v, key,
              f"{case['burn']} over [{case['t_on']},{case['t_off']}]s (step {case['step']}s, {case['model']}, {case['shape']}): final truth differs from the reference by |dr|={dr:.3e} km |dv|={dv:.3e} km/s "
              f"(nominal delta-v {dv_nominal:.3e} km/s; thrust callbacks at {[(round(t, 3), s) for t, s in log][:8]})", wit, mon="burn_trajectory")
    _ = ons


def run(ctx):
    rng = ctx.pyrng("c15")
    n = ctx.scale(160, 20000)
    for i in range(n):
        if ctx.time_left() < 10:
            break
        # every run contains the expensive but otherwise unreachable shapes at least once
        forced = {0: "late_tail", 1: "dyadic", 2: "at_epoch", 3: "abutting", 4: "before_epoch", 5: "zero_length"}.get(ctx.shard) if i == 0 else None
        case = gen_case(rng, forced)
        eval_case(ctx, case)
        ctx.count("shape_" + case["shape"])
        ctx.case((case["start"], case["step"], case["t_on"], case["t_off"], case["burn"], case["model"]), nontrivial=case["t_off"] % case["step"] != 0,
                 sample={k: case[k] for k in ("start", "step", "n", "t_on", "t_off", "burn", "model", "shape")} if i % 8 == 0 else None)


def replay(ctx, w):
    eval_case(ctx, w)
