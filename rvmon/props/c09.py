"""C09 - the output database is complete, duplicate-free and referentially consistent.

Real Scenario runs (library factory, ray stand-in) write a real SQLite file.  A wrapper on
``saveDatabaseOutput`` captures the in-memory states/covariances about to be written; afterwards
the whole file is audited with plain ``sqlite3`` (cardinalities from the executed history,
referential joins, bit-exact read-back, timestamps against integer calendar arithmetic).
Atomicity: an SQL fault is injected at the i-th statement of one step's bulk-save transaction
(SQLAlchemy ``before_cursor_execute`` on the real engine) and the audit must find all or none of
that step's rows.
"""

from __future__ import annotations

import json
import sqlite3
import struct
from datetime import datetime, timedelta

import numpy as np

from .. import netkit
from ..refs import timeref

LEVEL = "fault_enumeration"
RULE = ("case = generated network x (physics step, output step) x run plan (1-4 consecutive propagateTo calls, total 1-24 steps, stopping before / at "
        "/ beyond the configured stop time) x options (estimation on/off, filter steps, manoeuvre detection, target addition/removal events); "
        "fault cases additionally enumerate the statement index at which one step's bulk-save transaction dies. Non-trivial = the run wrote >= 2 "
        "output epochs (audit cases) or the fault really fired inside the bulk save (fault cases); distinct = distinct (network, plan, fault point)")
ASSUME = ["ray stand-in replaces the executor", "the Epoch row that saveDatabaseOutput inserts in its own earlier transaction is reference data; only the bulk-save transaction must be atomic",
          "integer calendar arithmetic (refs/timeref) for timestamps"]
SHARDS = {"quick": 8, "thorough": 16}
BUDGET_S = {"quick": 100, "thorough": 1300}
DECIDING = ["epochs", "cardinality", "referential", "readback", "readback_orm", "atomicity"]
MANIFEST = {
    "technique": "runtime monitoring: capture at saveDatabaseOutput and at every recorded filter step + offline SQL audit of the produced SQLite file + read-back through the library's own record classes; SQL fault injection enumerating the failing statement of a step's transaction",
    "level_text": "held on every executed configuration/history: exact cardinalities per output epoch, unique increasing epochs with matching timestamps, no dangling references, bit-exact read-back of states, covariances and filter steps (table columns and record-class accessors); a step's rows are all-or-nothing under a fault at every enumerated statement index",
    "level_note": "sampled configurations; fault points enumerated per chosen step (statement granularity)",
}

STEP_PAIRS = [(60, 60), (60, 300), (300, 60), (60, 100), (100, 60), (7, 5), (10, 30), (30, 30), (20, 50)]


def gen_case(rng):
    net = netkit.gen_network(rng, policies=("MunkresDecision", "MyopicNaiveGreedyDecision", "AllVisibleDecision"), max_sensors=3, max_targets=4)
    phys, out = rng.choice(STEP_PAIRS)
    net["step"] = phys
    netkit.maybe_sub_second_start(net, rng)
    net["init_pos_std"] = rng.choice([1e-3, 1e-3, 5.0])  # km; with a 0.5 deg field of view 5 km produces FIELD_OF_VIEW misses
    if rng.random() < 0.5:
        # narrow fields of view + a few km of initial estimate error: FIELD_OF_VIEW misses (tasking only happens for pairs
        # predicted visible, so slow mounts would not produce misses)
        for sdesc in net["sensors"]:
            sdesc["fov"] = "narrow"
        net["init_pos_std"] = rng.choice([2.0, 5.0, 10.0])
    nchunks = rng.randrange(1, 5)
    plan = [rng.randrange(1, 7) for _ in range(nchunks)]
    total = sum(plan)
    span_steps = rng.choice([total, total, total + rng.randrange(1, 4), max(1, total - rng.randrange(1, 3))])
    estimation = rng.random() < 0.75
    net["save_filter_steps"] = estimation and rng.random() < 0.4
    net["maneuver_detection"] = rng.choice([None, "standard_nis", "sliding_nis"]) if estimation else None
    events = []
    if rng.random() < 0.4:
        events.append({"kind": "target_addition", "k": rng.randrange(1, total + 1), "shift": rng.choice([0, 0, -1])})
    if rng.random() < 0.3 and len(net["targets"]) > 1:
        events.append({"kind": "target_removal", "k": rng.randrange(1, total + 1), "shift": 0})
    if rng.random() < 0.3 and len(net["sensors"]) > 1:
        # the engine's last sensor leaves the run (time biases are only ever addressed to the first one)
        events.append({"kind": "sensor_removal", "k": rng.randrange(1, total + 1), "shift": 0})
    if rng.random() < 0.25:
        events.append({"kind": "sensor_addition", "k": rng.randrange(1, total + 1), "shift": rng.choice([0, 0, -1])})
    if estimation and rng.random() < 0.4:
        events.append({"kind": "impulse", "k": rng.randrange(1, total + 1), "shift": 0})
    if estimation and rng.random() < 0.35:
        # a sensor whose clock is off for a while: what it observes is still recorded at the scenario's epochs
        events.append({"kind": "time_bias", "k": rng.randrange(0, max(1, total - 1)), "shift": 1, "len": rng.randrange(1, total + 1), "bias": rng.choice([0.5, -0.5, 1.0])})
    dup_names = rng.random() < 0.3  # names are free-form labels: two agents (and the satellite joining later) may share one
    second_engine = rng.random() < 0.3  # a second tasking engine that shares the first target (one estimate agent serves both)
    return {"kind": "audit", "dup_names": dup_names, "second_engine": second_engine, "net": net, "out": out, "plan": plan, "span_steps": span_steps, "estimation": estimation, "events": events}


def build_cfg(case):
    from .. import scenario_kit as sk

    net = case["net"]
    start = datetime.fromisoformat(net["start"])
    evs = []
    for e in case["events"]:
        t = start + timedelta(seconds=max(1, e["k"] * net["step"] + e["shift"]))
        if e["kind"] == "target_addition":
            r, v = sk.circ_state(8100.0, 77.0, 12.0, 222.0)
            evs.append({"scope": "scenario_step", "scope_instance_id": 0, "start_time": sk.iso(t), "event_type": "target_addition", "tasking_engine_id": 1,
                        "target_agent": sk.target_cfg(19001, r, v)})
        elif e["kind"] == "target_removal":
            evs.append({"scope": "scenario_step", "scope_instance_id": 0, "start_time": sk.iso(t), "event_type": "agent_removal", "tasking_engine_id": 1,
                        "agent_id": net["targets"][-1]["id"], "agent_type": "target"})
        elif e["kind"] == "sensor_removal":
            evs.append({"scope": "scenario_step", "scope_instance_id": 0, "start_time": sk.iso(t), "event_type": "agent_removal", "tasking_engine_id": 1,
                        "agent_id": net["sensors"][-1]["id"], "agent_type": "sensor"})
        elif e["kind"] == "sensor_addition":
            r, v = sk.circ_state(7300.0, 51.0, 40.0, 10.0)
            evs.append({"scope": "scenario_step", "scope_instance_id": 0, "start_time": sk.iso(t), "event_type": "sensor_addition", "tasking_engine_id": 1,
                        "sensor_agent": sk.space_sensor_cfg(29001, r, v, kind="optical")})
        elif e["kind"] == "impulse":
            evs.append({"scope": "agent_propagation", "scope_instance_id": net["targets"][0]["id"], "start_time": sk.iso(t), "event_type": "impulse",
                        "thrust_vector": [0.0, 0.02, 0.0], "thrust_frame": "ntw", "planned": False})
        elif e["kind"] == "time_bias":
            for sdesc in (net["sensors"] if e.get("all") else net["sensors"][:1]):
                evs.append({"scope": "observation_generation", "scope_instance_id": sdesc["id"], "start_time": sk.iso(t),
                            "end_time": sk.iso(t + timedelta(seconds=e["len"] * net["step"])), "event_type": "sensor_time_bias", "applied_bias": e["bias"]})
    cfg = netkit.net_cfg(net, truth_only=not case["estimation"], output_step=case["out"], events=evs)
    if case.get("gpf"):
        # the genetic particle filter as the tracking filter (its own filter-step table; records a step at predict and at update)
        cfg["estimation"]["sequential_filter"] = {"name": "genetic_particle_filter", "dynamics_model": "two_body", "save_filter_steps": True,
                                                  "population_size": 30, "num_purge": 4, "num_keep": 4, "num_mutate": 8}
    cfg["time"]["stop_timestamp"] = sk.iso(start + timedelta(seconds=case["span_steps"] * net["step"]))
    if case.get("dup_names"):
        e1 = cfg["engines"][0]
        for tc in e1["targets"][1:2]:
            tc["name"] = e1["targets"][0]["name"]
        for sc in e1["sensors"][1:2]:
            sc["name"] = e1["sensors"][0]["name"]
        for ev in cfg["events"]:
            if ev.get("event_type") == "target_addition":
                ev["target_agent"]["name"] = e1["targets"][0]["name"]
    if case.get("second_engine"):
        e1 = cfg["engines"][0]
        e2 = json.loads(json.dumps(e1))
        e2["unique_id"] = 2
        e2["targets"] = [e1["targets"][0]]
        s2 = json.loads(json.dumps(e1["sensors"][0]))
        s2["id"], s2["name"] = 21999, "S21999"
        s2["state"]["latitude"] = float(s2["state"]["latitude"]) + 1.5
        e2["sensors"] = [s2]
        cfg["engines"].append(e2)
    return cfg


def _bits(x):
    return struct.pack("<d", float(x))


def execute(case, fault=None):
    """Run the plan; returns (db_path, captures, history, error).  fault = (save_index, statement_index)."""
    from .. import scenario_kit as sk

    sk.init()
    from resonaate.physics.time.stardate import datetimeToJulianDate
    from sqlalchemy import event as sa_event
    from sqlalchemy.exc import OperationalError

    net = case["net"]
    cfg = build_cfg(case)
    b = sk.build(cfg, base_seed=net["seed"])
    app = b.app
    caps = []
    state = {"save_index": 0, "in_bulk": False, "stmt": 0, "fired": None, "stmts_in_bulk": {}}
    orig_save = app.saveDatabaseOutput
    orig_bulk = app.database.bulkSave

    def bulkSave(data):
        # statements are numbered across every bulkSave() call of one saveDatabaseOutput(): if a step's rows were written by
        # more than one call (transaction), a fault in a later one must still leave nothing of the step behind
        state["in_bulk"] = True
        state["bulk_calls"] = state.get("bulk_calls", 0) + 1
        try:
            return orig_bulk(data)
        finally:
            state["in_bulk"] = False
            state["stmts_in_bulk"][state["save_index"]] = state["stmt"]

    app.database.bulkSave = bulkSave

    def save():
        state["save_index"] += 1
        state["stmt"] = 0
        cap = {
            "index": state["save_index"], "time": float(app.clock.time), "jd": float(app.clock.julian_date_epoch), "iso": app.clock.datetime_epoch.isoformat(timespec="microseconds"),
            "truth": {int(i): np.array(a.eci_state, dtype=float) for i, a in list(app.target_agents.items()) + list(app.sensor_agents.items())},
            "est": {} if not case["estimation"] else {int(i): (np.array(a.eci_state, dtype=float), np.array(a.error_covariance, dtype=float)) for i, a in app.estimate_agents.items()},
            "committed": False,
        }
        caps.append(cap)
        orig_save()
        cap["committed"] = True

    app.saveDatabaseOutput = save
    produced = {"obs": [], "miss": []}
    orig_step = app.stepForward

    def stepped():
        orig_step()
        if case["estimation"]:
            k = int(round(float(app.clock.time) / net["step"]))
            for eng in app.tasking_engines.values():
                produced["obs"].extend((k, float(o.julian_date), int(o.sensor_id), int(o.target_id)) for o in eng.observations)
                produced["miss"].extend((k, float(m.julian_date), int(m.sensor_id), int(m.target_id)) for m in eng.missed_observations)

    app.stepForward = stepped
    # every filter step an estimate agent records (values the filter holds at that moment): the library's own record
    # classes must hand them back unchanged after the run (ORM read-back)
    from resonaate.agents.estimate_agent import EstimateAgent

    fsteps = []
    orig_sfs = EstimateAgent._saveFilterStep  # noqa: SLF001

    def _sfs(self):
        f = self.nominal_filter
        try:
            rec = {"jd": float(self.julian_date_epoch), "tid": int(self.simulation_id), "k": int(round(float(self.time) / net["step"]))}
            rec["particle"] = hasattr(f, "population")
            for name in (("population", "scores", "particle_residuals") if rec["particle"] else ("innovation", "q_matrix", "cross_cvr", "innov_cvr", "kalman_gain")):
                v = getattr(f, name, None)
                rec[name] = None if v is None else np.array(v, dtype=float)
            nis = None if rec["particle"] else getattr(f, "nis", None)
            rec["nis"] = None if nis is None or np.asarray(nis).size == 0 else float(np.asarray(nis).ravel()[0])
            fsteps.append(rec)
        except Exception as e:  # noqa: BLE001  - a capture problem must not change the run
            fsteps.append({"capture_error": repr(e)[:200]})
        return orig_sfs(self)

    EstimateAgent._saveFilterStep = _sfs  # noqa: SLF001
    # the initial save happened in the constructor: reconstruct its capture
    start = datetime.fromisoformat(net["start"])

    def before_exec(conn, cursor, statement, parameters, context, executemany):
        if not state["in_bulk"]:
            return
        state["stmt"] += 1
        if fault and state["save_index"] == fault[0] and state["stmt"] == fault[1] and state["fired"] is None:
            state["fired"] = statement.split("(")[0][:60]
            raise OperationalError(statement, parameters, Exception("injected fault (rvmon C09)"))

    sa_event.listen(app.database.engine, "before_cursor_execute", before_exec)
    err = None
    steps_done = 0
    try:
        step = net["step"]
        for c in case["plan"]:
            target = steps_done + c
            app.propagateTo(datetimeToJulianDate(start + timedelta(seconds=target * step)))
            steps_done = target
    except Exception as e:  # noqa: BLE001
        import traceback

        err = (type(e).__name__, f"{type(e).__name__}: {str(e)[:200]} :: {traceback.format_exc()[-500:]}")
        steps_done = int(round(float(app.clock.time) / net["step"]))
    finally:
        EstimateAgent._saveFilterStep = orig_sfs  # noqa: SLF001
        try:
            sa_event.remove(app.database.engine, "before_cursor_execute", before_exec)
        except Exception:  # noqa: BLE001
            pass
    hist = {"steps_done": steps_done, "fired": state["fired"], "stmts_in_bulk": state["stmts_in_bulk"], "produced": produced, "fsteps": fsteps,
            "alive_targets_final": sorted(int(i) for i in app.target_agents), "sensors": sorted(int(i) for i in app.sensor_agents)}
    return b, caps, hist, err


def audit(ctx, case, b, caps, hist, wit, fault=None):
    net = case["net"]
    con = sqlite3.connect(b.db_path)
    cur = con.cursor()
    # ---- epochs ---------------------------------------------------------------------------
    epochs = cur.execute("select id, julian_date, timestampISO from epochs order by id").fetchall()
    jds = [e[1] for e in epochs]
    ctx.check(len(set(jds)) == len(jds) and len({e[2] for e in epochs}) == len(epochs), "epochs-duplicate", "duplicate epoch rows", wit, mon="epochs")
    bad_ts = []
    for _id, jd, ts in epochs:
        t = datetime.fromisoformat(ts)
        if abs(float(jd) - timeref.jd_float(t)) * 86400.0 > 1e-3:
            bad_ts.append((jd, ts))
    ctx.check(not bad_ts, "epoch-timestamp-mismatch", f"{len(bad_ts)} epoch row(s) whose timestampISO does not match julian_date, e.g. {bad_ts[:2]}", wit, mon="epochs")
    by_time = sorted(epochs, key=lambda e: e[2])
    ctx.check(all(by_time[i][1] < by_time[i + 1][1] for i in range(len(by_time) - 1)), "epochs-not-increasing", "epoch Julian dates are not strictly increasing with their timestamps", wit, mon="epochs")
    jdset = set(jds)
    agents = {r[0] for r in cur.execute("select unique_id from agents")}
    # ---- referential ----------------------------------------------------------------------
    refs = [("truth_ephemerides", ["agent_id"]), ("estimate_ephemerides", ["agent_id"]), ("observations", ["sensor_id", "target_id"]),
            ("missed_observations", ["sensor_id", "target_id"]), ("tasks", ["sensor_id", "target_id"]), ("detected_maneuvers", ["target_id"]), ("filterstep", ["target_id"])]
    for table, cols in refs:
        rows = cur.execute(f"select julian_date, {', '.join(cols)} from {table}").fetchall()  # noqa: S608
        dangling_e = [r for r in rows if r[0] not in jdset]
        dangling_a = [r for r in rows if any(a not in agents for a in r[1:])]
        # mechanism: rows recorded at physics epochs AFTER the configured stop time that are not output epochs
        # (the clock pre-inserts epochs only up to the stop time; later ones are inserted at output epochs only)
        stop_jd = max((e[1] for e in epochs if datetime.fromisoformat(e[2]) <= datetime.fromisoformat(net["start"]) + timedelta(seconds=case["span_steps"] * net["step"])), default=None)
        past_stop = bool(dangling_e) and stop_jd is not None and all(r[0] > stop_jd for r in dangling_e) and case["out"] != net["step"]
        ctx.check(not dangling_e, f"dangling-epoch-{table}" + ("-past-configured-stop" if past_stop else ""), f"{len(dangling_e)} row(s) of {table} refer to a Julian date that is not in the epochs table, e.g. {dangling_e[:2]}", wit, mon="referential")
        ctx.check(not dangling_a, f"dangling-agent-{table}", f"{len(dangling_a)} row(s) of {table} refer to an agent that is not in the agents table", wit, mon="referential")
        ctx.count("rows_" + table, len(rows))
    sub = cur.execute("select count(*) from sequential_filter_step s left join filterstep f on f.id = s.id where f.id is null").fetchone()[0]
    ctx.check(sub == 0, "dangling-filterstep-subtype", "sequential_filter_step rows without their filterstep parent", wit, mon="referential")
    # ---- cardinalities and read-back ---------------------------------------------------------
    # expected output captures: the constructor's initial save (not captured by the wrapper) + committed captures
    start = datetime.fromisoformat(net["start"])
    truth_rows = cur.execute("select julian_date, agent_id, pos_x_km, pos_y_km, pos_z_km, vel_x_km_p_sec, vel_y_km_p_sec, vel_z_km_p_sec from truth_ephemerides").fetchall()
    by_jd = {}
    for r in truth_rows:
        by_jd.setdefault(r[0], []).append(r)
    est_cols = ", ".join(f"covar_{i}{j}" for i in range(6) for j in range(6))
    est_rows = cur.execute(f"select julian_date, agent_id, pos_x_km, pos_y_km, pos_z_km, vel_x_km_p_sec, vel_y_km_p_sec, vel_z_km_p_sec, {est_cols} from estimate_ephemerides").fetchall()  # noqa: S608
    est_by_jd = {}
    for r in est_rows:
        est_by_jd.setdefault(r[0], []).append(r)
    exp_jds = set()
    steps_done = hist["steps_done"]
    exp_out_steps = [k for k in range(1, steps_done + 1) if (k * net["step"]) % case["out"] == 0]
    committed = [c for c in caps if c["committed"]]
    failed = [c for c in caps if not c["committed"]]
    if fault is None:
        ctx.check([int(round(c["time"] / net["step"])) for c in committed] == exp_out_steps, "output-epochs",
                  f"output written after steps {[int(round(c['time'] / net['step'])) for c in committed]}, expected {exp_out_steps} (physics {net['step']}s, output {case['out']}s)", wit, mon="cardinality")
    for c in committed:
        exp_jds.add(c["jd"])
        ep = [e for e in epochs if e[1] == c["jd"]]
        ctx.check(len(ep) == 1 and ep[0][2] == c["iso"], "epoch-row-missing", f"no unique epoch row for output epoch t={c['time']}s (jd {c['jd']!r}, {c['iso']}): {ep}", wit, mon="epochs")
        exp_iso = (start + timedelta(seconds=c["time"])).isoformat(timespec="microseconds")
        ctx.check(c["iso"] == exp_iso, "epoch-not-start-plus-k-step", f"recorded epoch {c['iso']} != start + k*step = {exp_iso}", wit, mon="epochs")
        rows = by_jd.get(c["jd"], [])
        ids = sorted(r[1] for r in rows)
        ctx.check(ids == sorted(c["truth"]), "truth-cardinality", f"output epoch t={c['time']}s: truth rows for agents {ids}, expected exactly one each of {sorted(c['truth'])}", wit, mon="cardinality")
        for r in rows:
            mem = c["truth"].get(r[1])
            if mem is not None:
                ctx.check(all(_bits(a) == _bits(bv) for a, bv in zip(r[2:8], mem)), "truth-readback", f"truth state of agent {r[1]} at t={c['time']}s read back differs from memory", wit, mon="readback")
        if case["estimation"]:
            erows = est_by_jd.get(c["jd"], [])
            eids = sorted(r[1] for r in erows)
            ctx.check(eids == sorted(c["est"]), "estimate-cardinality", f"output epoch t={c['time']}s: estimate rows for {eids}, expected exactly one each of {sorted(c['est'])}", wit, mon="cardinality")
            for r in erows:
                mem = c["est"].get(r[1])
                if mem is not None:
                    okx = all(_bits(a) == _bits(bv) for a, bv in zip(r[2:8], mem[0]))
                    okp = all(_bits(a) == _bits(bv) for a, bv in zip(r[8:], mem[1].ravel()))
                    ctx.check(okx and okp, "estimate-readback", f"estimate/covariance of target {r[1]} at t={c['time']}s read back differs from memory", wit, mon="readback")
    # the initial state (written by the constructor)
    jd0 = [e[1] for e in epochs if e[2] == start.isoformat(timespec="microseconds")]
    ctx.check(len(jd0) == 1 and len(by_jd.get(jd0[0], [])) >= 1, "initial-state-missing", "no truth rows for the initial epoch", wit, mon="cardinality")
    if jd0:
        exp_jds.add(jd0[0])
        init_rows = by_jd.get(jd0[0], [])
        ctx.check(len({r[1] for r in init_rows}) == len(init_rows), "initial-state-duplicate", "duplicate truth rows at the initial epoch", wit, mon="cardinality")
    stray = sorted(set(by_jd) - exp_jds)
    # rows of a step whose save failed (fault) are judged by the atomicity monitor below
    failed_jds = {c["jd"] for c in failed}
    stray = [j for j in stray if j not in failed_jds]
    ctx.check(not stray, "truth-rows-at-non-output-epoch", f"truth rows exist for {len(stray)} epoch(s) that are not output epochs", wit, mon="cardinality")
    # duplicates anywhere
    for table, cols in (("observations", "julian_date, sensor_id, target_id"), ("missed_observations", "julian_date, sensor_id, target_id"), ("tasks", "julian_date, sensor_id, target_id"),
                        ("truth_ephemerides", "julian_date, agent_id"), ("estimate_ephemerides", "julian_date, agent_id"), ("filterstep", "julian_date, target_id"),
                        ("detected_maneuvers", "julian_date, target_id")):
        if table == "filterstep" and case.get("gpf"):
            continue  # a particle filter records its step twice per observed epoch (prediction and update): not a duplicate
        dup = cur.execute(f"select {cols}, count(*) c from {table} group by {cols} having c > 1").fetchall()  # noqa: S608
        multi = net["policy"] == "AllVisibleDecision" and table in ("observations",)
        ctx.check(not dup, f"duplicate-rows-{table}" + ("-multi-job-sensor" if multi else ""), f"{len(dup)} duplicated key(s) in {table}, e.g. {dup[:2]} ({net['policy']})", wit, mon="cardinality")
    # ---- every observation / miss the engines produced up to the last output epoch is stored exactly once ------
    if fault is None and committed and case["estimation"]:
        last_k = int(round(committed[-1]["time"] / net["step"]))
        for kind, table in (("obs", "observations"), ("miss", "missed_observations")):
            want = sorted((jd, sid, tid) for (k, jd, sid, tid) in hist["produced"][kind] if k <= last_k)
            got = sorted(cur.execute(f"select julian_date, sensor_id, target_id from {table}").fetchall())  # noqa: S608
            ctx.count(f"produced_{table}", len(want))
            ctx.check(want == got, f"{table}-rows-ne-produced",
                      f"{table}: the engines produced {len(want)} record(s) up to the last output epoch (step {last_k}), the database holds {len(got)}; "
                      f"missing {len([w_ for w_ in want if w_ not in got])}, unexpected {len([g_ for g_ in got if g_ not in want])} (physics {net['step']}s, output {case['out']}s)",
                      wit, mon="cardinality")
    # ---- read-back through the library's own record classes ---------------------------------------------------
    if fault is None:
        orm_readback(ctx, case, b, committed, hist, wit)
    # ---- atomicity -----------------------------------------------------------------------------
    if fault is not None and hist["fired"]:
        for c in failed:
            n_t = len(by_jd.get(c["jd"], []))
            n_e = len(est_by_jd.get(c["jd"], []))
            n_o = cur.execute("select count(*) from tasks where julian_date = ?", (c["jd"],)).fetchone()[0]
            total = n_t + n_e + n_o
            ctx.check(total == 0, "partial-step-committed", f"the bulk save of step t={c['time']}s died at statement {fault[1]} ({hist['fired']}) but {n_t} truth, {n_e} estimate and {n_o} task rows of that step are in the database", wit, mon="atomicity")
            # every other table that carries the step's Julian date (observations, misses, filter steps, detected manoeuvres ...)
            left = {}
            for (tname,) in cur.execute("select name from sqlite_master where type = 'table'").fetchall():
                cols = [r_[1] for r_ in cur.execute(f"pragma table_info({tname})").fetchall()]  # noqa: S608
                if "julian_date" in cols and tname not in ("epochs", "truth_ephemerides", "estimate_ephemerides", "tasks"):
                    cnt = cur.execute(f"select count(*) from {tname} where julian_date = ?", (c["jd"],)).fetchone()[0]  # noqa: S608
                    if cnt:
                        left[tname] = cnt
            ctx.check(not left, "partial-step-committed-other-tables", f"the save of step t={c['time']}s died at statement {fault[1]} ({hist['fired']}) but rows of that step remain in {left}", wit, mon="atomicity")
    con.close()
    return len(committed)


def _same_bits(a, b):
    a = np.asarray(a, dtype=float)
    b = np.asarray(b, dtype=float)
    return a.shape == b.shape and a.tobytes() == b.tobytes()


def orm_readback(ctx, case, b, committed, hist, wit):
    """What a user of the library reads: TruthEphemeris.eci, EstimateEphemeris.eci / .covariance, the filter-step accessors."""
    from resonaate.data.ephemeris import EstimateEphemeris, TruthEphemeris
    from resonaate.data.filter_step import ParticleFilterStep, SequentialFilterStep
    from sqlalchemy.orm import Query

    db = b.app.database
    by_cap = {c["jd"]: c for c in committed}
    truth_orm = db.getData(Query(TruthEphemeris))
    con = sqlite3.connect(b.db_path)
    # (the record classes join epochs and agents: a row whose epoch or agent does not exist is the referential monitor's subject)
    n_truth = con.execute("select count(*) from truth_ephemerides t join epochs e on e.julian_date = t.julian_date join agents a on a.unique_id = t.agent_id").fetchone()[0]
    fs_keys = con.execute("select julian_date, target_id from filterstep").fetchall()
    con.close()
    ctx.check(len(truth_orm) == n_truth, "truth-readback-orm-row-count", f"the library's query for truth ephemerides returns {len(truth_orm)} record(s), the table holds {n_truth} with an existing epoch and agent", wit, mon="readback_orm")
    for row in truth_orm:
        c = by_cap.get(float(row.julian_date))
        mem = None if c is None else c["truth"].get(int(row.agent_id))
        if mem is None:
            continue
        ctx.check(_same_bits(row.eci, mem), "truth-readback-orm", f"TruthEphemeris.eci of agent {row.agent_id} at t={c['time']}s differs from the state the simulation held", wit, mon="readback_orm")
    if case["estimation"]:
        for row in db.getData(Query(EstimateEphemeris)):
            c = by_cap.get(float(row.julian_date))
            mem = None if c is None else c["est"].get(int(row.agent_id))
            if mem is None:
                continue
            ctx.check(_same_bits(row.eci, mem[0]), "estimate-readback-orm", f"EstimateEphemeris.eci of target {row.agent_id} at t={c['time']}s differs from the estimate the simulation held", wit, mon="readback_orm")
            ctx.check(_same_bits(row.covariance, mem[1]), "covariance-readback-orm", f"EstimateEphemeris.covariance of target {row.agent_id} at t={c['time']}s differs from the covariance the simulation held", wit, mon="readback_orm")
    if case["net"].get("save_filter_steps") and committed:
        net = case["net"]
        last_k = int(round(committed[-1]["time"] / net["step"]))
        caps = [f for f in hist["fsteps"] if "capture_error" not in f]
        ctx.count("filter_step_capture_errors", len(hist["fsteps"]) - len(caps))
        # completeness is asserted for targets still tracked at the end: steps a target recorded between two output epochs are
        # held by its estimate agent, so a target removed before the next output takes them along - the property does not
        # promise those rows (their content, when stored, is still compared)
        alive = set(hist["alive_targets_final"])
        want = {}
        for f in caps:
            if f["k"] <= last_k:
                want.setdefault((f["jd"], f["tid"]), []).append(f)
        removed_keys = {k_ for k_ in want if k_[1] not in alive}
        ctx.count("filter_steps_of_removed_targets_not_required", sum(len(want[k_]) for k_ in removed_keys))
        rows = db.getData(Query(ParticleFilterStep if case.get("gpf") else SequentialFilterStep))
        got = {}
        for r in sorted(rows, key=lambda r_: r_.id):
            got.setdefault((float(r.julian_date), int(r.target_id)), []).append(r)
        ctx.count("filter_steps_recorded", sum(len(v) for v in want.values()))
        want_req = {k_: v for k_, v in want.items() if k_ not in removed_keys}
        # completeness is counted on the table itself (the record classes drop rows whose epoch does not exist - a known finding of the referential monitor)
        got_req = {}
        for jd_, tid_ in fs_keys:
            if int(tid_) in alive:
                got_req.setdefault((float(jd_), int(tid_)), []).append(None)
        ctx.check(sorted(want_req) == sorted(got_req) and all(len(want_req[k_]) == len(got_req[k_]) for k_ in want_req), "filterstep-rows-ne-recorded",
                  f"the estimate agents recorded {sum(len(v) for v in want.values())} filter step(s) up to the last output epoch, the database holds {sum(len(v) for v in got.values())} "
                  f"(missing {len(set(want_req) - set(got_req))}, unexpected {len(set(got_req) - set(want_req))}; physics {net['step']}s, output {case['out']}s)", wit, mon="cardinality")
        # a particle filter records a step when it predicts and again when it updates: rows of one (epoch, target) are paired in recording order
        for key in want:
            if len(want[key]) != len(got.get(key, [])):
                continue
            for f, r in zip(want[key], got[key]):
                _readback_filter_step(ctx, key, f, r, wit)


def _readback_filter_step(ctx, key, f, r, wit):
    bad = []
    if f["particle"]:
        for name, acc in (("population", "particles"), ("scores", "scores"), ("particle_residuals", "particle_residuals")):
            if f[name] is not None and not _same_bits(getattr(r, acc), f[name]):
                bad.append(acc)
        ctx.count("particle_filter_steps_read_back")
        ctx.check(not bad, "particle-filterstep-readback-orm", f"particle filter step of target {key[1]} at jd {key[0]!r}: {bad} read back through ParticleFilterStep differ from what the filter held when the step was recorded", wit, mon="readback_orm")
        return
    for name in ("q_matrix", "cross_cvr", "innov_cvr", "kalman_gain"):
        if f[name] is not None and not _same_bits(getattr(r, name), f[name]):
            bad.append(name)
    if f["nis"] is not None and not (r.nis is not None and _bits(r.nis) == _bits(f["nis"])):
        bad.append("nis")
    inn = f["innovation"]
    if inn is not None and inn.size in (2, 4):
        stored = [r.measurement_residual_azimuth, r.measurement_residual_elevation] + ([r.measurement_residual_range, r.measurement_residual_range_rate] if inn.size == 4 else [])
        if any(v is None for v in stored) or not _same_bits(stored, inn.ravel()):
            bad.append("innovation")
    ctx.check(not bad, "filterstep-readback-orm", f"filter step of target {key[1]} at jd {key[0]!r}: {bad} read back through SequentialFilterStep differ from what the filter held when the step was recorded", wit, mon="readback_orm")


def eval_case(ctx, case):
    from .. import scenario_kit as sk

    wit = case
    fault = tuple(case["fault"]) if case.get("fault") else None
    b, caps, hist, err = execute(case, fault)
    try:
        if err and not (fault and hist["fired"]):
            if "LinAlgError" in err[0] or "invalid numeric entries" in err[1]:  # the filter diverged (NaN rewards stop the decision): not a database matter
                ctx.count("runs_skipped_filter_divergence")
                return 0
            ctx.check(False, f"run-raised-{err[0]}", f"run raised {err[1]}", wit, mon="cardinality")
            return 0
        if fault and not hist["fired"]:
            return 0  # the statement index does not exist in that step's transaction: trivial
        n = audit(ctx, case, b, caps, hist, wit, fault)
        return n if not fault else 2
    finally:
        sk.teardown(b)


def big_catalogue_case(rng):
    """One save call with more than a thousand objects (agents at construction, truth rows at every output epoch)."""
    case = gen_case(rng)
    net = case["net"]
    t0 = net["targets"][0]
    net["targets"] = [dict(t0, id=11001 + j, radius=6900.0 + (j % 40) * 60.0, heading=(j * 7.3) % 360.0, off=[(j % 11) - 5.0, (j % 7) - 3.0]) for j in range(rng.choice([1000, 1003, 2001]) - len(net["sensors"]) + rng.choice([-1, 0, 1]))]
    net["step"] = 60
    case.update({"out": 60, "plan": [1, 1], "span_steps": 2, "estimation": False, "events": [], "second_engine": False, "big": True})
    net["save_filter_steps"] = False
    net["maneuver_detection"] = None
    return case


def run(ctx):
    rng = ctx.pyrng("c09")
    n = ctx.scale(48, 1200)
    if ctx.shard == 0:
        case = big_catalogue_case(rng)
        nout = eval_case(ctx, case)
        ctx.count("big_catalogue_cases")
        ctx.case(("big", len(case["net"]["targets"])), nontrivial=nout >= 2, sample={"big_catalogue_targets": len(case["net"]["targets"])})
    for i in range(n):
        if ctx.time_left() < 12:
            break
        case = gen_case(rng)
        if i == 1:
            # once per shard: every sensor's clock is off for the whole run, with estimation (and therefore observations) on
            for _ in range(20):
                if case["estimation"]:
                    break
                case = gen_case(rng)
            case["events"] = [e_ for e_ in case["events"] if e_["kind"] not in ("time_bias", "sensor_removal")] + [{"kind": "time_bias", "k": 0, "shift": 1, "len": sum(case["plan"]) + 2, "bias": rng.choice([0.5, -0.5]), "all": True}]
            ctx.count("cases_with_all_sensor_clocks_biased")
        if i == 2:
            # once per shard: the particle filter tracks the targets and its filter steps are stored
            for _ in range(20):
                if case["estimation"] and not case["second_engine"]:
                    break
                case = gen_case(rng)
            case["gpf"] = True
            case["net"]["save_filter_steps"] = True
            case["net"]["maneuver_detection"] = None
            case["plan"] = case["plan"][:2]
            case["span_steps"] = min(case["span_steps"], sum(case["plan"]) + 1)
            case["events"] = [e_ for e_ in case["events"] if e_["kind"] != "impulse" and e_["k"] <= sum(case["plan"])]
            ctx.count("cases_with_particle_filter")
        nout = eval_case(ctx, case)
        ctx.case(("a", case["net"]["start"], case["net"]["seed"], tuple(case["plan"]), case["out"]), nontrivial=nout >= 2,
                 sample={"physics": case["net"]["step"], "output": case["out"], "plan": case["plan"], "span_steps": case["span_steps"], "estimation": case["estimation"],
                         "events": [e["kind"] for e in case["events"]], "policy": case["net"]["policy"]} if i % 6 == 0 else None)
        # fault enumeration on a fraction of the cases: kill the k-th statement of one step's bulk save
        if i % (3 if ctx.quick else 4) == 0 and nout >= 1:
            _b, _caps, hist, _err = None, None, None, None
            # learn how many statements that step's transaction has from a dry run
            bb, caps, hist, err = execute(case)
            from .. import scenario_kit as sk

            sk.teardown(bb)
            if err or not hist["stmts_in_bulk"]:
                continue
            save_index = rng.choice(sorted(hist["stmts_in_bulk"]))
            nst = hist["stmts_in_bulk"][save_index]
            idxs = list(range(1, nst + 1))
            if ctx.quick and len(idxs) > 4:
                idxs = sorted(rng.sample(idxs, 4))
            for si in idxs:
                if ctx.time_left() < 8:
                    break
                fc = dict(case)
                fc["kind"] = "fault"
                fc["fault"] = [save_index, si]
                r = eval_case(ctx, fc)
                ctx.case(("f", case["net"]["start"], case["net"]["seed"], save_index, si), nontrivial=r == 2,
                         sample={"fault": {"save_index": save_index, "statement": si, "of": nst}} if si == idxs[0] and i % 12 == 0 else None)
                ctx.count("fault_points")


def replay(ctx, w):
    eval_case(ctx, w)
