"""C11 - ground facilities stay fixed at their configured geodetic location.

Monitors
  direct      postcondition on the real ``Terrestrial.propagate`` (built the way ``dynamicsFactory`` builds it)
  agent       per-step check of real ``SensingAgent`` objects (``eci_state`` / ``lla_state``) inside real Scenario runs
  db          the ground agents' ``truth_ephemerides`` rows of those runs
Oracle: the configured (lat, lon, alt) placed on the reference ellipsoid by refs/geomref; the
reported inertial state is converted to Earth-fixed at the *true* epoch, which the harness knows as
an exact ``datetime`` (start + k*step), using the repository's ECI->ECEF rotation (validated by C04).
"""

from __future__ import annotations

import math
import sqlite3
from datetime import datetime, timedelta

import numpy as np

from ..refs import geomref as g

LEVEL = "exploration"
RULE = ("direct cases = (site, start instant at one-second granularity incl. every second-of-minute / near midnight / year end, elapsed time up to 3 days); "
        "scenario cases = truth-only Scenario runs with 1-3 ground sensors at random sites incl. poles, start instants with non-zero seconds, steps 2..3600 s. "
        "Non-trivial = start instant whose second-of-minute != 0 (whole-minute starts are what the repository's scenarios use); distinct = distinct (site, start, elapsed)")
ASSUME = ["ECI->ECEF rotation of the repository at an exact datetime is trusted here (it is the subject of C04)", "reference ellipsoid constants shared with the repository"]
SHARDS = {"quick": 4, "thorough": 16}
BUDGET_S = {"quick": 90, "thorough": 1200}
DECIDING = ["direct_position", "direct_velocity", "config_reuse", "agent_position", "agent_lla", "db_position"]
MANIFEST = {
    "technique": "runtime monitoring: postcondition on Terrestrial.propagate and per-step/DB checks of ground agents in real Scenario runs against the ellipsoid definition",
    "level_text": "held on every executed (site, start instant, step, elapsed time): reported inertial state converts back to the configured Earth-fixed point within 1 m and its Earth-fixed velocity vanishes",
    "level_note": "sampled sites/instants; repository's ECI->ECEF rotation trusted (C04)",
}
TOL_KM = 1e-3  # one metre, as the property states
TOL_V = 1e-6  # km/s: Earth-fixed velocity of a fixed site


def _site(rng):
    r = rng.random()
    if r < 0.08:
        lat = rng.choice([90.0, -90.0, 89.9999, -89.9999])
    elif r < 0.16:
        lat = rng.choice([0.0, 1e-9, -1e-9])
    else:
        lat = math.degrees(math.asin(rng.uniform(-1, 1)))
    lon = rng.choice([rng.uniform(-180, 180), rng.uniform(-180, 180), 180.0, -180.0, 0.0, 179.999999, rng.uniform(180.0, 360.0)])  # last: east longitude in the 0..360 convention
    alt = rng.choice([0.0, rng.uniform(0, 5.0), rng.uniform(-0.3, 0.0)])
    return lat, lon, alt


def _start(rng):
    t = _start_whole(rng)
    if rng.random() < 0.15:
        t = t.replace(microsecond=rng.choice([500000, 250000, 750000, 123456, 999000]))  # "any start instant": also between two seconds
    return t


def _start_whole(rng):
    y = rng.choice([2014, 2015, 2016, 2018, 2019, 2020, 2021, 2022])
    r = rng.random()
    if r < 0.15:
        return datetime(rng.choice([2015, 2016, 2019, 2020]), 12, rng.choice([30, 31]), 23, rng.randrange(50, 60), rng.randrange(60))
    if r < 0.3:
        return datetime(y, rng.randrange(1, 10), rng.randrange(1, 28), 23, 59, rng.randrange(60))
    return datetime(y, rng.randrange(1, 10), rng.randrange(1, 28), rng.randrange(24), rng.randrange(60), rng.randrange(60) if rng.random() < 0.9 else 0)


def _check_state(ctx, x_eci, when: datetime, site, wit, mon_pos, mon_vel, key_prefix):
    from resonaate.physics.transforms.methods import eci2ecef

    lat, lon, alt = site
    want = g.ellipsoid_point(math.radians(lat), math.radians(lon), alt)
    xe = eci2ecef(np.asarray(x_eci, dtype=float), when)
    err = float(np.linalg.norm(xe[:3] - want))
    tag = "nonzero-second" if when.second != 0 or wit.get("start_second", 0) != 0 else "whole-minute"
    ctx.check(err <= TOL_KM, f"{key_prefix}-displaced", f"ground site ({lat:.4f},{lon:.4f},{alt:.3f}) is {err * 1000:.2f} m away from its configured Earth-fixed position at {when.isoformat()} [{tag}]", wit, mon=mon_pos)
    if mon_vel:
        ve = float(np.linalg.norm(xe[3:]))
        ctx.check(ve <= TOL_V, f"{key_prefix}-velocity", f"ground site has Earth-fixed velocity {ve:.3e} km/s at {when.isoformat()}", wit, mon=mon_vel)
        rperp = math.hypot(xe[0], xe[1])
        vin = float(np.linalg.norm(x_eci[3:]))
        ctx.check(abs(vin - g.OMEGA * rperp) <= 2e-6 + 1e-6 * vin, f"{key_prefix}-inertial-speed", f"inertial speed {vin:.6f} km/s != Earth-rotation speed {g.OMEGA * rperp:.6f} km/s", wit, mon=mon_vel)


def direct_case(ctx, site, start: datetime, elapsed_list):
    from resonaate.dynamics.terrestrial import Terrestrial
    from resonaate.physics.time.stardate import ScenarioTime, datetimeToJulianDate
    from resonaate.physics.transforms.methods import eci2ecef
    from resonaate.scenario.config.state_config import LLAStateConfig

    wit = {"kind": "direct", "site": list(site), "start": start.isoformat(), "elapsed": list(elapsed_list), "start_second": start.second}
    # the construction used by dynamicsFactory for a ground facility
    cfg = LLAStateConfig(latitude=site[0], longitude=site[1], altitude=site[2])
    x0 = cfg.toECI(start)
    dyn = Terrestrial(datetimeToJulianDate(start), eci2ecef(x0, start))
    _check_state(ctx, x0, start, site, wit, "direct_position", "direct_velocity", "config")
    prev = 0.0
    state = x0
    for el in elapsed_list:
        state = dyn.propagate(ScenarioTime(prev), ScenarioTime(el), state)
        _check_state(ctx, state, start + timedelta(seconds=el), site, wit, "direct_position", "direct_velocity", "terrestrial")
        prev = el
    # the same config object moved to another location (a site template swept over locations), and a deep copy of a used
    # config moved: the configured location is what the object holds when it is converted
    site2 = (-site[0] * 0.5 + 3.0, ((site[1] + 200.0) % 360.0) - 180.0, site[2] * 0.5 + 0.1)
    wit2 = dict(wit, kind="direct-reuse", site2=list(site2))
    cfg.latitude, cfg.longitude, cfg.altitude = site2
    _check_state(ctx, cfg.toECI(start), start, site2, wit2, "config_reuse", None, "config-reassigned")
    cp = cfg.model_copy(deep=True)
    cp.latitude, cp.longitude, cp.altitude = site
    _check_state(ctx, cp.toECI(start), start, site, wit2, "config_reuse", None, "config-copied")


def scenario_case(ctx, sites, start: datetime, step: int, nsteps: int, late=None, out_mult=1):
    """``late`` = (step index after which it is added, site): a ground facility added to the running scenario through the
    public ``Scenario.addSensor`` API."""
    from .. import scenario_kit as sk

    sk.init()
    r, v = sk.circ_state(7000.0, 51.6, 30.0, 40.0)
    tg = [sk.target_cfg(10001, r, v)]
    sn = [sk.ground_sensor_cfg(20001 + i, s[0], s[1], s[2], kind=["adv_radar", "optical", "radar"][i % 3]) for i, s in enumerate(sites)]
    cfg = sk.scenario_cfg(start, start + timedelta(seconds=(nsteps + 1) * step), step, [sk.engine_cfg(1, tg, sn)], truth_only=True, output_step=step * out_mult)
    wit = {"kind": "scenario", "out_mult": out_mult, "sites": [list(s) for s in sites], "start": start.isoformat(), "step": step, "nsteps": nsteps, "start_second": start.second,
           "late": [late[0], list(late[1])] if late else None}
    sites = list(sites)
    b = sk.build(cfg)
    try:
        app = b.app
        for k in range(0, nsteps + 1):
            if k:
                app.stepForward()
                app.saveDatabaseOutput()
            if late and k == late[0]:
                sid = 20001 + len(sites)
                sites.append(tuple(late[1]))
                from resonaate.data.agent import AgentModel

                app.database.insertData(AgentModel(unique_id=sid, name=f"S{sid}"))
                running = app.scenario_config.engines[0].sensors[0]
                if (late[0] + len(sites)) % 2 == 0:
                    app.addSensor(sk.ground_sensor_cfg(sid, late[1][0], late[1][1], late[1][2], kind="adv_radar"), 1)
                else:
                    # the config object of a sensor that is already running, cloned and moved
                    clone = running.model_copy(deep=True, update={"id": sid, "name": f"S{sid}"})
                    clone.state.latitude, clone.state.longitude, clone.state.altitude = late[1]
                    app.addSensor(clone, 1)
                    ctx.count("late_sites_added_from_cloned_config")
                ctx.count("late_sites_added")
            when = start + timedelta(seconds=k * step)
            for i, s in enumerate(sites):
                ag = app.sensor_agents[20001 + i]
                _check_state(ctx, ag.eci_state, when, s, wit, "agent_position", None, "agent")
                lla = ag.lla_state
                p = g.ellipsoid_point(float(lla[0]), float(lla[1]), float(lla[2]))
                want = g.ellipsoid_point(math.radians(s[0]), math.radians(s[1]), s[2])
                ctx.check(float(np.linalg.norm(p - want)) <= TOL_KM, "agent-lla-displaced", f"reported lat/lon/alt of sensor {20001 + i} at step {k} is {np.linalg.norm(p - want) * 1000:.2f} m from the configured site", wit, mon="agent_lla")
        con = sqlite3.connect(b.db_path)
        rows = con.execute("select e.timestampISO, t.agent_id, t.pos_x_km, t.pos_y_km, t.pos_z_km, t.vel_x_km_p_sec, t.vel_y_km_p_sec, t.vel_z_km_p_sec from truth_ephemerides t join epochs e on e.julian_date = t.julian_date where t.agent_id >= 20001").fetchall()
        con.close()
        for ts, aid, *st in rows:
            _check_state(ctx, np.array(st, dtype=float), datetime.fromisoformat(ts), sites[aid - 20001], wit, "db_position", None, "db-row")
    finally:
        sk.teardown(b)


def run(ctx):
    from .. import scenario_kit as sk

    sk.init()
    rng = ctx.pyrng("c11")
    n = ctx.scale(4000, 400_000)
    for i in range(n):
        if ctx.time_left() < 0.4 * BUDGET_S[ctx.tier]:
            break
        site, start = _site(rng), _start(rng)
        el = sorted({rng.choice([2, 60, 100, 300, 3600]), rng.randrange(1, 86400), rng.randrange(86400, 3 * 86400)})
        direct_case(ctx, site, start, el)
        ctx.case(("d", site, start.isoformat(), tuple(el)), nontrivial=start.second != 0, sample={"site": site, "start": start.isoformat(), "elapsed_s": el} if i % 997 == 0 else None)
    m = ctx.scale(40, 2500)
    for i in range(m):
        if ctx.time_left() < 6:
            break
        sites = [_site(rng) for _ in range(rng.randrange(1, 4))]
        if rng.random() < 0.35:
            # two facilities sharing latitude and longitude at different heights (valley radar / summit telescope)
            sites.append((sites[0][0], sites[0][1], sites[0][2] + rng.choice([0.3, 1.0, 2.5])))
            ctx.count("scenarios_with_colocated_sites")
        start = _start(rng)
        step = rng.choice([2, 10, 60, 100, 300, 600, 3600])
        nsteps = rng.randrange(2, 9)
        late = (rng.randrange(0, nsteps), _site(rng)) if rng.random() < 0.5 else None
        if late and rng.random() < 0.3:
            late = (late[0], (sites[-1][0], sites[-1][1], sites[-1][2] + 1.2))  # joins at the latitude/longitude of a running site
        out_mult = rng.choice([1, 1, 2, 3])  # the run writes its output every m-th step; where a site is does not depend on that
        scenario_case(ctx, sites, start, step, nsteps, late, out_mult)
        ctx.count("scenario_runs")
        ctx.count("scenario_runs_output_step_above_physics_step", int(out_mult > 1))
        ctx.case(("s", tuple(sites), start.isoformat(), step, nsteps), nontrivial=start.second != 0, sample={"sites": sites, "start": start.isoformat(), "step": step, "steps": nsteps} if i % 10 == 0 else None)


def replay(ctx, w):
    from .. import scenario_kit as sk

    sk.init()
    if w["kind"] in ("direct", "direct-reuse"):
        direct_case(ctx, tuple(w["site"]), datetime.fromisoformat(w["start"]), w["elapsed"])
    else:
        scenario_case(ctx, [tuple(s) for s in w["sites"]], datetime.fromisoformat(w["start"]), w["step"], w["nsteps"],
                      (w["late"][0], tuple(w["late"][1])) if w.get("late") else None, w.get("out_mult", 1))
