"""C10 - truth trajectories depend only on dynamics and initial states.

Pairs of real Scenario runs that share dynamics settings and initial states but differ in
estimation / tasking / sensor / noise / output settings, in how the run is split into calls, in
job completion order, or in which *other* agents exist.  The truth state of every common agent
after every step is captured and compared bit for bit.
"""

from __future__ import annotations

import copy
import os
from datetime import datetime, timedelta

import numpy as np

from .. import netkit

LEVEL = "exploration"
RULE = ("case = (base network, variant) pair; variants: truth-only vs full estimation/tasking, UKF tuning, reward/decision policy, sensor set and "
        "sensor noise, random seed, output cadence, one call vs split calls, job completion order (reverse/random), other targets added/removed "
        "statically and by events; two-body and special-perturbation truth, station keeping on. Non-trivial = pair in which both runs executed >= 2 "
        "steps and share >= 1 agent; distinct = distinct (network, variant)")
ASSUME = ["ray stand-in replaces the executor (task purity); both runs of a pair execute in the same process with the same libraries",
          "only deterministic integrators are involved"]
SHARDS = {"quick": 8, "thorough": 16}
BUDGET_S = {"quick": 100, "thorough": 1300}
DECIDING = ["truth_bitwise", "pairs_compared"]
MANIFEST = {
    "technique": "runtime monitoring: per-step capture of every agent's truth state in paired Scenario runs, offline bitwise comparison keyed by (agent, step)",
    "level_text": "held on every executed pair: truth states of all common agents identical bit for bit at every step",
    "level_note": "sampled pairs; executor replaced by the ray stand-in",
}
VARIANTS = ["truth_only", "ukf_params", "policy", "sensor_set", "sensor_noise", "seed", "output_cadence", "split_calls", "schedule_reverse",
            "schedule_random", "exec_order_reverse", "exec_order_random", "extra_target_static", "extra_target_static", "fewer_targets_static", "target_added_by_event", "target_removed_by_event", "id_reused_after_removal", "same_timed_burn_on_other_agent", "other_agent_maneuvers_id_zero", "two_engines", "filter_model", "maneuver_detection",
            "after_another_scenario", "after_another_scenario"]


def trajectory(cfg, nsteps, **kw):
    """Run in a forked child (pristine process state, like a fresh worker) and capture the truth trajectory."""
    from .. import scenario_kit as sk

    try:
        return sk.run_isolated(_trajectory, cfg, nsteps, timeout=900.0, **kw)
    except sk.IsolatedRunError as e:
        return {}, f"IsolatedRunError: {e}"


def _prelude(pre):
    """Another scenario run to its end in this interpreter first (the way a script or a Monte-Carlo driver runs several scenarios in
    one process): it carries the same agent ids on other orbits, other dynamics settings, another start date and step."""
    from .. import scenario_kit as sk
    from resonaate.physics.time.stardate import datetimeToJulianDate

    cfg, n = pre["cfg"], pre["nsteps"]
    b = sk.build(cfg)
    try:
        start = datetime.fromisoformat(cfg["time"]["start_timestamp"])
        b.app.propagateTo(datetimeToJulianDate(start + timedelta(seconds=n * cfg["time"]["physics_step_sec"])))
    finally:
        sk.teardown(b)


def _trajectory(cfg, nsteps, *, split=None, scheduler=None, base_seed=0, exec_order=None, prelude=None):
    """Run and capture {(agent_id, step): state bytes} for targets and sensors."""
    from .. import scenario_kit as sk
    from .. import shimray

    sk.init()
    if prelude:
        try:
            _prelude(prelude)
        except Exception as e:  # noqa: BLE001
            import traceback

            if "LinAlgError" in type(e).__name__ or "invalid numeric entries" in str(e):
                return {}, f"LinAlgError in the preceding scenario: {e}"
            return {}, f"preceding scenario raised {type(e).__name__}: {e} :: {traceback.format_exc()[-400:]}"
    b = sk.build(cfg, scheduler=scheduler, base_seed=base_seed, exec_order=exec_order)
    traj = {}
    err = None
    try:
        app = b.app
        orig = app.stepForward
        counter = {"k": 0}

        def stepped():
            orig()
            counter["k"] += 1
            for i, a in app.target_agents.items():
                traj[(int(i), counter["k"])] = np.asarray(a.eci_state, dtype=float).tobytes()
            for i, a in app.sensor_agents.items():
                traj[(int(i), counter["k"])] = np.asarray(a.eci_state, dtype=float).tobytes()

        app.stepForward = stepped
        step = cfg["time"]["physics_step_sec"]
        start = datetime.fromisoformat(cfg["time"]["start_timestamp"])
        from resonaate.physics.time.stardate import datetimeToJulianDate

        chunks = split or [nsteps]
        done = 0
        for c in chunks:
            done += c
            app.propagateTo(datetimeToJulianDate(start + timedelta(seconds=done * step)))
        # the stored trajectory: TruthEphemeris rows keyed by (agent, "db", timestamp)
        import sqlite3

        con = sqlite3.connect(b.db_path)
        for aid, iso, *y in con.execute("select t.agent_id, e.timestampISO, t.pos_x_km, t.pos_y_km, t.pos_z_km, t.vel_x_km_p_sec, t.vel_y_km_p_sec, t.vel_z_km_p_sec "
                                        "from truth_ephemerides t join epochs e on e.julian_date = t.julian_date").fetchall():
            traj[(int(aid), "db", iso)] = np.asarray(y, dtype=float).tobytes()
        con.close()
    except Exception as e:  # noqa: BLE001
        import traceback

        err = f"{type(e).__name__}: {e} :: {traceback.format_exc()[-400:]}"
    finally:
        sk.teardown(b)
    _ = shimray
    return traj, err


def make_pair(net, variant, rng):
    """Return (cfg_a, kwargs_a, cfg_b, kwargs_b) sharing dynamics settings and initial states."""
    from .. import scenario_kit as sk
    from .. import shimray

    model = net.get("truth_model", "two_body")
    over = dict(model=model, filter_model="two_body" if variant != "filter_model" else model)
    if model == "special_perturbations":
        over["geopotential"] = {"model": "egm96.txt", "degree": 4, "order": 4}
        over["perturbations"] = {"third_bodies": ["sun", "moon"], "solar_radiation_pressure": True, "general_relativity": True}
    if net.get("station_keeping"):
        over["station_keeping"] = True
    base = netkit.net_cfg(net, **over)
    if net.get("station_keeping"):
        for t in base["engines"][0]["targets"]:
            t["platform"]["station_keeping"] = {"routines": ["LEO"]}
    # shared augmentations (identical in both runs of the pair): a space-based sensor and a target added by an event,
    # i.e. agents that are built *after* the estimates / after construction
    if net.get("space_sensor"):
        rs, vs = sk.circ_state(7300.0, 63.0, 200.0, 10.0)
        base["engines"][0]["sensors"].append(sk.space_sensor_cfg(29500, rs, vs, kind="optical" if net["policy"] != "AllVisibleDecision" else "adv_radar"))
    if net.get("shared_addition"):
        r2, v2 = sk.circ_state(7900.0, 44.0, 80.0, 150.0)
        start0 = datetime.fromisoformat(net["start"])
        base["events"].append({"scope": "scenario_step", "scope_instance_id": 0, "start_time": sk.iso(start0 + timedelta(seconds=net["step"] * net["shared_addition"])),
                               "event_type": "target_addition", "tasking_engine_id": 1, "target_agent": sk.target_cfg(19500, r2, v2)})
    # per-agent physical properties differ (area-to-mass ratio enters the SRP term of the perturbed truth model)
    import random as _random

    prng = _random.Random(net["seed"] * 7 + 1)
    for t in base["engines"][0]["targets"]:
        t["platform"]["mass"] = prng.choice([50.0, 100.0, 500.0, 2000.0])
        t["platform"]["visual_cross_section"] = prng.choice([0.5, 5.0, 25.0, 60.0])
        t["platform"]["reflectivity"] = prng.choice([0.1, 0.21, 0.6])
    a, b = copy.deepcopy(base), copy.deepcopy(base)
    ka, kb = {}, {}
    n = net["nsteps"]
    if variant == "truth_only":
        b["propagation"]["truth_simulation_only"] = True
        if rng.random() < 0.5:
            # two factors at once: the truth-only run also writes its output less often (nothing may be skipped "because nobody looks")
            b["time"]["output_step_sec"] = net["step"] * rng.choice([2, 3])
        tl = a["engines"][0]["targets"]
        if len(tl) >= 2 and n >= 2:
            # both runs: two satellites manoeuvre inside the same physics step (planned, so the filters follow)
            start = datetime.fromisoformat(net["start"])
            k0 = rng.randrange(0, n - 1)
            for j_, tcfg_ in enumerate(tl[:2]):
                ev = {"scope": "agent_propagation", "scope_instance_id": tcfg_["id"], "start_time": sk.iso(start + timedelta(seconds=net["step"] * k0 + 1 + j_)), "event_type": "impulse",
                      "thrust_vector": [0.0, 0.002 * (j_ + 1), 0.0], "thrust_frame": "ntw", "planned": True}
                a["events"].append(copy.deepcopy(ev))
                b["events"].append(copy.deepcopy(ev))
    elif variant == "ukf_params":
        b["estimation"]["sequential_filter"].update({"alpha": 0.5, "beta": 0.0, "kappa": 1.0, "resample": True})
    elif variant == "policy":
        b["engines"][0]["decision"] = {"name": "MyopicNaiveGreedyDecision"} if net["policy"] != "MyopicNaiveGreedyDecision" else {"name": "MunkresDecision"}
        b["engines"][0]["reward"] = {"name": "SimpleSummationReward", "metrics": [{"name": "TimeSinceObservation"}]}
    elif variant == "sensor_set":
        extra = sk.ground_sensor_cfg(29001, net["base"][0] + 1.0, net["base"][1] - 1.0, kind="adv_radar")
        b["engines"][0]["sensors"].append(extra)
        if len(b["engines"][0]["sensors"]) > 2:
            b["engines"][0]["sensors"].pop(0)
    elif variant == "sensor_noise":
        for s in b["engines"][0]["sensors"]:
            s["sensor"]["covariance"] = (np.array(s["sensor"]["covariance"]) * 100.0).tolist()
    elif variant == "seed":
        b["noise"]["random_seed"] = net["seed"] + 17
        kb["base_seed"] = 991
    elif variant == "output_cadence":
        # multiples, non-multiples and output steps shorter than the physics step
        st = net["step"]
        b["time"]["output_step_sec"] = rng.choice([st * 2, st * 3, st + st // 2, max(2, st // 2), max(2, st - st // 3), st + 7])
        if rng.random() < 0.4:
            a["propagation"]["truth_simulation_only"] = b["propagation"]["truth_simulation_only"] = True  # both runs without estimation
    elif variant == "split_calls":
        if n >= 2:
            k = rng.randrange(1, n)
            kb["split"] = [k, n - k] if n < 4 or rng.random() < 0.5 else [k, 1, n - k - 1] if n - k - 1 > 0 else [k, n - k]
            # same output cadence in both runs, in two thirds of the pairs coarser than the physics step: the split then falls
            # between two output epochs
            m = rng.choice([1, 2, 3])
            a["time"]["output_step_sec"] = b["time"]["output_step_sec"] = net["step"] * m
            # both runs: the first satellite manoeuvres exactly on the step boundary at which run B is split (and once anywhere):
            # whatever is queued for a boundary has to survive the end of a call
            start = datetime.fromisoformat(net["start"])
            tid0 = a["engines"][0]["targets"][0]["id"]
            for off_ in (k * net["step"], rng.randrange(1, n * net["step"])):
                ev = {"scope": "agent_propagation", "scope_instance_id": tid0, "start_time": sk.iso(start + timedelta(seconds=off_)), "event_type": "impulse",
                      "thrust_vector": [0.0, rng.choice([-1, 1]) * 0.004, 0.001], "thrust_frame": rng.choice(["ntw", "eci"]), "planned": rng.random() < 0.5}
                a["events"].append(copy.deepcopy(ev))
                b["events"].append(copy.deepcopy(ev))
    elif variant == "schedule_reverse":
        kb["scheduler"] = shimray.make_sched_script(None, default="reverse")
    elif variant == "schedule_random":
        kb["scheduler"] = shimray.make_sched_script(None, default="random", seed=rng.randrange(1 << 30))
    elif variant == "exec_order_reverse":
        kb["exec_order"] = shimray.exec_reverse
    elif variant == "exec_order_random":
        kb["exec_order"] = shimray.make_exec_random(rng.randrange(1 << 30))
        kb["scheduler"] = shimray.make_sched_script(None, default="random", seed=rng.randrange(1 << 30))
    elif variant == "extra_target_static":
        r, v = sk.circ_state(8100.0, 77.0, 12.0, 222.0)
        # first or last in the engine's list: jobs run (and touch any process-wide state) in that order
        extra = sk.target_cfg(19001, r, v)
        extra["platform"].update({"mass": 10.0, "visual_cross_section": 40.0, "reflectivity": 0.9})
        b["engines"][0]["targets"].insert(rng.choice([0, len(b["engines"][0]["targets"])]), extra)
    elif variant == "fewer_targets_static":
        if len(b["engines"][0]["targets"]) > 1:
            b["engines"][0]["targets"].pop(rng.choice([0, 0, rng.randrange(len(b["engines"][0]["targets"]))]))
    elif variant == "target_added_by_event":
        r, v = sk.circ_state(8100.0, 77.0, 12.0, 222.0)
        start = datetime.fromisoformat(net["start"])
        b["events"].append({"scope": "scenario_step", "scope_instance_id": 0, "start_time": sk.iso(start + timedelta(seconds=net["step"] * rng.randrange(1, n + 1))),
                            "event_type": "target_addition", "tasking_engine_id": 1, "target_agent": sk.target_cfg(19001, r, v)})
    elif variant == "target_removed_by_event":
        if len(b["engines"][0]["targets"]) > 1:
            start = datetime.fromisoformat(net["start"])
            victim = b["engines"][0]["targets"][-1]["id"]
            b["events"].append({"scope": "scenario_step", "scope_instance_id": 0, "start_time": sk.iso(start + timedelta(seconds=net["step"] * rng.randrange(1, n + 1))),
                                "event_type": "agent_removal", "tasking_engine_id": 1, "agent_id": victim, "agent_type": "target"})
    elif variant == "after_another_scenario":
        # run B is the same scenario, but the interpreter has already run another one to its end: same agent ids on other orbits,
        # the other truth model (other geopotential / perturbation switches), station keeping on, another start date and step
        import random as _r2

        r2 = _r2.Random(rng.randrange(1 << 30))
        net2 = netkit.gen_network(r2, policies=("MunkresDecision", "MyopicNaiveGreedyDecision"), max_sensors=2, max_targets=max(1, len(net["targets"])))
        net2["init_pos_std"], net2["save_filter_steps"], net2["nsteps"] = 1e-3, False, r2.randrange(1, 4)
        while len(net2["targets"]) < len(net["targets"]):
            net2["targets"].append(dict(net2["targets"][-1], id=net2["targets"][-1]["id"] + 1, heading=r2.uniform(0, 360)))
        for t2, t1 in zip(net2["targets"], net["targets"]):
            t2["id"] = t1["id"]
        if r2.random() < 0.5:
            # the other scenario may also start at the same instant (anything remembered per epoch would then be found again)
            net2["start"], net2["step"] = net["start"], net["step"]
        over2 = dict(model="special_perturbations" if (model == "two_body" or r2.random() < 0.5) else "two_body", filter_model="two_body", truth_only=r2.random() < 0.5)
        if over2["model"] == "special_perturbations":
            over2["geopotential"] = {"model": r2.choice(["egm96.txt", "GGM03S.txt"]), "degree": r2.choice([2, 6]), "order": r2.choice([0, 2])}
            over2["perturbations"] = {"third_bodies": r2.choice([["sun"], ["moon"], ["sun", "moon", "jupiter"], []]), "solar_radiation_pressure": r2.random() < 0.5,
                                      "general_relativity": r2.random() < 0.5}
        over2["station_keeping"] = True
        pre = netkit.net_cfg(net2, **over2)
        for t in pre["engines"][0]["targets"]:
            t["platform"]["station_keeping"] = {"routines": ["LEO"]}
            t["platform"]["mass"] = r2.choice([20.0, 800.0])
            t["platform"]["visual_cross_section"] = r2.choice([1.0, 40.0])
        kb["prelude"] = {"cfg": pre, "nsteps": net2["nsteps"]}
    elif variant == "filter_model":
        b["estimation"]["sequential_filter"]["dynamics_model"] = "special_perturbations" if model == "two_body" else "two_body"
    elif variant == "maneuver_detection":
        b["estimation"]["sequential_filter"]["maneuver_detection"] = {"name": "sliding_nis", "threshold": 0.05, "window_size": 2}
    elif variant == "late_join_same_state":
        # NOT part of the decided workload (not in VARIANTS): "present from the start" versus "joined by an event" is not something the
        # property states, and a target_addition event stores only id, state and station keeping, so mass / cross-section /
        # reflectivity configured in the event fall back to defaults (seen as a 1e-10 km/s^2 SRP difference). Kept for exploration.
        # run A: satellite 19800 is there from the start. Run B: it joins in step j (target_addition event) with exactly the state it
        # has in run A at the beginning of that step; from then on its truth depends on the dynamics and that state only.
        rx, vx = sk.circ_state(7450.0, 58.0, 140.0, 75.0)
        xcfg = sk.target_cfg(19800, rx, vx)
        xcfg["platform"].update({"mass": 250.0, "visual_cross_section": 12.0, "reflectivity": 0.3})
        a["engines"][0]["targets"].append(xcfg)
        kb["_late_join"] = {"id": 19800, "j": rng.randrange(2, max(3, n + 1)), "cfg": copy.deepcopy(xcfg)}
    elif variant == "other_agent_maneuvers_id_zero":
        # both runs track a satellite whose id is 0; run B only: another satellite that performs an impulse and a finite burn
        r0, v0 = sk.circ_state(7700.0, 35.0, 210.0, 15.0)
        z = sk.target_cfg(0, r0, v0)
        a["engines"][0]["targets"].append(copy.deepcopy(z))
        b["engines"][0]["targets"].append(copy.deepcopy(z))
        r, v = sk.circ_state(8100.0, 77.0, 12.0, 222.0)
        b["engines"][0]["targets"].append(sk.target_cfg(19001, r, v))
        start = datetime.fromisoformat(net["start"])
        t1 = start + timedelta(seconds=net["step"] * rng.randrange(1, max(2, n - 1)) + rng.choice([0, 1]))
        b["events"].append({"scope": "agent_propagation", "scope_instance_id": 19001, "start_time": sk.iso(t1), "event_type": "impulse",
                            "thrust_vector": [0.0, 0.01, 0.0], "thrust_frame": "ntw", "planned": rng.random() < 0.5})
        b["events"].append({"scope": "agent_propagation", "scope_instance_id": 19001, "start_time": sk.iso(t1 + timedelta(seconds=1)), "end_time": sk.iso(t1 + timedelta(seconds=net["step"])),
                            "event_type": "finite_burn", "acc_vector": [0.0, 2e-5, 0.0], "thrust_frame": "ntw", "planned": False})
    elif variant == "two_engines":
        # run B partitions the same agents over two tasking engines
        e1 = b["engines"][0]
        if len(e1["sensors"]) >= 2 and len(e1["targets"]) >= 2:
            e2 = copy.deepcopy(e1)
            e2["unique_id"] = 2
            h = max(1, len(e1["targets"]) // 2)
            e1["targets"], e2["targets"] = e1["targets"][:h], e2["targets"][h:]
            e1["sensors"], e2["sensors"] = e1["sensors"][:1], e2["sensors"][1:]
            b["engines"].append(e2)
            for ev in b["events"]:
                if ev.get("tasking_engine_id") == 1 and ev.get("event_type") == "target_addition" and rng.random() < 0.5:
                    ev["tasking_engine_id"] = 2
    elif variant == "id_reused_after_removal":
        # both runs: target 19700 joins at step j. Run B only: another satellite carried the id 19700 from the start and was
        # removed at step i < j. From step j on the truth of 19700 depends only on the dynamics and the state it joined with.
        start = datetime.fromisoformat(net["start"])
        # the first satellite must have been propagated at least once before it is removed (step >= 2), and the newcomer must be
        # stepped at least once after it joined
        i_rm = rng.randrange(2, max(3, n - 1))
        j_add = rng.randrange(i_rm + 1, max(i_rm + 2, n))
        # (with station keeping the earlier carrier of the id flies higher: a LEO keeper that remembered *its* orbit would push the newcomer up)
        hi, lo = (8300.0, 63.0, 40.0, 100.0), (7600.0, 30.0, 300.0, 10.0)
        r1, v1 = sk.circ_state(*(lo if net.get("station_keeping") else hi))
        add = {"scope": "scenario_step", "scope_instance_id": 0, "start_time": sk.iso(start + timedelta(seconds=net["step"] * j_add)),
               "event_type": "target_addition", "tasking_engine_id": 1, "target_agent": sk.target_cfg(19700, r1, v1)}
        a["events"].append(copy.deepcopy(add))
        r0, v0 = sk.circ_state(*(hi if net.get("station_keeping") else lo))
        old_sat = sk.target_cfg(19700, r0, v0)
        if net.get("station_keeping"):
            # both carriers of the id keep station (each about its own orbit)
            old_sat["platform"]["station_keeping"] = {"routines": ["LEO"]}
            for ev_ in (add, a["events"][-1]):
                ev_["target_agent"]["platform"]["station_keeping"] = {"routines": ["LEO"]}
        b["engines"][0]["targets"].append(old_sat)
        b["events"].append({"scope": "scenario_step", "scope_instance_id": 0, "start_time": sk.iso(start + timedelta(seconds=net["step"] * i_rm)),
                            "event_type": "agent_removal", "tasking_engine_id": 1, "agent_id": 19700, "agent_type": "target"})
        b["events"].append(copy.deepcopy(add))
    elif variant == "same_timed_burn_on_other_agent":
        # both runs: the first target burns over [t1, t2]. Run B only: an extra satellite burns over exactly the same interval
        # (same event type); its events are stored before or after the first target's.
        start = datetime.fromisoformat(net["start"])
        k1 = rng.randrange(0, max(1, n - 1))
        t1 = start + timedelta(seconds=net["step"] * k1 + rng.choice([0, 1, net["step"] // 2]))
        t2 = t1 + timedelta(seconds=rng.choice([net["step"], net["step"] // 2 + 1, 2 * net["step"]]))
        kind = rng.choice(["finite_burn", "finite_maneuver", "impulse"])

        def burn(tid, vec, mag):
            if kind == "impulse":
                # two impulses of two satellites inside one physics step, at different instants
                t1i = t1 if t1 > start else t1 + timedelta(seconds=1)  # an impulse at the start instant itself lies outside the span
                tt = t1i if tid != 19001 else t1i + timedelta(seconds=rng.choice([1, 2, max(1, net["step"] // 3)]))
                return {"scope": "agent_propagation", "scope_instance_id": tid, "start_time": sk.iso(tt), "event_type": "impulse", "thrust_vector": [100 * c for c in vec],
                        "thrust_frame": "ntw", "planned": rng.random() < 0.5}
            ev = {"scope": "agent_propagation", "scope_instance_id": tid, "start_time": sk.iso(t1), "end_time": sk.iso(t2), "event_type": kind, "planned": rng.random() < 0.5}
            if kind == "finite_burn":
                ev.update({"acc_vector": vec, "thrust_frame": "ntw"})
            else:
                ev.update({"maneuver_mag": mag, "maneuver_type": "spiral"})
            return ev

        mine = burn(a["engines"][0]["targets"][0]["id"], [0.0, 2e-5, 0.0], 2e-5)
        a["events"].append(copy.deepcopy(mine))
        r, v = sk.circ_state(8100.0, 77.0, 12.0, 222.0)
        b["engines"][0]["targets"].append(sk.target_cfg(19001, r, v))
        other = burn(19001, [1e-5, 0.0, 1e-5], 1e-5)
        b["events"] += [other, copy.deepcopy(mine)] if rng.random() < 0.6 else [copy.deepcopy(mine), other]
    return a, ka, b, kb


def eval_pair(ctx, net, variant, rng_seed):
    import random

    rng = random.Random(rng_seed)
    a, ka, b, kb = make_pair(net, variant, rng)
    wit = {"kind": "c10", "net": net, "variant": variant, "rng_seed": rng_seed}
    ta, ea = trajectory(a, net["nsteps"], **ka)
    lj = kb.pop("_late_join", None)
    if lj and not ea:
        from .. import scenario_kit as sk

        key = (lj["id"], lj["j"] - 1)
        if key not in ta:
            ctx.count("late_join_pairs_without_reference_state")
            return False
        x = np.frombuffer(ta[key], dtype=float)
        spec = copy.deepcopy(lj["cfg"])
        spec["state"] = {"type": "eci", "position": [float(v) for v in x[:3]], "velocity": [float(v) for v in x[3:]]}
        start = datetime.fromisoformat(net["start"])
        b["events"].append({"scope": "scenario_step", "scope_instance_id": 0, "start_time": sk.iso(start + timedelta(seconds=net["step"] * (lj["j"] - 1) + max(1, net["step"] // 2))),
                            "event_type": "target_addition", "tasking_engine_id": 1, "target_agent": spec})
    tb, eb = trajectory(b, net["nsteps"], **kb)
    if ea or eb:
        if "LinAlgError" in (ea or eb) or "invalid numeric entries" in (ea or eb):
            if "preceding scenario" in (ea or eb):
                ctx.count("pairs_skipped_preceding_scenario_diverged")
            # a diverged filter (hostile estimate settings) aborts the run: no pair to compare; not this property's subject
            ctx.count("pairs_skipped_filter_divergence")
            return False
        ctx.check(False, "run-raised-" + variant, f"variant '{variant}' run raised: {ea or eb}", wit, mon="truth_bitwise")
        return False
    common = sorted(set(ta) & set(tb), key=lambda k_: (k_[0], len(k_), str(k_[1:])))
    if lj:
        ctx.count("late_join_states_compared", sum(1 for k in common if k[0] == lj["id"]))
    ctx.mon("pairs_compared")
    bad = [k for k in common if ta[k] != tb[k]]
    steps_a = max((k[1] for k in ta if len(k) == 2), default=0)
    ctx.check(not bad, f"truth-differs-{variant}", f"truth state differs between the paired runs ('{variant}', {net.get('truth_model', 'two_body')}) first at (agent, step) = {bad[0] if bad else None}; "
              f"{len(bad)}/{len(common)} (agent, step) samples differ", wit, mon="truth_bitwise")
    ctx.count("states_compared", len(common))
    # stored rows: same output cadence in both runs (every variant but 'output_cadence') => the same set of stored epochs for every
    # agent that lives through the same steps in both runs
    same_agents = ("two_engines", "truth_only", "ukf_params", "policy", "sensor_noise", "seed", "split_calls", "schedule_reverse", "schedule_random", "exec_order_reverse",
                   "exec_order_random", "filter_model", "maneuver_detection", "after_another_scenario")
    same_cadence = a["time"].get("output_step_sec") == b["time"].get("output_step_sec")
    if variant in same_agents and same_cadence and not bad:
        steps_of = lambda t, a_: {k[1] for k in t if k[0] == a_ and len(k) == 2}  # noqa: E731
        rows_of = lambda t, a_: {k[2] for k in t if k[0] == a_ and len(k) == 3}  # noqa: E731
        agents = {k[0] for k in ta} & {k[0] for k in tb}
        off = [(a_, sorted(rows_of(ta, a_) ^ rows_of(tb, a_))[:3]) for a_ in sorted(agents) if steps_of(ta, a_) == steps_of(tb, a_) and rows_of(ta, a_) != rows_of(tb, a_)]
        ctx.check(not off, f"stored-epochs-differ-{variant}", f"the stored truth rows of the paired runs ('{variant}') cover different epochs for agents that live through the same steps, e.g. {off[:2]}", wit, mon="truth_bitwise")
        ctx.count("stored_row_sets_compared", len(agents))
    return steps_a >= 2 and len(common) > 0


def real_ray_pair(ctx, net):
    """Same scenario on the stand-in (in process) and on the real Ray executor (worker processes)."""
    import json
    import os
    import subprocess
    import sys
    import tempfile

    from .. import core

    a, ka, _b, _kb = make_pair(net, "truth_only", __import__("random").Random(0))
    ta, ea = trajectory(a, net["nsteps"], **ka)
    if ea:
        return
    d = tempfile.mkdtemp(prefix="rvmon-rr-")
    cfgp, outp = os.path.join(d, "cfg.json"), os.path.join(d, "out.json")
    json.dump(a, open(cfgp, "w"))
    env = dict(os.environ)
    env.pop("RESONAATE_VERIF", None)
    env["PYTHONPATH"] = str(core.VERIF)
    try:
        r = subprocess.run([sys.executable, "-m", "rvmon.realray_run", cfgp, str(net["nsteps"]), outp], cwd=str(core.VERIF), env=env, capture_output=True, text=True, timeout=420)
    except subprocess.TimeoutExpired:
        ctx.count("real_ray_timeouts")
        return
    if r.returncode != 0 or not os.path.exists(outp):
        ctx.count("real_ray_failed_to_run")
        ctx.note("real_ray_last_error", (r.stderr or "")[-300:])
        return
    real = json.load(open(outp))["traj"]
    mine = {f"{k[0]}:{k[1]}": v.hex() for k, v in ta.items()}
    common = sorted(set(real) & set(mine))
    bad = [k for k in common if real[k] != mine[k]]
    ctx.mon("real_ray_pairs")
    # a disagreement here is a harness inconsistency (stand-in vs real executor), reported as inconclusive
    if bad or not common:
        ctx.inconclusive_because(f"ray stand-in and real Ray disagree on truth states at {bad[:3]} ({len(bad)}/{len(common)})")
    ctx.count("real_ray_states_compared", len(common))
    import shutil

    shutil.rmtree(d, ignore_errors=True)


def run(ctx):
    rng = ctx.pyrng("c10")
    n = ctx.scale(160, 8000)
    for i in range(n):
        if ctx.time_left() < 15:
            break
        net = netkit.gen_network(rng, policies=("MunkresDecision", "MyopicNaiveGreedyDecision", "RandomDecision"), max_sensors=2, max_targets=3)
        r = rng.random()
        net["truth_model"] = "special_perturbations" if r < 0.3 else "two_body"
        net["station_keeping"] = rng.random() < 0.25
        net["nsteps"] = rng.randrange(2, 6)
        net["save_filter_steps"] = False
        net["init_pos_std"] = 1e-3
        if i == 0 and ctx.shard == 0 and (not ctx.quick or os.environ.get("VERIF_REALRAY")):
            net2 = dict(net)
            net2["nsteps"] = 3
            real_ray_pair(ctx, net2)
        variant = VARIANTS[(i * ctx.nshards + ctx.shard) % len(VARIANTS)] if ctx.quick else rng.choice(VARIANTS)
        if i == 1:
            variant = "split_calls"      # forced once per shard: a manoeuvre on the boundary at which the run is split
        if os.environ.get("VERIF_C10_VARIANT"):  # development aid: drive one variant only
            variant = os.environ["VERIF_C10_VARIANT"]
        if variant in ("extra_target_static", "fewer_targets_static", "target_added_by_event", "target_removed_by_event", "exec_order_reverse", "exec_order_random") and rng.random() < 0.6:
            # agent-set and execution-order variants matter most where agents share more than the point-mass model
            net["truth_model"] = "special_perturbations"
        if variant in ("extra_target_static", "fewer_targets_static", "target_added_by_event", "target_removed_by_event", "exec_order_reverse", "exec_order_random",
                       "schedule_reverse", "schedule_random") and rng.random() < 0.35:
            # one step of the run spans 00:00 UTC (the day on which Earth-orientation data are looked up changes inside a job)
            d0 = datetime.fromisoformat(net["start"])
            mid = datetime(d0.year, d0.month, d0.day) + timedelta(days=1)
            net["start"] = (mid - timedelta(seconds=net["step"] * rng.randrange(0, max(1, net["nsteps"] - 1)) + rng.choice([net["step"] // 2, 1, net["step"] - 1]))).isoformat()
            net["truth_model"] = "special_perturbations"
            ctx.count("pairs_with_a_step_spanning_utc_midnight")
        if variant == "two_engines":
            for _ in range(20):
                if len(net["sensors"]) >= 2 and len(net["targets"]) >= 2:
                    break
                keep = {k_: net[k_] for k_ in ("truth_model", "station_keeping", "nsteps", "save_filter_steps", "init_pos_std")}
                net = netkit.gen_network(rng, policies=("MunkresDecision", "MyopicNaiveGreedyDecision", "RandomDecision"), max_sensors=3, max_targets=4)
                net.update(keep)
        if variant == "id_reused_after_removal" and rng.random() < 0.6:
            net["station_keeping"] = True
        if variant in ("id_reused_after_removal", "same_timed_burn_on_other_agent", "split_calls"):
            net["nsteps"] = max(net["nsteps"], 5 if variant == "id_reused_after_removal" else 4)
        if variant == "filter_model":
            # agents built after the estimates (spacecraft-hosted sensors, agents added by events) are the ones that
            # could inherit filter settings: make sure this variant always has some
            net["space_sensor"] = True
            net["shared_addition"] = rng.randrange(1, net["nsteps"] + 1)
        seed = rng.randrange(1 << 30)
        ok = eval_pair(ctx, net, variant, seed)
        ctx.count("variant_" + variant)
        ctx.case((net["start"], net["seed"], variant, net["truth_model"]), nontrivial=ok,
                 sample={"variant": variant, "truth_model": net["truth_model"], "station_keeping": net["station_keeping"], "targets": len(net["targets"]), "steps": net["nsteps"]} if i % 6 == 0 else None)


def replay(ctx, w):
    eval_pair(ctx, w["net"], w["variant"], w["rng_seed"])
