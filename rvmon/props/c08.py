"""C08 - tasking bookkeeping is exact and independent of the order parallel jobs finish.

Small interacting networks (rvmon/netkit.py) are run as real ``Scenario`` objects on the ray
stand-in.  Each case is executed once per *schedule* (completion order of every job batch, chosen
by the stand-in's scheduler; the real ``JobExecutor.join()`` merges results in that order).

Monitors
  one_record       every tasked (sensor, target) pair has exactly one record for its primary target
                   (observation XOR miss) among the records of that step - in the engine's lists
                   and in the rows written to the database
  pointing         after stepForward() a tasked sensor's boresight / last-tasked time equal what its
                   task-execution job returned
  order_indep      per-step digest (observations, misses, pointing, estimates, matrices, stored rows)
                   identical to the identity schedule's digest
"""

from __future__ import annotations

import itertools
import sqlite3

import numpy as np

from .. import netkit

LEVEL = "exploration"
RULE = ("case = generated network (1-4 ground sensors x 1-5 targets placed over the sites, decision policy, reward, FoV/slew/estimate-error "
        "options forcing misses, 2-4 steps) x schedule. Schedules: identity, reverse, seeded random, and for each of the five job batches "
        "every permutation of the first multi-job batch when it has <= 4 jobs. A case is non-trivial when at least one sensor was "
        "tasked; distinct = distinct (network, schedule) pair. coverage.distinct_schedules counts distinct completion-order scripts executed.")
ASSUME = ["ray stand-in: a remote job is a pure function of its pickled submission, executed at submission; only completion order varies (rvmon/shimray.py)",
          "measurement noise is seeded per job serial so noisy values are comparable across schedules"]
SHARDS = {"quick": 8, "thorough": 16}
BUDGET_S = {"quick": 100, "thorough": 1300}
DECIDING = ["one_record", "one_record_db", "pointing", "visibility_rows", "order_indep", "tasked_pairs"]
MANIFEST = {
    "technique": "runtime monitoring with schedule control: completion orders of each job batch enumerated/sampled through a deterministic ray stand-in; per-step digests compared across schedules; bookkeeping checked against the decision matrix",
    "level_text": "held on every executed (network, schedule): exactly one record per tasked pair, pointing state reflects the tasking, step products identical across all executed completion orders",
    "level_note": "executor replaced by the ray stand-in (task purity assumed); networks sampled, permutations exhaustive only for batches of <= 4 jobs",
}
BATCHES = ["asyncPropagate", "asyncPredict", "asyncCalculateReward", "asyncExecuteTasking", "asyncUpdateEstimate"]


class Rec:
    def __init__(self):
        self.collect = []  # (step, sensor_id, primary target, boresight bytes, time_last_tasked, n_obs, n_miss)
        self.step = 0


def _install(rec):
    from resonaate.sensors.sensor_base import Sensor

    orig = Sensor.collectObservations

    def collectObservations(self, estimate_eci, target_agent, background_agents):
        out = orig(self, estimate_eci, target_agent, background_agents)
        rec.collect.append((rec.step, int(self.host.simulation_id), int(target_agent.simulation_id), np.asarray(out[2], dtype=float).tobytes(), float(out[3]),
                            [(int(o.sensor_id), int(o.target_id)) for o in out[0]], [(int(m.sensor_id), int(m.target_id), str(m.reason)) for m in out[1]]))
        return out

    Sensor.collectObservations = collectObservations
    return [(Sensor, "collectObservations", orig)]


def _uninstall(undo):
    for cls, name, orig in undo:
        setattr(cls, name, orig)


def run_once(net, script=None, default="identity", sched_seed=0, exec_mode=None, prelude_seed=None, fail=None):
    """Run one (network, schedule) in a forked child (pristine process state, like fresh workers)."""
    from .. import scenario_kit as sk

    try:
        return sk.run_isolated(_run_once, net, script, default, sched_seed, exec_mode, prelude_seed, fail, timeout=600.0)
    except sk.IsolatedRunError as e:
        return {"digests": [], "facts": [], "batches": None, "error": ("run-raised-IsolatedRunError-harness", str(e)[:500])}


def _prelude(seed):
    """Another tasking scenario (same sensor and target ids, other sites, orbits, policy and start) run to its end in this interpreter first."""
    import random

    from .. import scenario_kit as sk

    r2 = random.Random(seed)
    net2 = netkit.gen_network(r2)
    net2["nsteps"] = 2
    b = sk.build(netkit.net_cfg(net2), base_seed=net2["seed"])
    try:
        for _ in range(net2["nsteps"]):
            b.app.stepForward()
            b.app.saveDatabaseOutput()
    except Exception:  # noqa: BLE001  (a diverged filter in the preceding scenario is of no interest here)
        pass
    finally:
        sk.teardown(b)


def _run_once(net, script=None, default="identity", sched_seed=0, exec_mode=None, prelude_seed=None, fail=None):
    """Run one (network, schedule); returns per-step digests, bookkeeping facts and the batches seen."""
    from .. import scenario_kit as sk
    from .. import shimray

    sk.init()
    if prelude_seed is not None:
        _prelude(prelude_seed)
    sched = shimray.make_sched_script(script, default=default, seed=sched_seed)
    cfg = netkit.net_cfg(net)
    exec_order = None if exec_mode is None else (shimray.exec_reverse if exec_mode == "reverse" else shimray.make_exec_random(sched_seed + 17))
    b = sk.build(cfg, scheduler=sched, base_seed=net["seed"], exec_order=exec_order)
    rec = Rec()
    undo = _install(rec)
    rec.reward_vis = {}

    def after_job(func_name, serial, ref):  # what each reward job of this step returned for its target
        if func_name == "asyncCalculateReward" and ref.error is None and ref.data is not None:
            try:
                res = shimray._load(ref.data, ref.bufs)  # noqa: SLF001
                # (a target tracked through two engines gets one reward job per engine: keep them all)
                rec.reward_vis.setdefault((rec.step, int(res.estimate_id)), []).append(np.array(res.visibility, dtype=bool).reshape(-1))
            except Exception:  # noqa: BLE001
                pass

    shimray.STATE.after_job = after_job
    if fail is not None:
        shimray.STATE.fail_jobs = {tuple(fail)}     # that job raises on its "worker"; ray.get surfaces it as a RayTaskError
    out = {"digests": [], "facts": [], "batches": None, "error": None}
    try:
        app = b.app
        for k in range(1, net["nsteps"] + 1):
            rec.step = k
            before = {int(i): (np.asarray(a.sensors.boresight, dtype=float).tobytes(), float(a.sensors.time_last_tasked)) for i, a in app.sensor_agents.items()}
            app.stepForward()
            d = netkit.step_digest(app)
            pairs, obs_now, miss_all = [], [], []
            jd = float(app.clock.julian_date_epoch)
            stale = []
            for eng in app.tasking_engines.values():
                vm = np.array(eng.visibility_matrix, dtype=bool)
                for row, tid in enumerate(eng.target_list):
                    got = [g_ for g_ in rec.reward_vis.get((k, int(tid)), []) if g_.shape == vm[row].shape]
                    if got and not any(np.array_equal(vm[row], g_) for g_ in got):
                        stale.append((int(eng.unique_id), int(tid), vm[row].astype(int).tolist(), [g_.astype(int).tolist() for g_ in got]))
                dec = np.array(eng.decision_matrix, dtype=bool)
                pairs += [(int(eng.sensor_list[j]), int(eng.target_list[i])) for i in range(dec.shape[0]) for j in range(dec.shape[1]) if dec[i, j]]
                obs_now += [(int(o.sensor_id), int(o.target_id)) for o in eng.observations]
                miss_all += [(int(m.sensor_id), int(m.target_id), float(m.julian_date)) for m in eng.missed_observations]
            after = {int(i): (np.asarray(a.sensors.boresight, dtype=float).tobytes(), float(a.sensors.time_last_tasked)) for i, a in app.sensor_agents.items()}
            # the output is written every `save_every` steps, as propagateTo() does for an output step that is a multiple of
            # the physics step: what the steps in between produced has to survive until then
            save_every = int(net.get("save_every", 1))
            if k % save_every == 0 or k == net["nsteps"]:
                app.saveDatabaseOutput()
            out["digests"].append(d)
            out["facts"].append({"stale_visibility": stale, "step": k, "jd": jd, "pairs": pairs, "obs_now": obs_now, "miss_all": miss_all, "db_obs": [], "db_miss": [],
                                 "before": before, "after": after, "time": float(app.clock.time),
                                 "collect": [c for c in rec.collect if c[0] == k]})
        con = sqlite3.connect(b.db_path)
        for d, f in zip(out["digests"], out["facts"]):
            jd = f["jd"]
            f["db_obs"] = con.execute("select sensor_id, target_id from observations where julian_date = ?", (jd,)).fetchall()
            f["db_miss"] = con.execute("select sensor_id, target_id, reason from missed_observations where julian_date = ?", (jd,)).fetchall()
            d["db.observations"] = sorted(f["db_obs"])
            d["db.missed"] = sorted(f["db_miss"])
            d["db.tasks"] = con.execute("select count(*) from tasks where julian_date = ?", (jd,)).fetchone()[0]
        con.close()
        out["batches"] = list(sched.batches)
    except Exception as e:  # noqa: BLE001
        import traceback

        tb = traceback.extract_tb(e.__traceback__)
        inner = [f for f in tb if "/resonaate/" in f.filename]
        where = f"{inner[-1].filename.split('/resonaate/')[-1]}:{inner[-1].name}" if inner else "harness"
        out["error"] = (f"run-raised-{type(e).__name__}-{where}", f"{type(e).__name__}: {e} :: {traceback.format_exc()[-500:]}")
    finally:
        _uninstall(undo)
        sk.teardown(b)
    return out


def check_bookkeeping(ctx, net, res, sched_desc):
    wit = {"kind": "c08", "net": net, "schedule": sched_desc}
    any_tasked = False
    for f in res["facts"]:
        pairs = f["pairs"]
        sensors_tasked = [s for s, _ in pairs]
        multi = len(set(sensors_tasked)) != len(sensors_tasked)
        tagm = "-multi-job-sensor" if multi else ""
        if pairs:
            any_tasked = True
            ctx.mon("tasked_pairs", len(pairs))
        jd = f["jd"]
        miss_now = [(s, t) for s, t, j in f["miss_all"] if j == jd]
        for (s, t) in pairs:
            n_obs = f["obs_now"].count((s, t))
            n_miss = miss_now.count((s, t))
            ok = (n_obs + n_miss) == 1
            key = "one-record" + tagm + ("-duplicate-miss" if n_miss > 1 else "-duplicate-observation" if n_obs > 1 else "-both" if n_obs and n_miss else "-none" if n_obs + n_miss == 0 else "")
            ctx.check(ok, key, f"step {f['step']}: tasked pair sensor {s} -> target {t} has {n_obs} observation(s) and {n_miss} miss(es) in the engine's records ({net['policy']})", wit, mon="one_record")
            n_obs_db = sum(1 for r in f["db_obs"] if (r[0], r[1]) == (s, t))
            n_miss_db = sum(1 for r in f["db_miss"] if (r[0], r[1]) == (s, t))
            okd = (n_obs_db + n_miss_db) == 1
            keyd = "one-record-db" + tagm + ("-duplicate-miss" if n_miss_db > 1 else "-duplicate-observation" if n_obs_db > 1 else "-both" if n_obs_db and n_miss_db else "-none" if n_obs_db + n_miss_db == 0 else "")
            ctx.check(okd, keyd, f"step {f['step']}: tasked pair sensor {s} -> target {t} has {n_obs_db} observation row(s) and {n_miss_db} missed-observation row(s) stored for this epoch ({net['policy']})", wit, mon="one_record_db")
        ctx.check(not f.get("stale_visibility"), "visibility-row-not-what-the-reward-job-returned", f"step {f['step']}: the engine's visibility row differs from what this step's reward job returned "
                  f"for (engine, target, matrix row, job result) {f.get('stale_visibility', [])[:2]}", wit, mon="visibility_rows")
        # stale misses of earlier epochs must not be presented as this step's
        # (engine.missed_observations is documented as 'for the previous timestep')
        stale = [m for m in f["miss_all"] if m[2] != jd]
        ctx.check(not stale, "missed-list-not-reset", f"step {f['step']}: engine.missed_observations still holds {len(stale)} record(s) of earlier epochs", wit, mon="one_record")
        # pointing: what the sensor's own task job returned is what the agent carries after the step
        for s in set(sensors_tasked):
            returned = [(c[3], c[4]) for c in f["collect"] if c[1] == s]
            if not returned:
                ctx.check(False, "tasked-sensor-never-executed", f"step {f['step']}: sensor {s} tasked but no task-execution job ran it", wit, mon="pointing")
                continue
            got = f["after"][s]
            ok = got in returned
            ctx.check(ok, "pointing-not-updated" + tagm, f"step {f['step']}: sensor {s} was tasked ({len(returned)} job(s)); its boresight/last-tasked time after the step "
                      f"(t_last={got[1]}) match none of what its job(s) returned (t_last={[r[1] for r in returned]}); before the step t_last={f['before'][s][1]}", wit, mon="pointing")
        for s, v in f["after"].items():
            if s not in sensors_tasked:
                ctx.check(v == f["before"][s], "untasked-sensor-moved", f"step {f['step']}: sensor {s} was not tasked but its pointing state changed", wit, mon="pointing")
    return any_tasked


def schedules_for(net, base_batches, rng, quick):
    """Scripts to run besides identity: list of (description, script dict, default, seed)."""
    out = [("reverse", None, "reverse", 0), ("random-a", None, "random", rng.randrange(1 << 30)),
           ("exec-reverse", None, "identity", 0, "reverse"), ("exec-random+random", None, "random", rng.randrange(1 << 30), "random"),
           # the same run after another scenario has been run to its end in the same interpreter (bookkeeping checked, nothing compared)
           ("after-another-scenario", None, "identity", 0, None, rng.randrange(1 << 30))]
    # a fault in one worker job of the step: the step may fail loudly, but if it completes its records must still be exact
    n_task_jobs = sum(n for fn, n, _p in base_batches if fn == "asyncExecuteTasking")
    if n_task_jobs:
        out.append(("fault-in-task-job", None, "identity", 0, None, None, ("asyncExecuteTasking", rng.randrange(1, n_task_jobs + 1))))
    n_upd = sum(n for fn, n, _p in base_batches if fn == "asyncUpdateEstimate")
    if n_upd and not quick:
        out.append(("fault-in-update-job", None, "identity", 0, None, None, ("asyncUpdateEstimate", rng.randrange(1, n_upd + 1))))
    if not quick:
        out.append(("random-b", None, "random", rng.randrange(1 << 30)))
    # index batches per function
    seen = {}
    per_func_first_multi = {}
    for fn, n, _plan in base_batches:
        idx = seen.get(fn, 0)
        seen[fn] = idx + 1
        if n >= 2 and fn not in per_func_first_multi:
            per_func_first_multi[fn] = (idx, n)
    for fn in BATCHES:
        if fn not in per_func_first_multi:
            continue
        idx, n = per_func_first_multi[fn]
        if n <= 4:
            perms = [p for p in itertools.permutations(range(n)) if p != tuple(range(n))]
            if quick and len(perms) > 5:
                perms = rng.sample(perms, 5)
        else:
            perms = []
            for _ in range(3 if quick else 8):
                lst = list(range(n))
                rng.shuffle(lst)
                perms.append(tuple(lst))
        for p in perms:
            out.append((f"{fn}[{idx}]={p}", {(fn, idx): p}, "identity", 0))
            if not quick:
                out.append((f"{fn}[*]={p}", {fn: p}, "identity", 0))
    return out


def eval_net(ctx, net, rng):
    base = run_once(net)
    if base["error"] and ("LinAlgError" in base["error"][0] or "invalid numeric entries" in base["error"][1]):
        # a diverged filter (hostile estimate settings) aborts the run: nothing to compare; not this property's subject
        ctx.count("networks_skipped_filter_divergence")
        return 0, False
    if base["error"]:
        ctx.check(False, base["error"][0], f"identity schedule raised {base['error'][1]}", {"kind": "c08", "net": net, "schedule": "identity"}, mon="order_indep")
        return 0, False
    tasked = check_bookkeeping(ctx, net, base, "identity")
    nsched = 1
    ctx.add_to_set("schedule_scripts", "identity")
    for entry in schedules_for(net, base["batches"], rng, ctx.quick):
        desc, script, default, seed = entry[:4]
        exec_mode = entry[4] if len(entry) > 4 else None
        prelude_seed = entry[5] if len(entry) > 5 else None
        fail = entry[6] if len(entry) > 6 else None
        if ctx.time_left() < 5:
            break
        res = run_once(net, script, default, seed, exec_mode, prelude_seed, fail)
        if fail is not None and res["error"] and "injected worker fault" in res["error"][1]:
            ctx.count("fault_runs_that_failed_loudly")      # the documented behaviour: the error surfaces, nothing to audit
            continue
        sd = {"desc": desc, "script": {f"{k[0]}#{k[1]}" if isinstance(k, tuple) else k: list(v) for k, v in (script or {}).items()}, "default": default, "seed": seed, "exec_mode": exec_mode,
              "prelude_seed": prelude_seed, "fail": list(fail) if fail else None}
        wit = {"kind": "c08", "net": net, "schedule": sd}
        if res["error"] and ("LinAlgError" in res["error"][0] or "invalid numeric entries" in res["error"][1]):
            ctx.count("schedules_skipped_filter_divergence")
            continue
        if res["error"]:
            ctx.check(False, res["error"][0], f"schedule {desc} raised {res['error'][1]}", wit, mon="order_indep")
            continue
        nsched += 1
        ctx.add_to_set("schedule_scripts", desc.split("=")[0] + "=" + str(len(desc)))
        check_bookkeeping(ctx, net, res, sd)
        if fail is not None:
            ctx.count("fault_runs_that_completed")          # the fault was swallowed: only the bookkeeping above is checked
            continue
        if prelude_seed is not None:
            # the property speaks about one run's records and about completion orders; what an earlier scenario may change in the
            # numbers is not compared here (truth: C10) - only this run's own bookkeeping is checked
            ctx.count("runs_after_another_scenario")
            continue
        multi = any(len(set(s for s, _ in f["pairs"])) != len(f["pairs"]) for f in base["facts"])
        diff, after_rounding = netkit.compare_runs(base["digests"], res["digests"])
        if diff is not None and after_rounding:
            ctx.count("schedules_trivial_after_rounding_divergence")
            continue
        if diff is not None and diff[1].endswith(".decision") and netkit.decision_near_tie(base["digests"][diff[0] - 1], res["digests"][diff[0] - 1], diff[1]):
            # the two decisions are (nearly) equally good under the identity run's rewards: a tie broken by rounding-level
            # differences of estimate-derived rewards; everything downstream legitimately differs. Trivial, not agreement.
            ctx.count("schedules_trivial_decision_tie")
            continue
        comp_key = diff[1].split(".")[-1] if diff else ""
        ctx.check(diff is None, f"order-dependence-{comp_key}" + ("-multi-job-sensor" if multi else ""),
                  f"completion order '{desc}' changes step {diff[0] if diff else ''} component '{diff[1] if diff else ''}' relative to submission order ({net['policy']}, {len(net['sensors'])} sensors x {len(net['targets'])} targets)",
                  wit, mon="order_indep")
    return nsched, tasked


def run(ctx):
    rng = ctx.pyrng("c08")
    n = ctx.scale(40, 1500)
    for i in range(n):
        if ctx.time_left() < 10:
            break
        net = netkit.gen_network(rng)
        if i == 0 and ctx.shard < 4:
            # one network per shard that is sure to put several sensors on one target and to produce misses (the situations the
            # bookkeeping has to get right do not depend on the luck of the draw)
            for _ in range(30):
                if len(net["sensors"]) >= 3 and len(net["targets"]) >= 2:
                    break
                net = netkit.gen_network(rng)
            net["policy"] = ["MyopicNaiveGreedyDecision", "AllVisibleDecision", "RandomDecision", "MyopicNaiveGreedyDecision"][ctx.shard]
            if ctx.shard == 3:
                net["split_engines"], net["shared_target"] = True, True   # two engines observing one shared target in the same step
            for sdesc in net["sensors"]:
                sdesc["fov"] = "narrow"
                sdesc["slew"] = 180.0
                if net["policy"] == "AllVisibleDecision":
                    sdesc["kind"] = "adv_radar"
            net["init_pos_std"] = [10.0, 10.0, 30.0, 5.0][ctx.shard]
            net["nsteps"] = max(net["nsteps"], 3)
            ctx.count("forced_multi_sensor_miss_nets")
        if i == 0 and ctx.shard == 4:
            # forced once per run: one sensor re-tasked step after step on a geostationary target (its pointing hardly changes)
            net["sensors"] = net["sensors"][:1]
            net["sensors"][0].update({"kind": "adv_radar", "fov": "wide", "slew": 180.0})
            net["targets"] = net["targets"][:1]
            net["targets"][0].update({"radius": 42164.0, "geostationary": True, "off": [0.5, 0.5]})
            net.update({"policy": "MunkresDecision", "nsteps": 4, "init_pos_std": 1e-3, "background": False})
            net.pop("split_engines", None)
            ctx.count("forced_geostationary_retasking_nets")
        elif rng.random() < 0.3:
            # a geostationary target: a sensor tasked on it step after step keeps (almost) the same pointing
            net["targets"][0]["radius"] = 42164.0
            net["targets"][0]["geostationary"] = True
            net["nsteps"] = max(net["nsteps"], 3)
            ctx.count("nets_with_a_geostationary_target")
        net["save_every"] = rng.choice([1, 1, 2, 3])
        netkit.maybe_sub_second_start(net, rng)
        if len(net["sensors"]) >= 2 and len(net["targets"]) >= 2 and rng.random() < 0.3:
            net["split_engines"] = True
            net["shared_target"] = rng.random() < 0.6
            ctx.count("nets_with_two_engines")
            if rng.random() < 0.6:
                # both engines should produce misses in the same step: narrow fields of view around a poor initial estimate
                for sdesc in net["sensors"]:
                    sdesc["fov"] = "narrow"
                net["init_pos_std"] = rng.choice([5.0, 30.0])
        if net["save_every"] > 1:
            net["nsteps"] = max(net["nsteps"], 3)
            ctx.count("nets_with_output_every_n_steps")
        nsched, tasked = eval_net(ctx, net, rng)
        ctx.count("schedules_executed", nsched)
        ctx.count("policy_" + net["policy"])
        ctx.case((net["start"], net["policy"], len(net["sensors"]), len(net["targets"]), net["seed"]), nontrivial=tasked,
                 sample={"policy": net["policy"], "sensors": len(net["sensors"]), "targets": len(net["targets"]), "steps": net["nsteps"], "schedules": nsched} if i % 5 == 0 else None)


def replay(ctx, w):
    import random

    net = w["net"]
    sd = w.get("schedule")
    if sd in (None, "identity") or not isinstance(sd, dict):
        eval_net(ctx, net, random.Random(0))
        return
    script = {}
    for k, v in sd.get("script", {}).items():
        if "#" in k:
            fn, idx = k.split("#")
            script[(fn, int(idx))] = tuple(v)
        else:
            script[k] = tuple(v)
    base = run_once(net)
    check_bookkeeping(ctx, net, base, "identity")
    res = run_once(net, script or None, sd.get("default", "identity"), sd.get("seed", 0), sd.get("exec_mode"), sd.get("prelude_seed"), tuple(sd["fail"]) if sd.get("fail") else None)
    if sd.get("fail") and res["error"] and "injected worker fault" in res["error"][1]:
        ctx.check(True, "order-dependence", "", w, mon="order_indep")
        return
    if (sd.get("prelude_seed") is not None or sd.get("fail")) and not res["error"]:
        check_bookkeeping(ctx, net, res, sd)
        ctx.check(True, "order-dependence", "", w, mon="order_indep")
        return
    if res["error"] or base["error"]:
        ctx.check(False, (res["error"] or base["error"])[0], str(res["error"] or base["error"]), w, mon="order_indep")
        return
    check_bookkeeping(ctx, net, res, sd)
    diff, after_rounding = netkit.compare_runs(base["digests"], res["digests"])
    if diff is not None and not after_rounding:
        ctx.check(False, f"order-dependence-{diff[1].split('.')[-1]}", f"step {diff[0]} component {diff[1]} differs", w, mon="order_indep")
        return
    if diff is not None:
        ctx.count("schedules_trivial_after_rounding_divergence")
    ctx.check(True, "order-dependence", "", w, mon="order_indep")
