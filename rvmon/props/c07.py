"""C07 - tasking decisions are feasible and optimal in the sense each policy documents.

Documented sense (decision_base.Decision.calculate): ``decision = policy._calculate(reward, visibility) AND
visibility`` - the policy-specific selection is made on the reward matrix as given, the visibility mask is
applied afterwards.  The oracle therefore accepts a decision D of the assignment (Munkres) policy iff there
EXISTS a maximum-total-reward complete one-to-one assignment A* of the reward matrix with ``D == A* AND V``
(any optimum under ties); of the greedy policy iff every sensor column of D is ``onehot(t) AND V`` for SOME
arg-max t of that column; of the all-visible policy iff ``D == V``; of the random policy iff D is inside V,
has at most one target per sensor and leaves no sensor idle that sees a target ("applies one target per
sensor").  When the reward matrix is zero on invisible pairs (which is what the engine produces: metrics of
invisible pairs stay 0) "optimal assignment of the masked reward matrix" and "optimal assignment, then mask"
are the same statement, and the monitor ``munkres_masked_value`` checks the former literally.

Monitors
  wellformed              decision is a boolean ndarray of the reward matrix' shape, no exception
  visible_only            D AND NOT V is empty                                   (every policy)
  sensor_at_most_one      <= 1 target per sensor column                          (Munkres, greedy, random)
  target_at_most_one      <= 1 sensor per target row                             (Munkres)
  munkres_optimal         exists optimal complete A*: D == A* & V  (brute force <= 800 assignments, else own Hungarian)
  munkres_masked_value    R zero where invisible  =>  sum R[D] == optimum of the masked matrix
  greedy_argmax           every column: onehot(some arg-max) & V
  allvisible_exact        D == V
  random_valid            random decision: every sensor that sees something is tasked exactly once, inside V
  random_seeded           same seed => same sequence of decisions
  relabel                 permuting targets/sensors permutes the decision when it is unique, else a valid optimum
  normalize               normalizeMetrics: every metric column <= 1, == x / max(x) when max > 0, untouched otherwise
  reward_formula          the three reward classes equal their documented formulas for every metric combination/order
  engine_decision         the same oracle on every Decision.calculate call made by a real tasking scenario
  tasks_table             decision / reward / visibility columns of the tasks table, re-assembled per epoch
  oracle_selfcheck        own Hungarian == own brute force (small) / == scipy (large); a miss is INCONCLUSIVE
"""

from __future__ import annotations

import itertools
import math

import numpy as np

from ..refs import assignref as ar

LEVEL = "exploration"
RULE = ("exhaustive part: one case = one (shape, small-integer reward matrix) block evaluated with EVERY visibility mask of the "
        "stated mask set (coverage.problems_exhaustive counts the individual (reward, mask) problems; coverage.exhaustive_subspace "
        "describes the completely enumerated space); random part: one case = one (reward, mask) problem up to 40x40 drawn from "
        "uniform / gaussian / integer-tied / negative / all-zero / constant / zero rows+columns / additive a_i+b_j (all assignments tie) / "
        "rank-1 / duplicated rows+columns / 1e-150..1e150 scaled / engine-like (zero where invisible) rewards and empty / sparse / dense / full / "
        "row- and column-blind / optimum-hiding masks, C-, F-ordered and strided arrays, float64 and int64; reward part: one case = one "
        "(reward class, metric classes in a given order, delta, metric tensor); scenario part: one case = one Decision.calculate call of a "
        "real engine. non-trivial = at least two complete assignments or two targets exist (the policy has a choice); 1x1 and empty-mask-only "
        "cases are trivial")
ASSUME = ["refs/assignref.py (permutation brute force; own Hungarian, cross-checked against the brute force and scipy on every run) is the reference",
          "documented sense of 'optimal': selection on the reward matrix as given, visibility ANDed afterwards (Decision.calculate docstring); "
          "any optimum / arg-max is accepted under ties (float ties within 1e-9*k*max|R|)",
          "rewards are finite (no NaN/inf); visibility masks are boolean arrays",
          "scenario part: ray stand-in (rvmon/shimray.py) replaces the executor; everything else is repository code"]
SHARDS = {"quick": 4, "thorough": 16}
BUDGET_S = {"quick": 180, "thorough": 1500}
DECIDING = ["wellformed", "visible_only", "sensor_at_most_one", "target_at_most_one", "munkres_optimal", "munkres_masked_value",
            "greedy_argmax", "allvisible_exact", "random_valid", "random_seeded", "relabel", "normalize", "reward_formula",
            "engine_decision", "tasks_table", "input_unchanged"]
MANIFEST = {
    "technique": "runtime monitoring: bounded-exhaustive + random differential testing of Decision.calculate / Reward against an independent "
                 "brute-force / Hungarian reference, plus postconditions on a real tasking scenario and its tasks table",
    "level_text": "held on every problem of the enumerated sub-space (see coverage.exhaustive_subspace) and on the random / scenario executions observed",
    "level_note": "exhaustive only inside the stated small scope (shapes <= 4x4, small integer rewards); beyond it random exploration up to 40x40; "
                  "'optimal' is judged in the documented assign-then-mask sense",
}

BRUTE_LIMIT = 800   # complete assignments enumerated exactly in the general path
REL_TOL = 1e-9      # x k x max|R| : float-sum / potential rounding is <= ~k*2.2e-16*max|R| (observed worst 0), breaks are >= 1e-4
POLS = ("munkres", "greedy", "allvisible", "random")
_ASG_CACHE: dict = {}


# ---------------------------------------------------------------------------------------------
# helpers
# ---------------------------------------------------------------------------------------------
def _classes():
    from resonaate.tasking.decisions.decisions import AllVisibleDecision, MunkresDecision, MyopicNaiveGreedyDecision, RandomDecision

    return {"munkres": MunkresDecision, "greedy": MyopicNaiveGreedyDecision, "allvisible": AllVisibleDecision, "random": RandomDecision}


def _make(pol, seed=0):
    cls = _classes()[pol]
    return cls(seed=seed) if pol == "random" else cls()


def _asg(n, m):
    key = (n, m)
    if key not in _ASG_CACHE:
        _ASG_CACHE[key] = ar.complete_assignments(n, m)
    return _ASG_CACHE[key]


def _n_asg(n, m):
    k, big = min(n, m), max(n, m)
    return math.perm(big, k)


def _bits(arr) -> int:
    a = np.ascontiguousarray(arr, dtype=bool).ravel()
    return int.from_bytes(np.packbits(a, bitorder="little").tobytes(), "little")


def _wit(kind, pol, R, V, **kw):
    w = {"kind": kind, "policy": pol, "R": np.asarray(R).tolist(), "V": np.asarray(V).astype(int).tolist(),
         "int_rewards": bool(np.asarray(R).dtype.kind in "iu")}
    w.update(kw)
    return w


def _from_wit(w):
    R = np.array(w["R"], dtype=np.int64 if w.get("int_rewards") else float)
    V = np.array(w["V"], dtype=bool)
    if R.ndim != 2:
        R = R.reshape(V.shape)
    return R, V


# ---------------------------------------------------------------------------------------------
# the oracle on a given decision
# ---------------------------------------------------------------------------------------------
def judge(ctx, pol, R, V, D, wit, site=""):
    """Judge decision D of policy `pol` for (R, V).  Returns True iff every monitor held."""
    n, m = R.shape
    ok = ctx.check(isinstance(D, np.ndarray) and D.shape == R.shape and D.dtype == np.bool_, "decision-malformed",
                   f"{pol}: decision is not a boolean ndarray of shape {R.shape}: {type(D).__name__} "
                   f"{getattr(D, 'shape', None)} {getattr(D, 'dtype', None)}", wit, mon="wellformed")
    if not ok:
        return False
    good = ctx.check(not (D & ~V).any(), f"{pol}-tasked-invisible",
                     f"{pol}{site}: tasked pair(s) {np.argwhere(D & ~V)[:4].tolist()} (target, sensor) are not visible", wit, mon="visible_only")
    if pol in ("munkres", "greedy", "random"):
        per_s = D.sum(axis=0)
        good &= ctx.check(int(per_s.max(initial=0)) <= 1, f"{pol}-sensor-multi-target",
                          f"{pol}{site}: sensor column(s) {np.nonzero(per_s > 1)[0][:4].tolist()} tasked to more than one target", wit,
                          mon="sensor_at_most_one")
    if pol == "munkres":
        per_t = D.sum(axis=1)
        good &= ctx.check(int(per_t.max(initial=0)) <= 1, "munkres-target-multi-sensor",
                          f"munkres{site}: target row(s) {np.nonzero(per_t > 1)[0][:4].tolist()} given to more than one sensor", wit,
                          mon="target_at_most_one")
    if not good:
        return False
    if pol == "allvisible":
        return ctx.check(bool((D == V).all()), "allvisible-not-equal-visibility",
                         f"allvisible{site}: decision differs from the visibility mask at {np.argwhere(D != V)[:4].tolist()}", wit,
                         mon="allvisible_exact")
    if pol == "random":
        idle = [int(s) for s in range(m) if V[:, s].any() and not D[:, s].any()]
        return ctx.check(not idle, "random-sensor-idle-with-visible-target",
                         f"random{site}: sensor column(s) {idle[:4]} see a target but were not tasked ('applies one target per sensor')", wit,
                         mon="random_valid")
    flat = R.ravel().tolist()
    d, v = _bits(D), _bits(V)
    if pol == "greedy":
        argm = ar.column_argmax_masks(flat, n, m)
        colm = ar.col_masks(n, m)
        if ar.greedy_ok(d, v, argm, colm):
            ctx.mon("greedy_argmax")
            return True
        bad_idle = [s for s in range(m) if not (d & colm[s]) and not (argm[s] & ~v)]
        if bad_idle:
            return ctx.check(False, "greedy-idle-with-visible-argmax",
                             f"greedy{site}: sensor column(s) {bad_idle[:4]} not tasked although every highest-reward target is visible", wit,
                             mon="greedy_argmax")
        bad = [s for s in range(m) if (d & colm[s]) and not (d & colm[s] & argm[s])]
        return ctx.check(False, "greedy-not-argmax",
                         f"greedy{site}: sensor column(s) {bad[:4]} tasked to a target that is not a highest-reward target of that sensor", wit,
                         mon="greedy_argmax")
    # ---- munkres --------------------------------------------------------------------------
    k = min(n, m)
    amax = max((abs(float(x)) for x in flat), default=0.0)
    tol = REL_TOL * k * amax
    engine_like = not np.any(np.asarray(R)[~V] != 0)
    if _n_asg(n, m) <= BRUTE_LIMIT:
        asg = _asg(n, m)
        best, opts = ar.brute_optimal(flat, asg, tol)
        okm = any((a & v) == d for a in opts)
        if not okm:
            key, why = _classify_munkres_brute(flat, asg, d, v, tol)
            ctx.check(False, key, f"munkres{site}: {why} (optimum {best!r}, {len(opts)} optimal assignment(s))", wit, mon="munkres_optimal")
        else:
            ctx.mon("munkres_optimal")
        if engine_like:
            val = math.fsum(flat[i] for i in range(n * m) if (d >> i) & 1)
            okm &= ctx.check(abs(val - best) <= tol, "munkres-masked-value-below-optimum",
                             f"munkres{site}: rewards are zero on invisible pairs, decision collects {val!r} but the optimum of the masked matrix is {best!r}",
                             wit, mon="munkres_masked_value")
        return okm
    Rl, Vl, Dl = R.tolist(), V.tolist(), D.tolist()
    status, gap, opt = ar.munkres_decision_gap(Rl, Vl, Dl)
    if status != "ok-shape":
        return ctx.check(False, "munkres-incomplete", f"munkres{site}: decision is not (a complete one-to-one assignment AND visibility): {status}",
                         wit, mon="munkres_optimal")
    _gap_bucket(ctx, gap, k * amax)
    okm = gap <= tol
    if not okm:
        key, why = _classify_munkres_large(Rl, Vl, Dl, tol)
        ctx.check(False, key, f"munkres{site}: {why}; best total explaining the decision is {gap!r} below the optimum {opt!r} ({n}x{m})", wit,
                  mon="munkres_optimal")
    else:
        ctx.mon("munkres_optimal")
    if engine_like:
        val = math.fsum(float(R[t, s]) for t, s in np.argwhere(D))
        okm &= ctx.check(abs(val - opt) <= tol, "munkres-masked-value-below-optimum",
                         f"munkres{site}: rewards are zero on invisible pairs, decision collects {val!r}, optimum of the masked matrix {opt!r}", wit,
                         mon="munkres_masked_value")
    return okm


def _gap_bucket(ctx, gap, scale):
    if scale <= 0 or gap == 0:
        ctx.add_to_set("munkres_gap_over_scale_log10", "0")
    else:
        ctx.add_to_set("munkres_gap_over_scale_log10", str(int(math.floor(math.log10(abs(gap) / scale)))) if gap else "0")


def _classify_munkres_brute(flat, asg, d, v, tol):
    c = len(flat)
    if not any((a & v) == d for a, _ in asg):
        return "munkres-incomplete", "decision is not (a complete one-to-one assignment AND visibility) for any assignment"
    masked = [x if (v >> i) & 1 else 0 for i, x in enumerate(flat)]
    _, o2 = ar.brute_optimal(masked, asg, tol)
    if any((a & v) == d for a in o2):
        return ("munkres-optimal-for-premasked-rewards",
                "decision is optimal only for the reward matrix masked BEFORE the assignment, not for assign-then-mask as documented")
    _, o3 = ar.brute_optimal([-x for x in flat], asg, tol)
    if any((a & v) == d for a in o3):
        return "munkres-minimum-not-maximum", "decision comes from a MINIMUM-total-reward assignment"
    assert c
    return "munkres-not-optimal", "decision comes from a complete assignment, but from no maximum-total-reward one"


def _classify_munkres_large(Rl, Vl, Dl, tol):
    masked = [[x if vv else 0 for x, vv in zip(r, vr)] for r, vr in zip(Rl, Vl)]
    st, gap, _ = ar.munkres_decision_gap(masked, Vl, Dl)
    if st == "ok-shape" and gap <= tol:
        return ("munkres-optimal-for-premasked-rewards",
                "decision is optimal only for the reward matrix masked BEFORE the assignment, not for assign-then-mask as documented")
    neg = [[-x for x in r] for r in Rl]
    st, gap, _ = ar.munkres_decision_gap(neg, Vl, Dl)
    if st == "ok-shape" and gap <= tol:
        return "munkres-minimum-not-maximum", "decision comes from a MINIMUM-total-reward assignment"
    return "munkres-not-optimal", "decision comes from a complete assignment, but from no maximum-total-reward one"


def call_policy(ctx, pol, R, V, wit, seed=0, obj=None):
    """Run the repository's policy; an exception on a finite matrix / boolean mask is a violation."""
    try:
        obj = obj or _make(pol, seed)
        R0, V0 = np.array(R, copy=True), np.array(V, copy=True)
        D = obj.calculate(R, V)
        # the matrices belong to the caller (the engine stores them as the step's rewards / visibility afterwards)
        ctx.check(R0.tobytes() == np.asarray(R).tobytes() and V0.tobytes() == np.asarray(V).tobytes(), f"{pol}-modified-its-input",
                  f"{pol}.calculate changed the caller's {'reward' if R0.tobytes() != np.asarray(R).tobytes() else 'visibility'} matrix in place "
                  f"(max change {float(np.abs(np.asarray(R, dtype=float) - R0).max()):.3g})", wit, mon="input_unchanged")
        return D
    except Exception as e:  # noqa: BLE001
        ctx.check(False, f"{pol}-raised", f"{pol}.calculate raised {type(e).__name__}: {e} on a {R.shape[0]}x{R.shape[1]} problem", wit, mon="wellformed")
        return None


def check_decision(ctx, pol, R, V, kind="decision", seed=0, **extra):
    wit = _wit(kind, pol, R, V, seed=seed, **extra)
    D = call_policy(ctx, pol, R, V, wit, seed)
    if D is None:
        return None
    judge(ctx, pol, R, V, D, wit)
    return D


def decision_unique(pol, R, V, generic=False):
    """Is the documented decision determined uniquely (so that relabelling must commute exactly)?"""
    n, m = R.shape
    if pol == "allvisible":
        return True
    if pol == "random":
        return False
    flat = R.ravel().tolist()
    v = _bits(V)
    if pol == "greedy":
        return ar.greedy_unique(v, ar.column_argmax_masks(flat, n, m))
    if _n_asg(n, m) <= BRUTE_LIMIT:
        amax = max((abs(float(x)) for x in flat), default=0.0)
        _, opts = ar.brute_optimal(flat, _asg(n, m), 10 * REL_TOL * min(n, m) * amax)
        return len({a & v for a in opts}) == 1
    return bool(generic)


def check_relabel(ctx, pol, R, V, p, q, generic=False, seed=0):
    """Permute targets by p and sensors by q: the decision must follow (exactly if unique, else stay valid)."""
    p, q = list(p), list(q)
    wit = _wit("relabel", pol, R, V, p=p, q=q, generic=bool(generic), seed=seed)
    D = call_policy(ctx, pol, R, V, wit, seed)
    if D is None or not (isinstance(D, np.ndarray) and D.shape == R.shape):
        return
    R2, V2 = R[np.ix_(p, q)], V[np.ix_(p, q)]
    wit2 = _wit("decision", pol, R2, V2, seed=seed, relabelled=True)
    D2 = call_policy(ctx, pol, R2, V2, wit2, seed)
    if D2 is None:
        return
    valid = judge(ctx, pol, R2, V2, D2, wit2, site=" (relabelled problem)")
    if not valid:
        ctx.mon("relabel")
        return
    if decision_unique(pol, R, V, generic):
        ctx.count("relabel_unique_checked")
        ctx.check(bool((D2 == D[np.ix_(p, q)]).all()), f"{pol}-relabel-changes-decision",
                  f"{pol}: the decision is unique, yet permuting targets by {p} and sensors by {q} does not permute it", wit, mon="relabel")
    else:
        ctx.count("relabel_tied_valid_optimum")
        ctx.mon("relabel")


def check_random_seeded(ctx, problems, seed):
    """Two RandomDecision objects with one seed produce the same sequence of decisions."""
    wit = {"kind": "random_seeded", "seed": seed, "problems": [[np.asarray(R).tolist(), np.asarray(V).astype(int).tolist()] for R, V in problems]}
    try:
        a, b = _make("random", seed), _make("random", seed)
        outs_a = [a.calculate(R, V) for R, V in problems]
        outs_b = [b.calculate(R, V) for R, V in problems]
    except Exception as e:  # noqa: BLE001
        ctx.check(False, "random-raised", f"random.calculate raised {type(e).__name__}: {e}", wit, mon="random_seeded")
        return
    same = all(np.array_equal(x, y) for x, y in zip(outs_a, outs_b))
    ctx.check(same, "random-not-reproducible-from-seed", f"RandomDecision(seed={seed}) gave two different decision sequences", wit, mon="random_seeded")


# ---------------------------------------------------------------------------------------------
# exhaustive small scope (fast bitmask path; any mismatch is re-judged by the general path above)
# ---------------------------------------------------------------------------------------------
def _structured_masks(n, m):
    c = n * m
    full = (1 << c) - 1
    rows, cols = ar.row_masks(n, m), ar.col_masks(n, m)
    out = [full, 0]
    out += [full ^ (1 << i) for i in range(c)] + [1 << i for i in range(c)]
    out += [full ^ r for r in rows] + [full ^ cm for cm in cols] + rows + cols
    diag = sum(1 << (i * m + i) for i in range(min(n, m)))
    anti = sum(1 << (i * m + (m - 1 - i)) for i in range(min(n, m)))
    chk = sum(1 << (t * m + s) for t in range(n) for s in range(m) if (t + s) % 2 == 0)
    upper = sum(1 << (t * m + s) for t in range(n) for s in range(m) if s >= t)
    out += [diag, full ^ diag, anti, full ^ anti, chk, full ^ chk, upper, full ^ upper]
    seen, res = set(), []
    for x in out:
        if x not in seen:
            seen.add(x)
            res.append(x)
    return res


class _Exh:
    """One enumerated block family: shape x value set x mask set."""

    def __init__(self, n, m, values, masks, mask_desc):
        self.n, self.m, self.values, self.masks, self.mask_desc = n, m, tuple(values), masks, mask_desc

    def size(self):
        return len(self.values) ** (self.n * self.m) * (len(self.masks) if self.masks is not None else 2 ** (self.n * self.m))

    def describe(self):
        return f"{self.n}x{self.m} rewards in {{{','.join(str(x) for x in self.values)}}}^{self.n * self.m} x {self.mask_desc}"


class _Unsharded:
    """Seed view that is identical on every shard (the plan must be the same everywhere)."""

    def __init__(self, ctx):
        self.seed, self.shard = ctx.seed, 0


def _exh_plan(ctx):
    small = [(n, m) for n in range(1, 7) for m in range(1, 7) if n * m <= 6]
    plan = []
    if ctx.quick:
        for n, m in small:
            plan.append(_Exh(n, m, (-1, 0, 1, 2), None, "all masks"))
        for n, m in ((3, 3), (2, 4), (4, 2)):
            plan.append(_Exh(n, m, (0, 1), None, "all masks"))
        for n, m in ((3, 4), (4, 3)):
            sm = _structured_masks(n, m)
            plan.append(_Exh(n, m, (0, 1), sm, f"{len(sm)} structured masks (full, empty, one cell hidden/only, one row/column hidden/only, diagonals, checkerboards, triangles)"))
        plan.append(_Exh(4, 4, (0, 1), [0xFFFF, 0xFFFF ^ 0x8421, 0x8421, 0x5A5A, 0x7BDE, 0x0FF0],
                         "6 masks (full, diagonal hidden, diagonal only, checkerboard, one cell per row hidden, middle rows only)"))
    else:
        for n, m in small:
            plan.append(_Exh(n, m, (-2, -1, 0, 1, 2), None, "all masks"))
        plan.append(_Exh(3, 3, (0, 1, 2), None, "all masks"))
        sm = _structured_masks(3, 3)
        plan.append(_Exh(3, 3, (-1, 0, 1), sm, f"{len(sm)} structured masks"))
        for n, m in ((2, 4), (4, 2)):
            plan.append(_Exh(n, m, (0, 1, 2), None, "all masks"))
        plan.append(_Exh(3, 4, (0, 1), None, "all masks"))
        rr = ctx.__class__.pyrng(_Unsharded(ctx), "masks43")
        sm = _structured_masks(4, 3)
        extra = [x for x in (rr.getrandbits(12) for _ in range(512)) if x not in set(sm)]
        sm = sm + sorted(set(extra))
        plan.append(_Exh(4, 3, (0, 1), sm, f"{len(sm)} masks (structured + seed-chosen random ones)"))
        sm = _structured_masks(4, 4)
        plan.append(_Exh(4, 4, (0, 1), sm, f"{len(sm)} structured masks (full, empty, one cell hidden/only, one row/column hidden/only, diagonals, checkerboards, triangles)"))
    return plan


def run_exhaustive(ctx):
    pols = {p: _make(p, 12345) for p in POLS}
    munk, greedy, allv, rnd = (pols[p].calculate for p in POLS)
    BOOL = np.dtype(bool)
    plan = _exh_plan(ctx)
    total = sum(b.size() for b in plan)
    rnd_every = 8 if ctx.quick else 16
    rel_every = 61 if ctx.quick else 211
    ctx.note("exhaustive_subspace",
             f"COMPLETE enumeration, Munkres + greedy + all-visible policy on every (reward matrix, mask) problem (random policy on every {rnd_every}th, "
             f"relabelling on every {rel_every}th): " + "; ".join(b.describe() for b in plan) + f"  = {total} problems in total over all shards")
    deadline_left = BUDGET_S[ctx.tier] * 0.08   # the plan has a fixed size; only an (over)loaded machine gets here
    n_fast = 0
    cnt = {"visible_only": 0, "sensor_at_most_one": 0, "target_at_most_one": 0, "munkres_optimal": 0, "munkres_masked_value": 0,
           "greedy_argmax": 0, "allvisible_exact": 0, "random_valid": 0, "wellformed": 0}
    blk = -1
    complete = True
    n_prob = 0
    n_reading_a = 0
    n_reading_a_sampled = 0
    perm_cycle = 0
    for B in plan:
        n, m = B.n, B.m
        c = n * m
        shp = (n, m)
        full = (1 << c) - 1
        asg = _asg(n, m)
        colm, rowm = ar.col_masks(n, m), ar.row_masks(n, m)
        masks = B.masks if B.masks is not None else list(range(1 << c))
        Vs = {v: np.array([(v >> i) & 1 for i in range(c)], dtype=bool).reshape(shp) for v in masks}
        cache: dict = {}
        perms = [(p, q) for p in itertools.permutations(range(n)) for q in itertools.permutations(range(m))]
        nontriv = len(asg) > 1 or n > 1
        for flat in itertools.product(B.values, repeat=c):
            blk += 1
            if blk % ctx.nshards != ctx.shard:
                continue
            if ctx.time_left() < deadline_left:
                complete = False
                break
            R = np.array(flat, dtype=float).reshape(shp)
            totals = [sum(flat[i] for i in cells) for _, cells in asg]
            best = max(totals)
            opts = [a[0] for a, t in zip(asg, totals) if t == best]
            single = opts[0] if len(opts) == 1 else None
            argm = ar.column_argmax_masks(flat, n, m)
            zero = sum(1 << i for i, x in enumerate(flat) if x == 0)
            for v in masks:
                V = Vs[v]
                nv = full ^ v
                slow = None
                try:
                    Dm, Dg, Da = munk(R, V), greedy(R, V), allv(R, V)
                    if not (Dm.dtype is BOOL and Dg.dtype is BOOL and Da.dtype is BOOL and Dm.shape == shp and Dg.shape == shp and Da.shape == shp):
                        slow = POLS[:3]
                except Exception:  # noqa: BLE001
                    slow = POLS[:3]
                if slow is None:
                    ks = []
                    for Dx in (Dm, Dg, Da):
                        b = Dx.tobytes()
                        x = cache.get(b)
                        if x is None:
                            x = cache[b] = sum(1 << i for i, y in enumerate(b) if y)
                        ks.append(x)
                    dm, dg, da = ks
                    ok_m = (not (dm & nv)) and ar.at_most_one(dm, colm) and ar.at_most_one(dm, rowm) and \
                        ((dm == (single & v)) if single is not None else any((a & v) == dm for a in opts))
                    ok_g = (not (dg & nv)) and ar.at_most_one(dg, colm) and ar.greedy_ok(dg, v, argm, colm)
                    ok_a = da == v
                    if not (nv & ~zero):  # rewards are zero wherever invisible: literal "masked matrix" reading
                        cnt["munkres_masked_value"] += 1
                        if ok_m and sum(flat[i] for i in range(c) if (dm >> i) & 1) != best:
                            ok_m = False
                    elif (blk + v) % 8 == 0:  # bookkeeping only: how often the two readings differ on general inputs
                        n_reading_a_sampled += 1
                        opt_a = max(sum(flat[i] for i in cells if (v >> i) & 1) for _, cells in asg)
                        if ok_m and sum(flat[i] for i in range(c) if (dm >> i) & 1) < opt_a:
                            n_reading_a += 1
                    if not (ok_m and ok_g and ok_a):
                        slow = tuple(p for p, okx in zip(POLS[:3], (ok_m, ok_g, ok_a)) if not okx)
                    n_fast += 1
                if slow:
                    before = sum(ctx.viol_counts.values())
                    for p in slow:
                        check_decision(ctx, p, R, V, kind="decision", seed=12345, origin="exhaustive")
                    if sum(ctx.viol_counts.values()) == before:
                        ctx.inconclusive_because(f"fast and general oracle disagree on {flat} mask {v} shape {shp}")
                if (blk + v) % rnd_every == 0:
                    try:
                        Dr = rnd(R, V)
                        b = Dr.tobytes()
                        dr = sum(1 << i for i, y in enumerate(b) if y) if (Dr.dtype is BOOL and Dr.shape == shp) else -1
                    except Exception:  # noqa: BLE001
                        dr = -1
                    okr = dr >= 0 and not (dr & nv) and ar.at_most_one(dr, colm) and all((not (v & cm)) or (dr & cm) for cm in colm)
                    cnt["random_valid"] += 1
                    cnt["visible_only"] += 1
                    cnt["sensor_at_most_one"] += 1
                    cnt["wellformed"] += 1
                    if not okr:
                        wit = _wit("decision_given", "random", R, V, D=(Dr.astype(int).tolist() if dr >= 0 else None), origin="exhaustive")
                        if dr >= 0:
                            judge(ctx, "random", R, V, Dr, wit)
                        else:
                            check_decision(ctx, "random", R, V, seed=12345, origin="exhaustive")
                if len(perms) > 1 and (blk * 7 + v) % rel_every == 0:
                    perm_cycle += 1
                    p, q = perms[(perm_cycle * 5 + 1) % len(perms)]
                    for pol in POLS[:3]:
                        check_relabel(ctx, pol, R, V, p, q)
            n_prob += len(masks)
            ctx.case(("x", n, m, flat, B.mask_desc[:12]), nontrivial=nontriv)
            if blk % 4001 == 0:
                ctx.sample({"exhaustive_block": {"shape": [n, m], "rewards": list(flat), "masks": B.mask_desc}})
        if not complete:
            break
    for k, mult in (("wellformed", 3), ("visible_only", 3), ("sensor_at_most_one", 2), ("target_at_most_one", 1), ("munkres_optimal", 1),
                    ("greedy_argmax", 1), ("allvisible_exact", 1)):
        cnt[k] += mult * n_fast
    for k, x in cnt.items():
        if x:
            ctx.mon(k, x)
    ctx.count("problems_exhaustive", n_prob)
    ctx.note("exhaustive_problems_planned", total if ctx.shard == 0 else 0)
    ctx.note("exhaustive_complete", bool(complete))
    ctx.count("general_inputs_sampled_for_reading_comparison", n_reading_a_sampled)
    ctx.count("general_inputs_where_assign_then_mask_collects_less_than_mask_then_assign", n_reading_a)
    if not complete:
        ctx.inconclusive_because("the exhaustive sub-space was not finished inside the wall budget (nothing is claimed about the remainder)")


# ---------------------------------------------------------------------------------------------
# random larger problems
# ---------------------------------------------------------------------------------------------
R_KINDS = ("uniform", "gauss", "int_tied", "binary", "negative", "zeros", "constant", "zero_rows_cols", "additive", "rank1",
           "dup_rows", "dup_cols", "tiny", "huge", "engine_like", "near_tie", "int64", "onehot_cols")
V_KINDS = ("full", "empty", "sparse", "half", "dense", "blind_sensor", "blind_target", "hide_optimum", "hide_col_argmax",
           "only_optimum", "single")


def _shape(rng, small_bias):
    r = rng.random()
    if r < small_bias:
        n, m = rng.randint(1, 6), rng.randint(1, 6)
    elif r < small_bias + 0.15:
        n = m = rng.randint(2, 40)
    elif r < small_bias + 0.25:
        n, m = rng.choice([(1, rng.randint(1, 40)), (rng.randint(1, 40), 1)])
    elif r < small_bias + 0.35:
        n, m = rng.choice([(40, 40), (40, 39), (39, 40), (40, 2), (2, 40), (7, 7), (6, 7)])
    else:
        n, m = rng.randint(1, 40), rng.randint(1, 40)
    return n, m


def gen_R(kind, n, m, g):
    if kind == "uniform":
        R = g.random((n, m))
    elif kind == "gauss":
        R = g.normal(size=(n, m))
    elif kind == "int_tied":
        R = g.integers(-2, 4, size=(n, m)).astype(float)
    elif kind == "binary":
        R = g.integers(0, 2, size=(n, m)).astype(float)
    elif kind == "negative":
        R = -g.random((n, m)) - 0.1
    elif kind == "zeros":
        R = np.zeros((n, m))
    elif kind == "constant":
        R = np.full((n, m), float(g.choice([-3.5, 1.0, 0.1, 7.0])))
    elif kind == "zero_rows_cols":
        R = g.random((n, m)) * 3 - 1
        R[g.random(n) < 0.3, :] = 0.0
        R[:, g.random(m) < 0.3] = 0.0
    elif kind == "additive":
        R = g.integers(-5, 6, size=(n, 1)).astype(float) * 0.25 + g.integers(-5, 6, size=(1, m)).astype(float) * 0.5
    elif kind == "rank1":
        R = np.outer(g.integers(0, 4, size=n), g.integers(-1, 4, size=m)).astype(float)
    elif kind == "dup_rows":
        R = g.normal(size=(n, m))
        R = R[g.integers(0, max(1, n // 2), size=n), :]
    elif kind == "dup_cols":
        R = g.normal(size=(n, m))
        R = R[:, g.integers(0, max(1, m // 2), size=m)]
    elif kind == "tiny":
        R = g.normal(size=(n, m)) * float(g.choice([1e-12, 1e-150, 1e-300]))
    elif kind == "huge":
        R = g.normal(size=(n, m)) * float(g.choice([1e9, 1e12, 1e150]))
    elif kind == "engine_like":
        R = g.random((n, m)) * 1.7
        if g.random() < 0.4:
            R -= 0.6
    elif kind == "near_tie":
        R = g.integers(0, 3, size=(n, m)).astype(float) + g.normal(size=(n, m)) * 1e-13
    elif kind == "int64":
        R = g.integers(-3, 9, size=(n, m)).astype(np.int64)
    else:  # onehot_cols: every sensor has one clearly best target, often the same one
        R = np.zeros((n, m))
        R[g.integers(0, max(1, min(n, 3)), size=m), np.arange(m)] = 1.0 + g.random(m)
    return R


def gen_V(kind, R, g):
    n, m = R.shape
    if kind == "full":
        return np.ones((n, m), dtype=bool)
    if kind == "empty":
        return np.zeros((n, m), dtype=bool)
    if kind in ("sparse", "half", "dense"):
        return g.random((n, m)) < {"sparse": 0.12, "half": 0.5, "dense": 0.9}[kind]
    if kind == "blind_sensor":
        V = g.random((n, m)) < 0.7
        V[:, g.random(m) < 0.35] = False
        return V
    if kind == "blind_target":
        V = g.random((n, m)) < 0.7
        V[g.random(n) < 0.35, :] = False
        return V
    if kind == "single":
        V = np.zeros((n, m), dtype=bool)
        V[g.integers(0, n), g.integers(0, m)] = True
        return V
    if kind == "hide_col_argmax":
        V = g.random((n, m)) < 0.8
        V[np.argmax(R, axis=0), np.arange(m)] = False
        return V
    _, pairs = ar.hungarian_max(np.asarray(R, dtype=float).tolist())
    A = np.zeros((n, m), dtype=bool)
    for t, s in pairs:
        A[t, s] = True
    if kind == "only_optimum":
        return A | (g.random((n, m)) < 0.1)
    V = g.random((n, m)) < 0.85   # hide_optimum: an optimum is invisible, everything else mostly visible
    hide = A & (g.random((n, m)) < 0.8)
    return V & ~hide


def _layout(R, V, g):
    r = g.random()
    if r < 0.7:
        return R, V
    if r < 0.85:
        return np.asfortranarray(R), np.asfortranarray(V)
    big = np.zeros((2 * R.shape[0], 3 * R.shape[1]), dtype=R.dtype)
    bigv = np.zeros((2 * R.shape[0], 3 * R.shape[1]), dtype=bool)
    big[::2, ::3] = R
    bigv[::2, ::3] = V
    return big[::2, ::3], bigv[::2, ::3]


def selfcheck_oracle(ctx, R):
    """Own Hungarian vs own brute force (small) or scipy (large). A disagreement is an oracle problem: INCONCLUSIVE."""
    n, m = R.shape
    Rl = np.asarray(R, dtype=float).tolist()
    tot, _ = ar.hungarian_max(Rl)
    amax = float(np.abs(R).max(initial=0.0))
    tol = REL_TOL * min(n, m) * amax
    if _n_asg(n, m) <= BRUTE_LIMIT:
        best, _ = ar.brute_optimal([x for r in Rl for x in r], _asg(n, m))
        ok = abs(best - tot) <= tol
        src = "brute force"
    else:
        from scipy.optimize import linear_sum_assignment

        Rf = np.asarray(R, dtype=float)
        r, c = linear_sum_assignment(Rf, maximize=True)
        best = float(Rf[r, c].sum())
        ok = tot >= best - tol   # own total below scipy's => own Hungarian is wrong
        src = "scipy"
        if tot > best + tol:
            ctx.count("own_hungarian_beats_scipy")
    ctx.mon("oracle_selfcheck")
    if not ok:
        ctx.inconclusive_because(f"reference self-check failed: own Hungarian {tot!r} vs {src} {best!r} on a {n}x{m} matrix")


def run_random(ctx, n_cases, reserve_s):
    py = ctx.pyrng("rand")
    g = ctx.rng("rand")
    done = 0
    for i in range(n_cases):
        if ctx.time_left() < reserve_s:
            break
        n, m = _shape(py, 0.3)
        rk = R_KINDS[(i + ctx.shard) % len(R_KINDS)] if py.random() < 0.8 else py.choice(R_KINDS)
        vk = py.choice(V_KINDS)
        R = gen_R(rk, n, m, g)
        V = gen_V(vk, R, g)
        if rk == "engine_like":
            R = R * V
        R, V = _layout(R, V, g)
        generic = rk in ("uniform", "gauss") and vk not in ("hide_optimum", "only_optimum")
        seed = py.randrange(1 << 30)
        for pol in POLS:
            check_decision(ctx, pol, R, V, seed=seed, rkind=rk, vkind=vk)
        p, q = list(range(n)), list(range(m))
        py.shuffle(p)
        py.shuffle(q)
        r = py.random()
        if r < 0.15:
            p = list(range(n))          # sensors only
        elif r < 0.3:
            q = list(range(m))          # targets only
        for pol in POLS:
            check_relabel(ctx, pol, R, V, p, q, generic=generic, seed=seed)
        if i % 4 == 0:
            selfcheck_oracle(ctx, R)
        if i % 25 == 0:
            probs = [(R, V)] + [(gen_R("uniform", a, b, g), g.random((a, b)) < 0.6) for a, b in ((3, 5), (6, 2), (1, 4))]
            check_random_seeded(ctx, probs, seed)
        ctx.add_to_set("random_kinds", f"{rk}/{vk}")
        ctx.case(("r", ctx.seed, ctx.shard, i), nontrivial=(n > 1 or m > 1) and bool(V.any()),
                 sample={"random": {"shape": [n, m], "rewards": rk, "mask": vk}} if i % 211 == 0 else None)
        done += 1
    ctx.count("problems_random", done)


# ---------------------------------------------------------------------------------------------
# rewards
# ---------------------------------------------------------------------------------------------
def _metric_pools():
    from resonaate.tasking.metrics import _METRIC_MAPPING

    by_type: dict = {}
    for cls in _METRIC_MAPPING.values():
        by_type.setdefault(str(cls.METRIC_TYPE.value if hasattr(cls.METRIC_TYPE, "value") else cls.METRIC_TYPE), []).append(cls)
    for k in by_type:
        by_type[k].sort(key=lambda c: c.__name__)
    return by_type


def _reward_combos():
    """Every (class, metric classes) combination of the two typed rewards x every ordering of the metric list."""
    bt = _metric_pools()
    out = []
    for info in bt["information"]:
        for stab in bt["stability"]:
            for sens in bt["sensor"]:
                for order in itertools.permutations((info, stab, sens)):
                    out.append(("CostConstrainedReward", [c.__name__ for c in order]))
                for beh in bt["target"]:
                    for order in itertools.permutations((info, stab, sens, beh)):
                        out.append(("CombinedReward", [c.__name__ for c in order]))
    return out


def _build_reward(cls_name, metric_names, delta):
    from resonaate.tasking.metrics import _METRIC_MAPPING
    from resonaate.tasking.rewards import rewards as rw

    by_name = {c.__name__: c for c in _METRIC_MAPPING.values()}
    metrics = [by_name[nm]() for nm in metric_names]
    cls = getattr(rw, cls_name)
    if cls_name == "SimpleSummationReward":
        return cls(metrics), metrics
    return (cls(metrics) if delta is None else cls(metrics, delta=delta)), metrics


def gen_M(py, g, T, S, P, types):
    kind = py.choice(["uniform", "mixed_sign", "zeros_rows", "nonpositive_col", "huge", "tiny", "all_zero", "ints", "one_big"])
    if kind == "uniform":
        M = g.random((T, S, P)) * 10
    elif kind == "mixed_sign":
        M = g.normal(size=(T, S, P)) * 3
    elif kind == "zeros_rows":
        M = g.random((T, S, P)) * 5
        M[g.random((T, S)) < 0.4] = 0.0      # invisible pairs keep all-zero metrics
    elif kind == "nonpositive_col":
        M = g.random((T, S, P)) * 5
        M[..., g.integers(0, P)] *= -1.0
    elif kind == "huge":
        M = g.random((T, S, P)) * float(g.choice([1e6, 1e12, 1e100]))
    elif kind == "tiny":
        M = g.random((T, S, P)) * float(g.choice([1e-9, 1e-200, 5e-324]))
    elif kind == "all_zero":
        M = np.zeros((T, S, P))
    elif kind == "ints":
        M = g.integers(-2, 4, size=(T, S, P)).astype(float)
    else:
        M = g.random((T, S, P))
        M[g.integers(0, T), g.integers(0, S), g.integers(0, P)] = 1e8
    for idx, ty in enumerate(types):   # stability: sign matters, include exact zeros and negatives
        if ty == "stability" and py.random() < 0.7:
            M[..., idx] = g.choice([-2.5, -1.0, 0.0, 0.0, 0.3, 1.0, 4.0], size=(T, S))
    return M, kind


def _sgn(x):
    return 1.0 if x > 0 else (-1.0 if x < 0 else 0.0)


def check_reward(ctx, cls_name, metric_names, delta, M, mkind="?"):
    """normalizeMetrics + calculate of one reward object on one metric tensor M (T,S,P)."""
    M = np.array(M, dtype=float)
    T, S, P = M.shape
    wit = {"kind": "reward", "cls": cls_name, "metrics": list(metric_names), "delta": delta, "M": M.tolist(), "mkind": mkind}
    try:
        reward, metrics = _build_reward(cls_name, metric_names, delta)
    except Exception as e:  # noqa: BLE001
        ctx.check(False, "reward-constructor-raised", f"{cls_name}({metric_names}, delta={delta}) raised {type(e).__name__}: {e}", wit, mon="reward_formula")
        return
    types = [str(getattr(mt.metric_type, "value", mt.metric_type)) for mt in metrics]
    d = 0.85 if delta is None else delta
    # ---- normalisation -----------------------------------------------------------------------
    M0 = M.copy()
    try:
        N = reward.normalizeMetrics(M.copy())
    except Exception as e:  # noqa: BLE001
        ctx.check(False, "normalize-raised", f"normalizeMetrics raised {type(e).__name__}: {e}", wit, mon="normalize")
        return
    if not ctx.check(isinstance(N, np.ndarray) and N.shape == M0.shape, "normalize-shape", f"normalizeMetrics returned shape {getattr(N, 'shape', None)} for {M0.shape}",
                     wit, mon="normalize"):
        return
    for pidx in range(P):
        col0, col = M0[..., pidx], N[..., pidx]
        mx = float(col0.max())
        ctx.check(float(col.max()) <= 1.0, "normalized-metric-exceeds-one",
                  f"metric {metric_names[pidx]} has maximum {float(col.max())!r} after normalisation (raw maximum {mx!r})", wit, mon="normalize")
        if mx > 0.0:
            exp = col0 / mx
            err = np.abs(col - exp)
            # one IEEE division each: |err| <= 1 ulp of the quotient (+ a subnormal floor)
            ctx.check(bool((err <= 4.5e-16 * np.abs(exp) + 1e-320).all()), "normalize-not-divided-by-max",
                      f"metric {metric_names[pidx]}: normalised values differ from x / max(x) by up to {float(err.max())!r} (max(x)={mx!r})", wit, mon="normalize")
        else:
            ctx.check(bool((col == col0).all()), "normalize-nonpositive-column-changed",
                      f"metric {metric_names[pidx]} has no positive value (max {mx!r}) but was changed by normalizeMetrics", wit, mon="normalize")
    # ---- documented formula, on the raw and on the normalised tensor --------------------------
    for label, X in (("raw", M0), ("normalised", N)):
        Xin = X.copy()
        try:
            out = np.asarray(reward.calculate(X.copy()), dtype=float).reshape(T, S)
        except Exception as e:  # noqa: BLE001
            ctx.check(False, "reward-calculate-raised", f"{cls_name}.calculate raised {type(e).__name__}: {e} on a {X.shape} {label} tensor", wit,
                      mon="reward_formula")
            continue
        worst, where, scale_at = 0.0, None, 1.0
        for t in range(T):
            for s in range(S):
                x = [float(z) for z in Xin[t, s]]
                if cls_name == "SimpleSummationReward":
                    exp = math.fsum(x)
                    scale = math.fsum(abs(z) for z in x)
                else:
                    st = x[types.index("stability")]
                    info = x[types.index("information")]
                    sens = x[types.index("sensor")]
                    exp = d * (_sgn(st) + info) - (1.0 - d) * sens
                    scale = abs(d) * (1.0 + abs(info)) + abs(1.0 - d) * abs(sens)
                    if cls_name == "CombinedReward":
                        beh = x[types.index("target")]
                        exp += beh
                        scale += abs(beh)
                e = abs(float(out[t, s]) - exp) / (scale + 1e-300)
                if e > worst:
                    worst, where, scale_at = e, (t, s), scale
        # a handful of roundings of magnitude <= scale each: <= ~P * 1.1e-16 relative to scale; tolerance 1e-12
        key = {"CostConstrainedReward": "cost-constrained-formula", "CombinedReward": "combined-formula", "SimpleSummationReward": "simple-sum-formula"}[cls_name]
        ctx.check(worst <= 1e-12, key, f"{cls_name}{metric_names} delta={d}: reward of pair {where} on the {label} tensor is off the documented formula by "
                  f"{worst:.3e} x scale {scale_at!r}", wit, mon="reward_formula")
        if worst > 0:
            ctx.add_to_set("reward_relerr_log10", str(int(math.floor(math.log10(worst)))))


def run_rewards(ctx, n_cases, reserve_s):
    py = ctx.pyrng("rew")
    g = ctx.rng("rew")
    combos = _reward_combos()
    from resonaate.tasking.metrics import _METRIC_MAPPING

    all_names = sorted(c.__name__ for c in _METRIC_MAPPING.values())
    ctx.note("reward_metric_orderings_total", len(combos))
    for i in range(n_cases):
        if ctx.time_left() < reserve_s:
            break
        j = i * ctx.nshards + ctx.shard
        if i % 4 == 3:
            cls_name = "SimpleSummationReward"
            names = py.sample(all_names, py.randint(1, 6))
        else:
            cls_name, names = combos[(j - j // 4) % len(combos)]
        delta = None if cls_name == "SimpleSummationReward" else py.choice([None, 0.85, 0.0, 1.0, 0.5, py.random(), py.uniform(-1, 2)])
        T, S = py.choice([(1, 1), (1, 4), (5, 1), (3, 3), (2, 5), (6, 4), (py.randint(1, 9), py.randint(1, 9))])
        rw, metrics = _build_reward(cls_name, names, delta)
        types = [str(getattr(mt.metric_type, "value", mt.metric_type)) for mt in metrics]
        M, mkind = gen_M(py, g, T, S, len(names), types)
        check_reward(ctx, cls_name, names, delta, M, mkind)
        ctx.count("reward_cases")
        ctx.add_to_set("reward_combos_seen", f"{cls_name}:{'+'.join(names)}" if cls_name != "SimpleSummationReward" else f"{cls_name}:{len(names)} metrics")
        ctx.case(("w", cls_name, tuple(names), ctx.seed, ctx.shard, i), nontrivial=T * S > 1 and bool(np.any(M)),
                 sample={"reward": {"cls": cls_name, "metrics": names, "delta": delta, "tensor": [T, S, len(names)], "values": mkind}} if i % 97 == 0 else None)


# ---------------------------------------------------------------------------------------------
# a real scenario: every Decision.calculate call and the tasks table
# ---------------------------------------------------------------------------------------------
SCN = [("MunkresDecision", "munkres"), ("MyopicNaiveGreedyDecision", "greedy"), ("AllVisibleDecision", "allvisible"), ("RandomDecision", "random")]
SCN_REWARDS = [("CostConstrainedReward", ("ShannonInformation", "LyapunovStability", "SlewTimeMinimization")),
               ("SimpleSummationReward", ("TimeSinceObservation", "FisherInformation")),
               ("CombinedReward", ("KLDivergence", "LyapunovStability", "SlewDistanceMinimization", "TimeSinceObservation")),
               ("SimpleSummationReward", ("PositionCovarianceTrace", "Range", "SlewTimeMaximization"))]


def check_scenario(ctx, dec_idx, rew_idx, steps, variant=0):
    import sqlite3
    from datetime import datetime, timedelta

    from .. import scenario_kit as sk

    sk.init()
    from resonaate.tasking.decisions.decision_base import Decision
    from resonaate.tasking.rewards.reward_base import Reward

    dec_name, pol = SCN[dec_idx % 4]
    rew_name, metrics = SCN_REWARDS[rew_idx % len(SCN_REWARDS)]
    start = datetime(2021, 3, 30, 16, 0, 0) + timedelta(hours=3 * variant)
    ntg = 6 if variant % 2 == 0 else 4
    tg = [sk.target_cfg(10001 + i, *sk.circ_state(9000.0 + 1500 * i + 200 * variant, 20 + 8 * i, 30.0 + 50 * i, 40.0 + 65 * i + 17 * variant)) for i in range(ntg)]
    sn = [sk.ground_sensor_cfg(20001, 35.0, -106.0), sk.ground_sensor_cfg(20002, -30, 20), sk.ground_sensor_cfg(20003, 10, 120),
          sk.ground_sensor_cfg(20004, 50, 10), sk.space_sensor_cfg(20005, *sk.circ_state(30000, 5, 0, 0), kind="adv_radar" if pol == "allvisible" else "optical")]
    eng = sk.engine_cfg(1, tg, sn, decision=dec_name, reward=rew_name, metrics=metrics,
                        decision_params={"seed": 7 + variant} if pol == "random" else None)
    cfg = sk.scenario_cfg(start, start + timedelta(seconds=120 * steps), 120, [eng], truth_only=False)
    wit0 = {"kind": "scenario", "dec": dec_idx, "rew": rew_idx, "steps": steps, "variant": variant}
    calls = []
    orig_calc, orig_norm = Decision.calculate, Reward.normalizeMetrics

    def calc(self, R, V):
        R_in, V_in = np.array(R, copy=True), np.array(V, copy=True)
        try:
            D = orig_calc(self, R, V)
            ctx.check(R_in.tobytes() == np.asarray(R).tobytes() and V_in.tobytes() == np.asarray(V).tobytes(), f"{pol}-modified-its-input",
                      f"{type(self).__name__}.calculate changed the engine's reward / visibility matrix in place (max reward change {float(np.abs(np.asarray(R, dtype=float) - R_in).max()):.3g})",
                      _wit("decision", pol, R_in, V_in, origin="scenario", scenario=wit0), mon="input_unchanged")
        except Exception as e:  # noqa: BLE001
            ctx.check(False, f"{pol}-raised", f"{type(self).__name__}.calculate raised {type(e).__name__}: {e} inside the engine",
                      _wit("decision", pol, R, V, origin="scenario", scenario=wit0), mon="engine_decision")
            raise
        calls.append((R_in, V_in, np.array(D, copy=True), type(self).__name__))
        return D

    def norm(self, M):
        M0 = np.array(M, copy=True)
        out = orig_norm(self, M)
        for pidx in range(M0.shape[-1]):
            mx = float(M0[..., pidx].max())
            ctx.check(float(out[..., pidx].max()) <= 1.0, "normalized-metric-exceeds-one",
                      f"engine: metric {pidx} has maximum {float(out[..., pidx].max())!r} after normalisation", {**wit0, "M": M0.tolist()}, mon="normalize")
        return out

    b = None
    Decision.calculate, Reward.normalizeMetrics = calc, norm
    try:
        b = sk.build(cfg)
        sk.run_like_cli(b.app, timedelta(seconds=120 * steps))
        eng_obj = next(iter(b.app.tasking_engines.values()))
        tids, sids = list(eng_obj.target_list), list(eng_obj.sensor_list)
        con = sqlite3.connect(b.db_path)
        rows = con.execute("select julian_date, target_id, sensor_id, visibility, reward, decision from tasks order by julian_date").fetchall()
        con.close()
    finally:
        Decision.calculate, Reward.normalizeMetrics = orig_calc, orig_norm
        if b is not None:
            sk.teardown(b)
    nvis = 0
    for k, (R, V, D, cname) in enumerate(calls):
        wit = _wit("decision_given", pol, R, V, D=np.asarray(D).astype(int).tolist(), origin="scenario", scenario=wit0, call=k)
        ctx.check(cname == dec_name, "engine-wrong-policy-class", f"engine configured with {dec_name} called {cname}", wit, mon="engine_decision")
        judge(ctx, pol, R, V, D, wit, site=" (engine call)")
        ctx.mon("engine_decision")
        nvis += int(V.sum())
        ctx.case(("s", dec_idx, rew_idx, variant, k), nontrivial=bool(V.any()))
    # tasks table, re-assembled per epoch
    by_jd: dict = {}
    for jd, tid, sid, vis, rew, dec in rows:
        by_jd.setdefault(jd, []).append((tid, sid, vis, rew, dec))
    # the scenario also stores the (all-zero) tasking state at the start epoch, before any decision was made
    off = len(by_jd) - len(calls)
    ctx.check(off in (0, 1) and len(calls) > 0, "tasks-table-epochs",
              f"{len(calls)} Decision.calculate calls but {len(by_jd)} epochs in the tasks table", wit0, mon="tasks_table")
    for k, jd in enumerate(sorted(by_jd)):
        R = np.zeros((len(tids), len(sids)))
        V = np.zeros((len(tids), len(sids)), dtype=bool)
        D = np.zeros((len(tids), len(sids)), dtype=bool)
        seen = np.zeros((len(tids), len(sids)), dtype=int)
        for tid, sid, vis, rew, dec in by_jd[jd]:
            t, s = tids.index(tid), sids.index(sid)
            R[t, s], V[t, s], D[t, s] = rew, bool(vis), bool(dec)
            seen[t, s] += 1
        wit = _wit("decision_given", pol, R, V, D=D.astype(int).tolist(), origin="tasks_table", scenario=wit0, epoch=k)
        ctx.check(bool((seen == 1).all()), "tasks-table-pair-coverage", f"tasks table epoch {k}: (target, sensor) pairs stored {seen.tolist()} times", wit, mon="tasks_table")
        judge(ctx, pol, R, V, D, wit, site=" (tasks table)")
        if off in (0, 1) and 0 <= k - off < len(calls):
            Rc, Vc, Dc, _ = calls[k - off]
            ctx.check(bool((V == Vc).all() and (D == Dc).all() and np.allclose(R, Rc, rtol=1e-12, atol=0.0)), "tasks-table-differs-from-engine-matrices",
                      f"tasks table epoch {k} does not store the matrices the decision was made from", wit, mon="tasks_table")
    ctx.count("scenario_decision_calls", len(calls))
    ctx.count("scenario_visible_pairs", nvis)
    ctx.sample({"scenario": {"decision": dec_name, "reward": rew_name, "metrics": list(metrics), "steps": steps, "calls": len(calls), "visible_pairs": nvis}})


# ---------------------------------------------------------------------------------------------
def run(ctx):
    import time

    budget = BUDGET_S[ctx.tier]
    t = [time.process_time()]

    def lap(name):
        t.append(time.process_time())
        ctx.count("cpu_s_" + name, round(t[-1] - t[-2], 1))

    # 1. real scenario(s): shard i drives policy i % 4 with reward (i // 4 + i) % 4
    steps = 10 if ctx.quick else 30
    try:
        check_scenario(ctx, ctx.shard % 4, (ctx.shard // 4 + ctx.shard) % 4, steps, variant=ctx.shard // 4 + 4 * (ctx.seed % 3))
    except Exception:  # noqa: BLE001
        import traceback

        ctx.inconclusive_because("scenario workload raised: " + traceback.format_exc()[-900:])
    lap("scenario")
    # 2. rewards
    run_rewards(ctx, ctx.scale(2400, 160_000), reserve_s=budget * 0.8)
    lap("rewards")
    # 3. random larger problems (fixed number of cases)
    run_random(ctx, ctx.scale(2400, 160_000), reserve_s=budget * 0.5)
    lap("random")
    # 4. exhaustive small scope (the heart; fixed plan, must be completed)
    run_exhaustive(ctx)
    lap("exhaustive")


def replay(ctx, w):
    kind = w.get("kind")
    if kind == "reward":
        check_reward(ctx, w["cls"], w["metrics"], w["delta"], np.array(w["M"], dtype=float), w.get("mkind", "?"))
    elif kind == "random_seeded":
        check_random_seeded(ctx, [(np.array(R, dtype=float), np.array(V, dtype=bool)) for R, V in w["problems"]], w["seed"])
    elif kind == "scenario":
        check_scenario(ctx, w["dec"], w["rew"], w["steps"], w.get("variant", 0))
    elif kind == "relabel":
        R, V = _from_wit(w)
        check_relabel(ctx, w["policy"], R, V, w["p"], w["q"], generic=w.get("generic", False), seed=w.get("seed", 0))
    elif kind == "decision_given":
        if w.get("origin") in ("scenario", "tasks_table") and "scenario" in w:
            check_scenario(ctx, w["scenario"]["dec"], w["scenario"]["rew"], w["scenario"]["steps"], w["scenario"].get("variant", 0))
        else:
            R, V = _from_wit(w)
            if w.get("D") is not None:
                judge(ctx, w["policy"], R, V, np.array(w["D"], dtype=bool), w)   # the recorded decision
            check_decision(ctx, w["policy"], R, V, seed=w.get("seed", 0))         # and the current tree's decision
    else:
        R, V = _from_wit(w)
        check_decision(ctx, w["policy"], R, V, seed=w.get("seed", 0))
