"""C01 - every scheduled event takes effect exactly once, at its configured time.

Real ``Scenario`` objects (library factory, ray stand-in for the executor) are stepped while
wrappers log every ``handleEvent`` delivery, every physical application of an impulse, the
time-bias queue each sensor carries into tasking, the reward matrix each engine hands to its
decision, and agent membership.  The offline checker compares the log with integer-arithmetic
expectations (refs/timeref) and with a closed-form trajectory (refs/keplerref).
"""

from __future__ import annotations

import math
from datetime import datetime, timedelta

import numpy as np

from ..refs import keplerref as kep

LEVEL = "exploration"
RULE = ("case = (start instant, step, number of steps, event list); start instants: whole minutes, arbitrary seconds, dyadic "
        "day fractions (06:00, 12:00, 18:00, 12:45 ...), just before midnight/year end; steps from {2,5,10,30,60,100,300,600,3600}; "
        "event times k*step (emphasis), k*step +- 1 s, arbitrary; all event kinds. A case is non-trivial when at least one event "
        "lies exactly on a step boundary and its step was executed; distinct = distinct (start, step, events) tuple")
ASSUME = ["ray stand-in: a remote job is a pure function of its pickled submission (rvmon/shimray.py)",
          "integer calendar arithmetic (refs/timeref) and closed-form two-body propagation (refs/keplerref) are the reference",
          "a Julian date resolves ~40 us: the *delivery step* and the *number of applications* are asserted, not the velocity at the boundary epoch itself"]
SHARDS = {"quick": 8, "thorough": 16}
BUDGET_S = {"quick": 100, "thorough": 1300}
DECIDING = ["delivery_once", "delivery_step", "delivery_addressee", "impulse_applied_once", "truth_trajectory", "membership",
            "duration_active_steps", "time_bias_queue", "time_bias_at_use", "priority_effect", "priority_effect_nontrivial"]
MANIFEST = {
    "technique": "runtime monitoring: delivery/application event log of real Scenario runs checked offline against integer-time expectations and a closed-form trajectory",
    "level_text": "held on every executed (start, step, event-time) configuration: each event delivered exactly once, in the step whose (prev, new] interval holds it, to its addressee; each impulse changes truth (and planned estimate) velocity exactly once; duration events active in exactly the overlapping steps for the named engine/sensor",
    "level_note": "executor replaced by the deterministic ray stand-in; sampled configuration space biased to step-aligned events and dyadic Julian dates",
}

STEPS = [2, 5, 10, 30, 60, 100, 300, 600, 3600]
T_IDS = (10001, 10002, 10003, 10004)  # T1,T2 in engine 1; T3 (removable) and T4 in engine 2
S_IDS = (20001, 20002, 20003)  # S1 in engine 1; S2 (removable) and S3 in engine 2
NEW_T, NEW_S = 10009, 20009


def _start(rng):
    r = rng.random()
    y = rng.choice([2015, 2016, 2018, 2019, 2020, 2021])
    if r < 0.30:  # dyadic day fractions: Julian-date arithmetic exact
        h, m = rng.choice([(0, 0), (6, 0), (12, 0), (18, 0), (12, 45), (3, 0), (9, 0), (15, 0), (21, 0), (1, 30), (13, 30), (22, 30)])
        return datetime(y, rng.randrange(1, 13), rng.randrange(1, 28), h, m, 0)
    if r < 0.55:
        return datetime(y, rng.randrange(1, 13), rng.randrange(1, 28), rng.randrange(24), rng.randrange(60), 0)
    if r < 0.9:
        return datetime(y, rng.randrange(1, 13), rng.randrange(1, 28), rng.randrange(24), rng.randrange(60), rng.randrange(60))
    return datetime(rng.choice([2016, 2019, 2020]), 12, 31, 23, rng.randrange(50, 60), rng.randrange(60))


def _etime(rng, step, n):
    """Event offset in seconds, inside (0, n*step]."""
    r = rng.random()
    k = rng.randrange(1, n + 1)
    if r < 0.6:
        off = k * step
    elif r < 0.8 and step > 2:
        off = k * step + rng.choice([-1, 1])
    else:
        off = rng.randrange(1, n * step + 1)
    return min(max(off, 1), n * step)


def gen_case(rng):
    step = rng.choice(STEPS)
    n = rng.randrange(3, 11) if step < 3600 else rng.randrange(3, 6)
    start = _start(rng)
    if rng.random() < 0.1:
        start = start.replace(microsecond=rng.choice([500000, 250000, 750000, 123456]))  # a start between two seconds
    events = []
    nev = rng.randrange(1, 6)
    used_removal = False
    added = set()
    same_step = rng.random() < 0.3
    base_off = _etime(rng, step, n)
    for _ in range(nev):
        off = base_off if same_step and rng.random() < 0.7 else _etime(rng, step, n)
        kind = rng.choice(["impulse", "impulse", "impulse", "target_addition", "sensor_addition", "agent_removal", "task_priority", "task_priority", "sensor_time_bias"])
        if kind == "impulse":
            dv = [rng.choice([-1, 1]) * rng.uniform(2e-3, 2e-2) for _ in range(3)]
            # a quarter of the impulses carry a fractional second (0.25 / 0.5 / 0.75 s after a whole second, incl. right after a boundary)
            frac = rng.choice([0.25, 0.5, 0.75]) if rng.random() < 0.25 and off < n * step else 0.0
            events.append({"kind": "impulse", "off": off + frac, "target": rng.choice(T_IDS[:2]), "frame": rng.choice(["eci", "ntw"]), "planned": rng.random() < 0.5, "dv": dv})
        elif kind == "target_addition" and NEW_T not in added:
            added.add(NEW_T)
            events.append({"kind": "target_addition", "off": off, "engine": rng.choice([1, 2])})
        elif kind == "sensor_addition" and NEW_S not in added:
            added.add(NEW_S)
            events.append({"kind": "sensor_addition", "off": off, "engine": rng.choice([1, 2]), "platform": rng.choice(["ground", "space", "space"])})
        elif kind == "agent_removal" and not used_removal:
            used_removal = True
            which = rng.choice(["target", "sensor"])
            events.append({"kind": "agent_removal", "off": off, "agent_type": which, "agent": T_IDS[2] if which == "target" else S_IDS[1], "engine": 2})
        elif kind == "task_priority":
            dur_steps = rng.randrange(1, n + 1)
            end = min(off + dur_steps * step if rng.random() < 0.7 else off + rng.randrange(1, dur_steps * step + 1), (n + 2) * step)
            eng = rng.choice([1, 2])
            events.append({"kind": "task_priority", "off": off, "end": end, "engine": eng, "target": T_IDS[0] if eng == 1 else T_IDS[2], "priority": rng.choice([2.0, 3.5, 10.0])})
        elif kind == "sensor_time_bias":
            j = rng.randrange(math.ceil(off / step), n + 2)
            end = max(j * step, off)  # ends on a step boundary: both readings of "overlap" coincide
            events.append({"kind": "sensor_time_bias", "off": off, "end": end, "sensor": rng.choice(S_IDS), "bias": rng.choice([0.5, 1.0, -0.5])})
    # a manoeuvre of the satellite that joins by an event: in the step in which it joins (after the joining instant) or later
    add_ev = next((e for e in events if e["kind"] == "target_addition"), None)
    if add_ev is not None and rng.random() < 0.6:
        k_add = int(math.ceil(add_ev["off"] / step))
        room = k_add * step - add_ev["off"]           # seconds left in the joining step
        r = rng.random()
        if r < 0.5:
            off = add_ev["off"] + (rng.randrange(0, room + 1) if room > 0 else 0)      # same step (incl. the joining instant and the step end)
        elif r < 0.7 and k_add < n:
            off = k_add * step + rng.choice([1, step // 2 or 1, step])                # the step after
        else:
            off = rng.randrange(add_ev["off"], n * step + 1)
        off = min(max(off, add_ev["off"]), n * step)
        events.append({"kind": "impulse", "off": off, "target": NEW_T, "frame": rng.choice(["eci", "ntw"]), "planned": rng.random() < 0.5,
                       "dv": [rng.choice([-1, 1]) * rng.uniform(2e-3, 2e-2) for _ in range(3)]})
    if not events:
        events.append({"kind": "impulse", "off": base_off, "target": T_IDS[0], "frame": "eci", "planned": True, "dv": [0.01, -0.005, 0.004]})
    # a task priority for a target that gets removed would index a missing row: keep priorities on T3 only if T3 is never removed
    if any(e["kind"] == "agent_removal" and e["agent_type"] == "target" for e in events):
        events = [e for e in events if not (e["kind"] == "task_priority" and e["target"] == T_IDS[2])] or events[:1]
    # a time bias addressed to a sensor that has been removed is an invalid scenario, not a subject of the property
    if any(e["kind"] == "agent_removal" and e["agent_type"] == "sensor" for e in events):
        events = [e for e in events if not (e["kind"] == "sensor_time_bias" and e["sensor"] == S_IDS[1])] or events[:1]
    return {"kind": "case", "start": start.isoformat(), "step": step, "n": n, "events": events, "model": rng.choice(["two_body"] * 4 + ["special_perturbations"]),
            "aware_times": rng.random() < 0.5, "visible": rng.random() < 0.5, "engine_ids": rng.choice([[1, 2], [0, 7], [7, 0], [5, 0], [0, 1], [12, 3]]),
            # names are free-form labels: the satellite / sensor that joins by an event may carry the name of an agent already present
            "dup_names": rng.random() < 0.35,
            # output written every m-th step: when an event takes effect does not depend on the output cadence
            "out_mult": rng.choice([1, 1, 1, 2, 3]),
            # the configured stop instant is the end of the last executed step (events on the final epoch are inside the span)
            "stop_at_last_step": rng.random() < 0.35}


# ---------------------------------------------------------------------------------------------
SITE1 = (35.0, -106.0)


def _initial_states(case=None):
    from .. import scenario_kit as sk

    out = {}
    for tid, (a, inc, raan, u) in zip(T_IDS + (NEW_T,), [(7000.0, 51.6, 30.0, 40.0), (7400.0, 28.0, 100.0, 200.0), (26600.0, 55.0, 10.0, 300.0), (7900.0, 74.0, 190.0, 20.0), (7150.0, 98.0, 250.0, 120.0)]):
        out[tid] = np.concatenate(sk.circ_state(a, inc, raan, u))
    if case is not None and case.get("visible"):
        # T1 starts at the zenith of site 1 (ECEF->ECI rotation taken from the repository; its
        # correctness is C04's subject) on a circular orbit heading north-east.
        from resonaate.physics.transforms.methods import ecef2eci

        sk.init()
        lat, lon = (math.radians(x) for x in SITE1)
        up = np.array([math.cos(lat) * math.cos(lon), math.cos(lat) * math.sin(lon), math.sin(lat)])
        east = np.array([-math.sin(lon), math.cos(lon), 0.0])
        north = np.cross(up, east)
        r = 7000.0
        start = datetime.fromisoformat(case["start"])
        xe = ecef2eci(np.concatenate([r * up, np.zeros(3)]), start)
        de = ecef2eci(np.concatenate([(north + east) / math.sqrt(2), np.zeros(3)]), start)[:3]
        rhat = xe[:3] / np.linalg.norm(xe[:3])
        that = de - np.dot(de, rhat) * rhat
        that /= np.linalg.norm(that)
        out[T_IDS[0]] = np.concatenate([r * rhat, math.sqrt(kep.MU / r) * that])
    return out


def build_cfg(case):
    from .. import scenario_kit as sk

    start = datetime.fromisoformat(case["start"])
    step, n = case["step"], case["n"]
    X0 = _initial_states(case)
    tcfg = {tid: sk.target_cfg(tid, X0[tid][:3], X0[tid][3:]) for tid in X0}
    # sensors that can practically never observe (elevation mask 89..90 deg): estimates are pure predictions
    blind = {"elevation_range": [89.0, 89.99999]}
    s1 = sk.ground_sensor_cfg(S_IDS[0], SITE1[0], SITE1[1], **({} if case.get("visible") else blind))
    s2 = sk.ground_sensor_cfg(S_IDS[1], -20.0, 140.0, **blind)
    s3 = sk.ground_sensor_cfg(S_IDS[2], 10.0, -60.0, **blind)
    snew = sk.ground_sensor_cfg(NEW_S, 50.0, 10.0, **blind)
    rs, vs = sk.circ_state(7300.0, 63.0, 200.0, 10.0)
    snew_space = sk.space_sensor_cfg(NEW_S, rs, vs, kind="optical")
    if case.get("dup_names"):
        tcfg[NEW_T]["name"] = tcfg[T_IDS[0]]["name"]
        snew["name"] = snew_space["name"] = s1["name"]
    eid = {1: case.get("engine_ids", [1, 2])[0], 2: case.get("engine_ids", [1, 2])[1]}
    engines = [sk.engine_cfg(eid[1], [tcfg[T_IDS[0]], tcfg[T_IDS[1]]], [s1]), sk.engine_cfg(eid[2], [tcfg[T_IDS[2]], tcfg[T_IDS[3]]], [s2, s3])]
    evs = []
    for e in case["events"]:
        t = start + timedelta(seconds=e["off"])
        if e["kind"] == "impulse":
            evs.append({"scope": "agent_propagation", "scope_instance_id": e["target"], "start_time": sk.iso(t), "event_type": "impulse",
                        "thrust_vector": e["dv"], "thrust_frame": e["frame"], "planned": e["planned"]})
        elif e["kind"] == "target_addition":
            evs.append({"scope": "scenario_step", "scope_instance_id": 0, "start_time": sk.iso(t), "event_type": "target_addition",
                        "tasking_engine_id": eid[e["engine"]], "target_agent": tcfg[NEW_T]})
        elif e["kind"] == "sensor_addition":
            evs.append({"scope": "scenario_step", "scope_instance_id": 0, "start_time": sk.iso(t), "event_type": "sensor_addition",
                        "tasking_engine_id": eid[e["engine"]], "sensor_agent": snew if e.get("platform", "ground") == "ground" else snew_space})
        elif e["kind"] == "agent_removal":
            evs.append({"scope": "scenario_step", "scope_instance_id": 0, "start_time": sk.iso(t), "event_type": "agent_removal",
                        "tasking_engine_id": eid[e["engine"]], "agent_id": e["agent"], "agent_type": e["agent_type"]})
        elif e["kind"] == "task_priority":
            evs.append({"scope": "task_reward_generation", "scope_instance_id": eid[e["engine"]], "start_time": sk.iso(t),
                        "end_time": sk.iso(start + timedelta(seconds=e["end"])), "event_type": "task_priority",
                        "target_id": e["target"], "target_name": f"T{e['target']}", "priority": e["priority"]})
        elif e["kind"] == "sensor_time_bias":
            evs.append({"scope": "observation_generation", "scope_instance_id": e["sensor"], "start_time": sk.iso(t),
                        "end_time": sk.iso(start + timedelta(seconds=e["end"])), "event_type": "sensor_time_bias", "applied_bias": e["bias"]})
    if case.get("aware_times"):
        # event times written the way the shipped JSON configs write them: ISO strings with an explicit UTC designator
        for ev in evs:
            for key in ("start_time", "end_time"):
                if key in ev:
                    ev[key] = ev[key] + "Z"
    cfg = sk.scenario_cfg(start, start + timedelta(seconds=(n if case.get("stop_at_last_step") else n + 2) * step), step, engines, truth_only=False, model=case.get("model", "two_body"),
                          filter_model="two_body", events=evs, seed=7, output_step=step * case.get("out_mult", 1))
    return cfg


class Log:
    def __init__(self):
        self.step = 0
        self.deliveries = []  # (event_id, event_type, scope_instance_id, receiver_kind, receiver_id, step)
        self.applications = []  # (job func, agent_id, impulse time, at integration time)
        self.bias_queue = {}  # step -> {sensor_id: [event ids]}
        self.bias_at_use = {}  # step -> {sensor_id: {event ids}} seen by the task-execution jobs
        self.reward_seen = {}  # (step, engine_id) -> (reward passed to decision, base reward, target_list)
        self.membership = {}  # step -> dict
        self.current_job = None


def _install(log: Log):
    """Attach the monitors (class-level wrappers; undone by _uninstall)."""
    from resonaate.agents.sensing_agent import SensingAgent
    from resonaate.data import events as evmod
    from resonaate.dynamics.integration_events import scheduled_impulse as si
    from resonaate.tasking.engine.centralized_engine import CentralizedTaskingEngine

    from .. import shimray

    undo = []

    def wrap_handle(cls):
        orig = cls.handleEvent

        def handleEvent(self, scope_instance):
            if hasattr(scope_instance, "simulation_id"):
                rk, rid = type(scope_instance).__name__, scope_instance.simulation_id
            elif hasattr(scope_instance, "unique_id"):
                rk, rid = "engine", scope_instance.unique_id
            else:
                rk, rid = type(scope_instance).__name__, 0
            log.deliveries.append((self.id, self.event_type, self.scope_instance_id, rk, rid, log.step))
            return orig(self, scope_instance)

        cls.handleEvent = handleEvent
        undo.append((cls, "handleEvent", orig))

    for cls in (evmod.ScheduledImpulseEvent, evmod.TargetAdditionEvent, evmod.SensorAdditionEvent, evmod.AgentRemovalEvent,
                evmod.TargetTaskPriority, evmod.SensorTimeBiasEvent, evmod.ScheduledFiniteBurnEvent, evmod.ScheduledFiniteManeuverEvent):
        wrap_handle(cls)

    for cls in (si.ScheduledECIImpulse, si.ScheduledNTWImpulse):
        orig = cls.getStateChange

        def getStateChange(self, time, state, _orig=orig):
            log.applications.append((log.current_job, self.agent_id, float(self.time), float(time)))
            return _orig(self, time, state)

        cls.getStateChange = getStateChange
        undo.append((cls, "getStateChange", orig))

    orig_prune = SensingAgent.pruneTimeBiasEvents

    def pruneTimeBiasEvents(self):
        orig_prune(self)
        log.bias_queue.setdefault(log.step, {})[self.simulation_id] = [e.id for e in self.sensor_time_bias_event_queue]

    SensingAgent.pruneTimeBiasEvents = pruneTimeBiasEvents
    undo.append((SensingAgent, "pruneTimeBiasEvents", orig_prune))

    # ... and at the point of use: the sensor copy a task-execution job works on (fetched from the object store)
    from resonaate.sensors.sensor_base import Sensor

    orig_collect = Sensor.collectObservations

    def collectObservations(self, *a, **kw):
        host = self.host
        log.bias_at_use.setdefault(log.step, {}).setdefault(int(host.simulation_id), set()).update(e.id for e in host.sensor_time_bias_event_queue)
        return orig_collect(self, *a, **kw)

    Sensor.collectObservations = collectObservations
    undo.append((Sensor, "collectObservations", orig_collect))

    orig_gen = CentralizedTaskingEngine.generateTasking

    def generateTasking(self):
        base = self.reward.calculate(self.reward.normalizeMetrics(self.metric_matrix)).reshape(self.num_targets, self.num_sensors)
        log.reward_seen[(log.step, self.unique_id)] = (np.array(self.reward_matrix, dtype=float), np.array(base, dtype=float), list(self.target_list))
        return orig_gen(self)

    CentralizedTaskingEngine.generateTasking = generateTasking
    undo.append((CentralizedTaskingEngine, "generateTasking", orig_gen))

    def on_job(name, serial, args):
        log.current_job = name

    def after_job(name, serial, ref):
        log.current_job = None

    shimray.STATE.on_job = on_job
    shimray.STATE.after_job = after_job
    return undo


def _uninstall(undo):
    from .. import shimray

    for cls, name, orig in undo:
        setattr(cls, name, orig)
    shimray.STATE.on_job = None
    shimray.STATE.after_job = None


def _ntw_dv(x, dv):
    t = x[3:] / np.linalg.norm(x[3:])
    w = np.cross(x[:3], x[3:])
    w = w / np.linalg.norm(w)
    n = np.cross(t, w)
    return dv[0] * n + dv[1] * t + dv[2] * w


def _ref_truth(x0, impulses, t_final):
    """Closed-form two-body trajectory with the impulses applied once at their exact times."""
    x, t = np.array(x0, dtype=float), 0.0
    for off, frame, dv in sorted(impulses, key=lambda z: z[0]):
        if off > t_final:
            break
        if off > t:
            x = kep.propagate(x, off - t)
            t = float(off)
        d = np.array(dv, dtype=float)
        x = x + np.concatenate([np.zeros(3), d if frame == "eci" else _ntw_dv(x, d)])
    if t_final > t:
        x = kep.propagate(x, t_final - t)
    return x


def eval_case(ctx, case):
    from .. import scenario_kit as sk

    sk.init()
    step, n = case["step"], case["n"]
    events = case["events"]
    EID = {1: case.get("engine_ids", [1, 2])[0], 2: case.get("engine_ids", [1, 2])[1]}
    log = Log()
    cfg = build_cfg(case)
    b = sk.build(cfg)
    undo = _install(log)
    wit = case
    failed_run = None
    try:
        app = b.app
        import sqlite3

        for k in range(1, n + 1):
            log.step = k
            app.stepForward()
            log.membership[k] = {
                "targets": sorted(app.target_agents), "estimates": sorted(app.estimate_agents), "sensors": sorted(app.sensor_agents),
                "engines": {eid: (list(e.target_list), list(e.sensor_list)) for eid, e in app.tasking_engines.items()},
            }
        final_truth = {tid: np.array(a.eci_state, dtype=float) for tid, a in app.target_agents.items()}
        final_est = {tid: np.array(a.eci_state, dtype=float) for tid, a in app.estimate_agents.items()}
        con = sqlite3.connect(b.db_path)
        rows = con.execute("select id, event_type, scope_instance_id, start_time_jd, end_time_jd from events order by id").fetchall()
        con.close()
    except Exception as e:  # noqa: BLE001
        import traceback

        tb = traceback.extract_tb(e.__traceback__)
        inner = [f for f in tb if "/resonaate/" in f.filename]
        where = f"{inner[-1].filename.split('/resonaate/')[-1]}:{inner[-1].name}" if inner else "harness"
        failed_key = f"run-raised-{type(e).__name__}-{where}"
        failed_run = f"{type(e).__name__}: {e} :: {traceback.format_exc()[-600:]}"
    finally:
        _uninstall(undo)
        sk.teardown(b)
    if failed_run is not None:
        ctx.check(False, failed_key, f"scenario run raised {failed_run}", wit, mon="delivery_once")
        return False

    # ---- map event rows to case events (same order after sorting by start time; ties keep config order)
    order = sorted(range(len(events)), key=lambda i: events[i]["off"])
    if len(rows) < len(events):
        # every generated event lies inside the simulated span (after the start, up to and including the last step): one that is
        # not stored can never be delivered
        ctx.check(False, "configured-event-not-stored", f"{len(events)} events are configured inside the simulated span (offsets {sorted(e['off'] for e in events)} s, last step ends at {n * step} s, "
                  f"configured stop {'= last step' if case.get('stop_at_last_step') else '> last step'}) but the scenario's events table holds {len(rows)}", wit, mon="delivery_once")
        return False
    if len(rows) != len(events):
        ctx.inconclusive_because(f"events table holds {len(rows)} rows for {len(events)} configured events")
        return False
    row_of = {}
    for pos, i in enumerate(order):
        row_of[i] = rows[pos][0]
    has_boundary = False
    t_final = n * step

    def kstar(off):
        return int(math.ceil(off / step - 1e-12))

    removed_targets = {e["agent"]: kstar(e["off"]) for e in events if e["kind"] == "agent_removal" and e["agent_type"] == "target"}
    for i, e in enumerate(events):
        rid = row_of[i]
        dl = [d for d in log.deliveries if d[0] == rid]
        ks = kstar(e["off"])
        on_boundary = e["off"] % step == 0
        has_boundary = has_boundary or on_boundary
        tag = "boundary" if on_boundary else "interior"
        if e["kind"] in ("impulse", "target_addition", "sensor_addition", "agent_removal"):
            want_n = 2 if (e["kind"] == "impulse" and e["planned"]) else 1
            truth_dl = [d for d in dl if d[3] != "EstimateAgent"]
            ctx.check(len(truth_dl) == 1 and len(dl) == want_n, f"delivery-count-{e['kind']}-{tag}",
                      f"{e['kind']} at +{e['off']}s (step {step}s, start {case['start']}) delivered {len(truth_dl)} time(s) (all receivers: {len(dl)}, expected {want_n}) in steps {[d[5] for d in dl]}; expected step {ks}",
                      wit, mon="delivery_once")
            if dl:
                ctx.check(all(d[5] == ks for d in dl), f"delivery-step-{e['kind']}-{tag}",
                          f"{e['kind']} at +{e['off']}s delivered in step(s) {[d[5] for d in dl]}, expected {ks}", wit, mon="delivery_step")
            if e["kind"] == "impulse":
                ok = all((d[3] in ("TargetAgent", "EstimateAgent") and d[4] == e["target"]) for d in dl)
                ctx.check(ok, "delivery-addressee-impulse", f"impulse for target {e['target']} handed to {[(d[3], d[4]) for d in dl]}", wit, mon="delivery_addressee")
            else:
                ctx.check(all(d[3] == "Scenario" for d in dl), "delivery-addressee-scenario", f"{e['kind']} handed to {[(d[3], d[4]) for d in dl]}", wit, mon="delivery_addressee")
        elif e["kind"] == "task_priority":
            want_steps = [k for k in range(1, n + 1) if e["off"] <= k * step and e["end"] > (k - 1) * step]
            if e["target"] in removed_targets:
                want_steps = [k for k in want_steps if k < removed_targets[e["target"]]]
            got = sorted(d[5] for d in dl)
            ctx.check(all(d[3] == "engine" and d[4] == EID[e["engine"]] for d in dl), "delivery-addressee-priority",
                      f"task priority for engine {EID[e['engine']]} delivered to {sorted(set((d[3], d[4]) for d in dl))}", wit, mon="delivery_addressee")
            mine = sorted(d[5] for d in dl if d[4] == EID[e["engine"]])
            ctx.check(mine == want_steps, f"duration-steps-priority-{tag}", f"task priority [{e['off']},{e['end']}]s active in steps {mine}, expected {want_steps} (step {step}s)", wit, mon="duration_active_steps")
            _ = got
        elif e["kind"] == "sensor_time_bias":
            ctx.check(all(d[4] == e["sensor"] for d in dl), "delivery-addressee-timebias", f"time bias for sensor {e['sensor']} delivered to {sorted(set((d[3], d[4]) for d in dl))}", wit, mon="delivery_addressee")
            want_steps = [k for k in range(1, n + 1) if e["off"] <= k * step <= e["end"]]
            got_steps = sorted(k for k, q in log.bias_queue.items() if rid in q.get(e["sensor"], []))
            other = sorted((k, s) for k, q in log.bias_queue.items() for s, ids in q.items() if s != e["sensor"] and rid in ids)
            ctx.check(got_steps == want_steps and not other, f"timebias-queue-{tag}",
                      f"time bias [{e['off']},{e['end']}]s on sensor {e['sensor']} carried into tasking in steps {got_steps}, expected {want_steps}; other sensors: {other}", wit, mon="time_bias_queue")
            for k, per in sorted(log.bias_at_use.items()):
                if e["sensor"] in per:
                    ctx.check((rid in per[e["sensor"]]) == (k in want_steps), f"timebias-at-point-of-use-{tag}",
                              f"step {k}: the task-execution job of sensor {e['sensor']} {'carried' if rid in per[e['sensor']] else 'did not carry'} the time bias [{e['off']},{e['end']}]s "
                              f"(active steps {want_steps})", wit, mon="time_bias_at_use")

    # ---- impulses: number of physical applications and resulting trajectory -------------------
    X0 = _initial_states(case)
    for tid in T_IDS[:2] + (NEW_T,):
        imps = [e for e in events if e["kind"] == "impulse" and e["target"] == tid]
        if not imps:
            continue
        if tid == NEW_T:
            ctx.count("impulses_on_a_target_that_joined_by_event", len(imps))
            ctx.count("impulses_in_the_joining_step", sum(1 for e in imps if any(z["kind"] == "target_addition" and kstar(z["off"]) == kstar(e["off"]) for z in events)))
        for e in imps:
            last = e["off"] == t_final  # applied within +-40us of the final epoch: either side is legitimate
            napp_truth = [a for a in log.applications if a[0] == "asyncPropagate" and a[1] == tid and abs(a[2] - e["off"]) < 1e-3]
            napp_est = [a for a in log.applications if a[0] == "asyncPredict" and a[1] == tid and abs(a[2] - e["off"]) < 1e-3]
            same_time = sum(1 for z in imps if z["off"] == e["off"])
            tagb = "boundary" if e["off"] % step == 0 else "interior"
            if not last:
                ctx.check(len(napp_truth) == same_time, f"impulse-applications-truth-{tagb}" if same_time == 1 else ("impulse-lost-simultaneous-same-target" if len(napp_truth) < same_time else "impulse-extra-simultaneous-same-target"),
                          f"impulse at +{e['off']}s on target {tid} changed the truth velocity {len(napp_truth)} time(s) (expected {same_time}); application times {[a[3] for a in napp_truth]}", wit, mon="impulse_applied_once")
                want_est = sum(1 for z in imps if z["off"] == e["off"] and z["planned"])
                ctx.check(len(napp_est) == want_est, f"impulse-applications-estimate-{tagb}" if same_time == 1 else ("impulse-lost-simultaneous-same-target" if len(napp_est) < want_est else "impulse-extra-simultaneous-same-target"),
                          f"planned impulse at +{e['off']}s on target {tid} changed the estimate {len(napp_est)} time(s) (expected {want_est})", wit, mon="impulse_applied_once")
            else:
                ctx.check(len(napp_truth) <= same_time, "impulse-applications-truth-final", f"impulse at the final epoch applied {len(napp_truth)} times", wit, mon="impulse_applied_once")
        if tid == NEW_T:
            continue  # joined during the run: deliveries and application counts decide (no reference trajectory from the epoch)
        if case.get("model", "two_body") != "two_body":
            continue  # perturbed truth: no closed form; the application counter above decides
        if len({e["off"] for e in imps}) != len(imps):
            continue  # simultaneous impulses on one target: judged by the application counter above
        if any(e["off"] == t_final for e in imps):
            continue  # trajectory comparison would depend on which side of the final epoch the impulse landed
        ref = _ref_truth(X0[tid], [(e["off"], e["frame"], e["dv"]) for e in imps], t_final)
        got = final_truth.get(tid)
        if got is None:
            continue
        span = max(t_final, 1.0)
        tol_r = 2e-6 + 2e-9 * span * 8.0
        tol_v = 2e-8 + 5e-12 * span * 8.0
        dr, dv_ = np.linalg.norm(got[:3] - ref[:3]), np.linalg.norm(got[3:] - ref[3:])
        ctx.check(dr <= tol_r and dv_ <= tol_v, "truth-trajectory",
                  f"truth of target {tid} after {n} steps differs from the closed form with each delta-v applied once: |dr|={dr:.3e} km |dv|={dv_:.3e} km/s (impulses at {[e['off'] for e in imps]})", wit, mon="truth_trajectory")
        planned = [e for e in imps if e["planned"]]
        unplanned = [e for e in imps if not e["planned"]]
        if tid in final_est and not unplanned and not case.get("visible"):
            de = np.linalg.norm(final_est[tid][3:] - got[3:])
            # a dropped or doubled planned impulse leaves the estimate one full delta-v (>= 3.4e-3 km/s) away from truth;
            # the free-running prediction error (initial 1e-6 km/s, growing with the span) stays far below a quarter of that
            min_dv = min(float(np.linalg.norm(e["dv"])) for e in planned) if planned else 1.0
            if t_final > 20000:
                continue
            ctx.check(de <= 0.25 * min_dv, "estimate-follows-planned", f"estimate of target {tid} differs from truth by {de:.3e} km/s after planned impulses {[e['off'] for e in planned]}", wit, mon="truth_trajectory")

    # ---- membership ------------------------------------------------------------------------------
    for k in range(1, n + 1):
        exp_t = set(T_IDS)
        exp_s = set(S_IDS)
        eng_t = {1: {T_IDS[0], T_IDS[1]}, 2: {T_IDS[2], T_IDS[3]}}
        eng_s = {1: {S_IDS[0]}, 2: {S_IDS[1], S_IDS[2]}}
        for e in sorted(events, key=lambda z: z["off"]):
            if kstar(e["off"]) > k:
                continue
            if e["kind"] == "target_addition":
                exp_t.add(NEW_T)
                eng_t[e["engine"]].add(NEW_T)
            elif e["kind"] == "sensor_addition":
                exp_s.add(NEW_S)
                eng_s[e["engine"]].add(NEW_S)
            elif e["kind"] == "agent_removal":
                if e["agent_type"] == "target":
                    exp_t.discard(e["agent"])
                    eng_t[e["engine"]].discard(e["agent"])
                else:
                    exp_s.discard(e["agent"])
                    eng_s[e["engine"]].discard(e["agent"])
        m = log.membership[k]
        ok = set(m["targets"]) == exp_t and set(m["estimates"]) == exp_t and set(m["sensors"]) == exp_s
        ok = ok and all(set(m["engines"][EID[i]][0]) == eng_t[i] and set(m["engines"][EID[i]][1]) == eng_s[i] for i in (1, 2))
        ctx.check(ok, "membership", f"after step {k}: targets {m['targets']} sensors {m['sensors']} engines {m['engines']}; expected targets {sorted(exp_t)} sensors {sorted(exp_s)} engines {eng_t} {eng_s}", wit, mon="membership")

    # ---- priority effect on the reward matrix handed to the decision --------------------------------
    for (k, eid), (seen, base, tlist) in log.reward_seen.items():
        factor = np.ones(len(tlist))
        for e in events:
            if e["kind"] == "task_priority" and EID[e["engine"]] == eid and e["target"] in tlist and e["off"] <= k * step and e["end"] > (k - 1) * step:
                factor[tlist.index(e["target"])] *= e["priority"]
        want = base * factor[:, None]
        active = bool(np.any(factor != 1.0))
        ok = np.allclose(seen, want, rtol=1e-12, atol=1e-15)
        nontriv = bool(np.any(base != 0.0))
        if active and nontriv:
            ctx.mon("priority_effect_nontrivial")
        if active:
            ctx.check(ok or not nontriv, "priority-no-effect" if np.allclose(seen, base) else "priority-wrong-scale",
                      f"step {k} engine {eid}: active task priority factors {factor.tolist()} but the reward matrix given to the decision is {seen.tolist()} (unscaled rewards {base.tolist()})", wit, mon="priority_effect")
        else:
            ctx.check(ok, "priority-leak", f"step {k} engine {eid}: no priority active but reward matrix {seen.tolist()} != {base.tolist()}", wit, mon="priority_effect")
    ctx.note("example_delivery_log", [list(map(str, d)) for d in log.deliveries[:6]])
    return has_boundary


def run(ctx):
    rng = ctx.pyrng("c01")
    n = ctx.scale(240, 30_000)
    for i in range(n):
        if ctx.time_left() < 8:
            break
        case = gen_case(rng)
        hb = eval_case(ctx, case)
        key = (case["start"], case["step"], case["n"], tuple((e["kind"], e["off"]) for e in case["events"]))
        ctx.case(key, nontrivial=bool(hb), sample={"start": case["start"], "step": case["step"], "n": case["n"], "events": [(e["kind"], e["off"]) for e in case["events"]]} if i % 20 == 0 else None)
        for e in case["events"]:
            ctx.count("events_" + e["kind"])


def replay(ctx, w):
    eval_case(ctx, w)
