"""C19 - imported ephemerides/observations are used faithfully; importer stays read-only.

Importer databases are *produced by the library itself* (a truth + observation Scenario run), then
edited with plain ``sqlite3`` (supersets with unrelated agents, subsets, a gap at an arbitrary
(agent, epoch), a missing epoch).  A second real Scenario then runs with imported targets and/or
sensors while monitors compare every imported agent's state with the importer rows (read with
``sqlite3``), watch the exception on gaps, record which observations reach each filter update, and
compare the importer file (bytes and logical dump) before and after.
"""

from __future__ import annotations

import hashlib
import json
import os
import shutil
import sqlite3
import struct
from datetime import datetime, timedelta

import numpy as np

from .. import netkit

LEVEL = "exploration"
RULE = ("case = (producer network, importer edit in {exact, superset(1..50 unrelated agents), gap at (agent, epoch), missing epoch, gap+superset}, which "
        "agents are imported in {targets, sensors, both}, imported observations on/off, 1..8 steps). Non-trivial = a case with a superset or a gap "
        "(the suite's single importer file has exactly the scenario's agents); distinct = distinct case tuple")
ASSUME = ["importer databases carry the full library schema (they are produced by the library)", "ray stand-in replaces the executor"]
SHARDS = {"quick": 8, "thorough": 16}
BUDGET_S = {"quick": 100, "thorough": 1300}
DECIDING = ["imported_state", "gap_stops_run", "importer_unmodified", "imported_obs_reach_filter", "obs_metadata"]
MANIFEST = {
    "technique": "runtime monitoring over data-fault sequences: importer DBs produced by the library then edited; per-step state comparison against importer rows, exception monitor on gaps, observation-routing log, file hash/dump comparison",
    "level_text": "held on every executed (importer edit, imported-agent mix, step count): imported states equal the importer rows bit for bit, gaps stop the run with MissingEphemerisError at the step of the gap, imported observations reach their target's filter, importer file unchanged",
    "level_note": "sampled importer edits; full-schema importer DBs only",
}


def _bits(x):
    return struct.pack("<d", float(x))


def produce(net, steps, path):
    """Run the producer scenario (truth + estimation + tasking) with output every step; keep its DB as importer file."""
    from .. import scenario_kit as sk

    sk.init()
    cfg = netkit.net_cfg(net)
    start = datetime.fromisoformat(net["start"])
    cfg["time"]["stop_timestamp"] = sk.iso(start + timedelta(seconds=(steps + 1) * net["step"]))
    b = sk.build(cfg, base_seed=net["seed"], db_path=path)
    try:
        for _ in range(steps):
            b.app.stepForward()
            b.app.saveDatabaseOutput()
    finally:
        sk.teardown(b, keep_db=True)
    return cfg


def edit(path, case, rng_seed):
    """Apply the importer edit with plain sqlite3; returns description of what was removed."""
    import random

    rng = random.Random(rng_seed)
    con = sqlite3.connect(path)
    cur = con.cursor()
    removed = None
    if case["extra_agents"]:
        epochs = [r[0] for r in cur.execute("select julian_date from epochs order by julian_date")]
        for i in range(case["extra_agents"]):
            aid = 90001 + i
            cur.execute("insert into agents (unique_id, name) values (?, ?)", (aid, f"unrelated {aid}"))
            for jd in epochs:
                if rng.random() < 0.9:
                    cur.execute("insert into truth_ephemerides (julian_date, agent_id, pos_x_km, pos_y_km, pos_z_km, vel_x_km_p_sec, vel_y_km_p_sec, vel_z_km_p_sec) values (?,?,?,?,?,?,?,?)",
                                (jd, aid, 7000.0 + i, 0.0, 0.0, 0.0, 7.5, 0.0))
    if case.get("dense"):
        # the importer file is sampled more densely than the consumer steps: every epoch gets a neighbour half a second later
        # (and one half-way to the next step) holding other states for every agent - records of OTHER epochs
        eps = cur.execute("select julian_date, timestampISO from epochs order by julian_date").fetchall()
        known = {e[1] for e in eps}
        for jd, ts in eps:
            for dt_s in (0.5, case["net"]["step"] / 2.0):
                ts2 = (datetime.fromisoformat(ts) + timedelta(seconds=dt_s)).isoformat(timespec="microseconds")
                if ts2 in known:
                    continue
                known.add(ts2)
                jd2 = jd + dt_s / 86400.0
                cur.execute("insert into epochs (julian_date, timestampISO) values (?, ?)", (jd2, ts2))
                for r in cur.execute("select agent_id, pos_x_km, pos_y_km, pos_z_km, vel_x_km_p_sec, vel_y_km_p_sec, vel_z_km_p_sec from truth_ephemerides where julian_date = ?", (jd,)).fetchall():
                    cur.execute("insert into truth_ephemerides (julian_date, agent_id, pos_x_km, pos_y_km, pos_z_km, vel_x_km_p_sec, vel_y_km_p_sec, vel_z_km_p_sec) values (?,?,?,?,?,?,?,?)",
                                (jd2, r[0], r[1] + r[4] * dt_s, r[2] + r[5] * dt_s, r[3] + r[6] * dt_s, r[4], r[5], r[6]))
    if case["gap"] is not None:
        agent_id, k = case["gap"]
        ts = (datetime.fromisoformat(case["net"]["start"]) + timedelta(seconds=k * case["net"]["step"])).isoformat(timespec="microseconds")
        jd = cur.execute("select julian_date from epochs where timestampISO = ?", (ts,)).fetchone()[0]
        if agent_id == "epoch":
            cur.execute("delete from truth_ephemerides where julian_date = ?", (jd,))
        else:
            cur.execute("delete from truth_ephemerides where julian_date = ? and agent_id = ?", (jd, agent_id))
        removed = (agent_id, k, cur.rowcount)
    if case.get("leave"):
        aid, i_rm, j_back = case["leave"]
        t0 = datetime.fromisoformat(case["net"]["start"])
        for k in range(i_rm + 1, (j_back if j_back is not None else case["steps"]) + (0 if j_back is not None else 1)):
            ts = (t0 + timedelta(seconds=k * case["net"]["step"])).isoformat(timespec="microseconds")
            cur.execute("delete from truth_ephemerides where agent_id = ? and julian_date in (select julian_date from epochs where timestampISO = ?)", (aid, ts))
            cur.execute("delete from observations where target_id = ? and julian_date in (select julian_date from epochs where timestampISO = ?)", (aid, ts))
    if case.get("dup_obs"):
        # the same observation stored twice (duplicate rows): the library documents that it drops the copy
        cols = [r[1] for r in cur.execute("pragma table_info(observations)") if r[1] != "id"]
        ids = [r[0] for r in cur.execute("select id from observations")]
        for oid in ids[:: max(1, len(ids) // 3)][:4]:
            cur.execute(f"insert into observations ({', '.join(cols)}) select {', '.join(cols)} from observations where id = ?", (oid,))  # noqa: S608
    con.commit()
    con.close()
    return removed


def file_state(path):
    h = hashlib.sha256(open(path, "rb").read()).hexdigest()
    con = sqlite3.connect(f"file:{path}?mode=ro", uri=True)
    dump = hashlib.sha256("\n".join(con.iterdump()).encode()).hexdigest()
    con.close()
    return h, dump


def gen_case(rng):
    net = netkit.gen_network(rng, policies=("MunkresDecision", "MyopicNaiveGreedyDecision"), max_sensors=2, max_targets=3)
    net["init_pos_std"] = 1e-3
    net["save_filter_steps"] = False
    net["maneuver_detection"] = None
    netkit.maybe_sub_second_start(net, rng)
    # sensors of the same type with different stated noise: imported observations must carry their own sensor's metadata
    if len(net["sensors"]) > 1 and rng.random() < 0.6:
        for s in net["sensors"][1:]:
            s["kind"] = net["sensors"][0]["kind"]
    for s in net["sensors"]:
        s["cov_scale"] = rng.choice([1.0, 4.0, 0.25, 9.0])
    if rng.random() < 0.25:
        net["targets"][0]["id"] = 0      # 0 is a valid agent id
    steps = rng.randrange(2, 9)
    edit_kind = rng.choice(["exact", "superset", "superset", "gap", "gap", "gap_superset", "gap_superset", "missing_epoch", "missing_epoch_superset"])
    imported = rng.choice(["targets", "targets", "sensors", "both"])
    extra = 0
    gap = None
    if "superset" in edit_kind:
        extra = rng.choice([1, 2, 5, 20, 50])
    cand = []
    if imported in ("targets", "both"):
        cand += [t["id"] for t in net["targets"]]
    if imported in ("sensors", "both"):
        cand += [s["id"] for s in net["sensors"]]
    if edit_kind.startswith("gap"):
        gap = [0 if (0 in cand and rng.random() < 0.6) else rng.choice(cand), rng.randrange(1, steps + 1)]
    elif edit_kind.startswith("missing_epoch"):
        gap = ["epoch", rng.randrange(1, steps + 1)]
    late = None
    if imported in ("targets", "both") and len(net["targets"]) >= 2 and rng.random() < 0.4:
        # the last target joins the running scenario (Scenario.addTarget) after step j; it is imported like the others
        j = rng.randrange(0, steps)
        if gap is not None and gap[0] == net["targets"][-1]["id"] and gap[1] <= j:
            j = gap[1] - 1
        late = [net["targets"][-1]["id"], j]
    # an imported target leaves the running scenario after step i (Scenario.removeTarget); the importer holds no further record of it
    # (its ephemeris ends) unless it comes back under the same id after step j > i - then it is imported again from there on
    leave = None
    if imported in ("targets", "both") and late is None and gap is None and len(net["targets"]) >= 2 and steps >= 3 and rng.random() < 0.5:
        i_rm = rng.randrange(1, steps - 1)
        j_back = rng.randrange(i_rm + 1, steps) if rng.random() < 0.6 else None
        leave = [net["targets"][-1]["id"], i_rm, j_back]
    # the consumer may partition the agents over two tasking engines: stored observations then cross the partition
    split = len(net["sensors"]) >= 2 and len(net["targets"]) >= 2 and rng.random() < 0.4
    # imported observations next to live tasking (realtime_observation stays on); in half of those the consumer's sensors see
    # nothing, so the engine tasks no one and only the stored observations can reach the filters
    return {"kind": "c19", "obs_next_to_live_tasking": (live := rng.random() < 0.4), "blind_consumer": live and rng.random() < 0.5,
            "split_engines": split and leave is None, "late": late, "leave": leave, "net": net, "steps": steps, "edit": edit_kind, "imported": imported, "extra_agents": extra, "gap": gap,
            "imported_obs": (imp_obs := rng.random() < 0.6), "dup_obs": imp_obs and rng.random() < 0.35, "edit_seed": rng.randrange(1 << 30),
            # the consumer writes its own output every m-th physics step (states are imported at every physics step regardless)
            "out_mult": rng.choice([1, 1, 2, 3, 5]),
            "dense": rng.random() < 0.3}


def eval_case(ctx, case):
    from .. import scenario_kit as sk

    sk.init()
    from resonaate.common.exceptions import MissingEphemerisError

    net, steps = case["net"], case["steps"]
    wit = case
    ipath = sk.new_db_path("importer")
    try:
        produce(net, steps, ipath)
    except Exception as e:  # noqa: BLE001
        if "LinAlgError" in type(e).__name__ or "invalid numeric entries" in str(e):
            ctx.count("producer_skipped_filter_divergence")
            return False
        raise
    removed = edit(ipath, case, case["edit_seed"])
    before = file_state(ipath)
    # what the importer holds (plain sqlite3)
    con = sqlite3.connect(ipath)
    rows = con.execute("select e.timestampISO, t.agent_id, t.pos_x_km, t.pos_y_km, t.pos_z_km, t.vel_x_km_p_sec, t.vel_y_km_p_sec, t.vel_z_km_p_sec from truth_ephemerides t join epochs e on e.julian_date = t.julian_date").fetchall()
    imp = {(r[0], r[1]): r[2:] for r in rows}
    obs_rows = con.execute("select e.timestampISO, o.sensor_id, o.target_id, o.azimuth_rad, o.elevation_rad, o.range_km, o.range_rate_km_p_sec from observations o join epochs e on e.julian_date = o.julian_date").fetchall()
    con.close()
    imp_obs = {}
    for r in obs_rows:
        imp_obs.setdefault((r[0], r[2]), []).append((r[1], r[3], r[4], r[5], r[6]))

    cfg = netkit.net_cfg(net)
    late = case.get("late")
    late_cfg = None
    if late:
        tl = cfg["engines"][0]["targets"]
        late_cfg = next(t for t in tl if t["id"] == late[0])
        cfg["engines"][0]["targets"] = [t for t in tl if t["id"] != late[0]]
    if case.get("split_engines") and len(cfg["engines"][0]["sensors"]) >= 2 and len(cfg["engines"][0]["targets"]) >= 2:
        e1 = cfg["engines"][0]
        e2 = json.loads(json.dumps(e1))
        e2["unique_id"] = 2
        e1["sensors"], e2["sensors"] = e1["sensors"][:1], e2["sensors"][1:]
        e1["targets"], e2["targets"] = e1["targets"][1:], e2["targets"][:1]  # sensor 0 now shares an engine with every target but the first
        cfg["engines"].append(e2)
    start = datetime.fromisoformat(net["start"])
    cfg["time"]["stop_timestamp"] = sk.iso(start + timedelta(seconds=(steps + 1) * net["step"]))
    if case.get("out_mult", 1) > 1:
        cfg["time"]["output_step_sec"] = int(net["step"]) * int(case["out_mult"])
        ctx.count("consumers_with_output_step_above_physics_step")
    cfg["propagation"]["target_realtime_propagation"] = case["imported"] not in ("targets", "both")
    cfg["propagation"]["sensor_realtime_propagation"] = case["imported"] not in ("sensors", "both")
    if case["imported_obs"] and not case.get("obs_next_to_live_tasking"):
        cfg["observation"]["realtime_observation"] = False
    if case["imported_obs"] and case.get("blind_consumer"):
        for e_ in cfg["engines"]:
            for sc in e_["sensors"]:
                sc["sensor"]["elevation_range"] = [89.0, 89.99999]
        ctx.count("consumers_with_blind_sensors_next_to_stored_observations")
    imported_ids = []
    if case["imported"] in ("targets", "both"):
        imported_ids += [t["id"] for t in net["targets"] if not (late and t["id"] == late[0])]
    if case["imported"] in ("sensors", "both"):
        imported_ids += [s["id"] for s in net["sensors"]]

    # monitor: which observations reach which filter update
    from resonaate.parallel import estimate_update as eu

    reached = []
    meta = []
    orig_init = eu.EstUpdateRegistration.__init__

    def reg_init(self, registrant, handle, observations):
        reached.append((registrant.simulation_id, registrant.datetime_epoch.isoformat(timespec="microseconds"),
                        [(int(o.sensor_id), float(o.azimuth_rad), float(o.elevation_rad), o.range_km, o.range_rate_km_p_sec) for o in observations]))
        for o in observations:
            meta.append((int(o.sensor_id), None if o.measurement is None else np.array(o.measurement.r_matrix, dtype=float)))
        orig_init(self, registrant, handle, observations)

    eu.EstUpdateRegistration.__init__ = reg_init
    b = None
    raised = None
    steps_ok = 0
    try:
        b = sk.build(cfg, base_seed=net["seed"] + 1, importer_db_path=ipath)
        app = b.app
        def add_late():
            from resonaate.data.agent import AgentModel

            ts0 = (start + timedelta(seconds=late[1] * net["step"])).isoformat(timespec="microseconds")
            row0 = imp.get((ts0, late[0]))
            spec = json.loads(json.dumps(late_cfg))
            if row0 is not None:
                spec["state"] = {"type": "eci", "position": [float(v) for v in row0[:3]], "velocity": [float(v) for v in row0[3:]]}
            app.database.insertData(AgentModel(unique_id=late[0], name=f"T{late[0]}"))
            app.addTarget(spec, 1)
            imported_ids.append(late[0])
            ctx.count("late_imported_targets_added")

        leave = case.get("leave")
        away = [False]
        leave_cfg = next((t for t in cfg["engines"][0]["targets"] if leave and t["id"] == leave[0]), None)
        if late and late[1] == 0:
            add_late()
        for k in range(1, steps + 1):
            try:
                app.stepForward()
            except MissingEphemerisError as e:
                raised = ("MissingEphemerisError", k, str(e)[:200])
                break
            except Exception as e:  # noqa: BLE001
                import traceback

                tb = traceback.extract_tb(e.__traceback__)
                inner = [f for f in tb if "/resonaate/" in f.filename]
                where = f"{inner[-1].filename.split('/resonaate/')[-1]}:{inner[-1].name}" if inner else "harness"
                raised = (type(e).__name__, k, f"{type(e).__name__}: {str(e)[:200]} at {where}", where)
                break
            steps_ok = k
            ts = (start + timedelta(seconds=k * net["step"])).isoformat(timespec="microseconds")
            gap_now = case["gap"] is not None and case["gap"][1] == k
            for aid in imported_ids:
                ag = app.target_agents.get(aid) or app.sensor_agents.get(aid)
                row = imp.get((ts, aid))
                if row is None:
                    # a registered agent without a record: the run must not have completed this step
                    ctx.check(False, "stale-state-after-gap" + ("-superset" if case["extra_agents"] else ""),
                              f"step {k} completed although imported agent {aid} has no record at {ts} (importer holds {case['extra_agents']} unrelated agents); "
                              "the agent kept a stale state instead of a missing-ephemeris error", wit, mon="gap_stops_run")
                    continue
                same = all(_bits(a) == _bits(bv) for a, bv in zip(row, ag.eci_state))
                ctx.check(same, "imported-state-differs", f"step {k}: state of imported agent {aid} differs from the importer record at {ts}", wit, mon="imported_state")
            _ = gap_now
            if late and late[1] == k and k < steps:
                add_late()
            if leave and leave[1] == k:
                app.removeTarget(leave[0], 1)
                imported_ids.remove(leave[0])
                away[0] = True
                ctx.count("imported_targets_removed_mid_run")
            if leave and leave[2] == k:
                # back under the same id, starting from the importer's record of this epoch
                from resonaate.data.agent import AgentModel  # noqa: F401

                spec = json.loads(json.dumps(leave_cfg))
                row0 = imp.get((ts, leave[0]))
                if row0 is not None:
                    spec["state"] = {"type": "eci", "position": [float(v) for v in row0[:3]], "velocity": [float(v) for v in row0[3:]]}
                app.addTarget(spec, 1)
                imported_ids.append(leave[0])
                away[0] = False
                ctx.count("imported_targets_back_under_the_same_id")
    except Exception as e:  # noqa: BLE001
        import traceback

        raised = ("harness", 0, f"{type(e).__name__}: {e} :: {traceback.format_exc()[-400:]}", "build")
    finally:
        eu.EstUpdateRegistration.__init__ = orig_init
        if b is not None:
            sk.teardown(b)
    # ---- gap must stop the run at the step of the gap with the documented error -------------------
    diverged = raised is not None and ("LinAlgError" in raised[0] or "invalid numeric entries" in raised[2])
    if diverged:
        ctx.count("consumer_runs_stopped_by_filter_divergence")  # hostile estimate settings; not this property's subject
    elif case["gap"] is not None and removed and removed[2] > 0:
        k_gap = case["gap"][1]
        if raised is None:
            pass  # already reported by stale-state-after-gap above
        elif raised[0] == "MissingEphemerisError":
            ctx.check(raised[1] == k_gap, "gap-error-at-wrong-step", f"gap at step {k_gap} raised MissingEphemerisError at step {raised[1]}", wit, mon="gap_stops_run")
        else:
            ctx.check(False, f"gap-wrong-exception-{raised[0]}", f"gap at step {k_gap}: run stopped with {raised[2]} instead of a missing-ephemeris error", wit, mon="gap_stops_run")
    elif raised is not None:
        key = f"run-raised-{raised[0]}-{raised[3]}" if len(raised) > 3 else f"run-raised-{raised[0]}"
        ctx.check(False, key, f"no gap in the importer, but the run raised at step {raised[1]}: {raised[2]}", wit, mon="imported_state")
    # ---- imported observations reach their target's filter at their epoch ----------------------------
    if case["imported_obs"] and raised is None:
        for k in range(1, steps_ok + 1):
            ts = (start + timedelta(seconds=k * net["step"])).isoformat(timespec="microseconds")
            for t in net["targets"]:
                if late and t["id"] == late[0] and k <= late[1]:
                    continue  # not in the scenario yet
                lv = case.get("leave")
                if lv and t["id"] == lv[0] and k > lv[1] and (lv[2] is None or k <= lv[2]):
                    continue  # not in the scenario during these steps
                want = sorted((s, _bits(az), _bits(el)) for (s, az, el, _r, _rr) in imp_obs.get((ts, t["id"]), []))
                got = [r for r in reached if r[0] == t["id"] and r[1] == ts]
                have = sorted((s, _bits(az), _bits(el)) for g in got for (s, az, el, _r, _rr) in g[2])
                if want:
                    ctx.check(all(w in have for w in want), "imported-observation-lost", f"step {k}: {len(want)} imported observation(s) of target {t['id']} at {ts}, {len(have)} reached its filter update", wit, mon="imported_obs_reach_filter")
    # ---- every observation handed to a filter carries the stated noise of the sensor that made it --------
    want_r = {sc["id"]: np.array(sc["sensor"]["covariance"], dtype=float) for e in cfg["engines"] for sc in e["sensors"]}
    for sid, r in meta:
        ok = r is not None and sid in want_r and r.shape == want_r[sid].shape and np.allclose(r, want_r[sid], rtol=1e-12, atol=0.0)
        ctx.check(ok, "observation-metadata-of-another-sensor" if r is not None else "observation-without-metadata",
                  f"an observation of sensor {sid} reached a filter update with noise covariance diag {None if r is None else np.diag(r).tolist()}, its sensor states {np.diag(want_r.get(sid, np.zeros((1, 1)))).tolist()}",
                  wit, mon="obs_metadata")
    # ---- the importer interface refuses every mutating call (and the refusal leaves the file alone) -------------
    try:
        from resonaate.data.agent import AgentModel
        from resonaate.data.importer_database import ImporterDatabase
        from sqlalchemy.orm import Query

        idb = ImporterDatabase(ipath if "://" in ipath else "sqlite:///" + ipath)
        try:
            for nm, call in (("insertData", lambda: idb.insertData(AgentModel(unique_id=777777, name="x"))),
                             ("bulkSave", lambda: idb.bulkSave([AgentModel(unique_id=777778, name="y")])),
                             ("deleteData", lambda: idb.deleteData(Query(AgentModel)))):
                try:
                    call()
                    refused = False
                except NotImplementedError:
                    refused = True
                ctx.check(refused, "importer-accepts-" + nm, f"ImporterDatabase.{nm} did not refuse (the importer database is documented read-only)", wit, mon="importer_refuses_writes")
        finally:
            idb.engine.dispose()
    except Exception as e:  # noqa: BLE001
        ctx.count("importer_interface_probe_failed")
        ctx.note("importer_interface_probe_error", f"{type(e).__name__}: {str(e)[:200]}")
    # ---- importer untouched ---------------------------------------------------------------------
    after = file_state(ipath)
    ctx.check(after[1] == before[1], "importer-content-modified", "logical content of the importer database changed during the run", wit, mon="importer_unmodified")
    ctx.check(after[0] == before[0], "importer-file-bytes-modified", "importer database file bytes changed during the run", wit, mon="importer_unmodified")
    try:
        os.remove(ipath)
    except OSError:
        pass
    _ = shutil
    return True


def run(ctx):
    rng = ctx.pyrng("c19")
    n = ctx.scale(96, 6000)
    for i in range(n):
        if ctx.time_left() < 12:
            break
        case = gen_case(rng)
        if i == 0:
            # once per shard, whatever the draw: stored observations next to live tasking with a consumer whose sensors see nothing
            case.update({"imported_obs": True, "dup_obs": False, "obs_next_to_live_tasking": True, "blind_consumer": True, "gap": None, "late": None,
                         "edit": "exact", "extra_agents": 0, "steps": max(case["steps"], 4), "leave": None})
        elif i == 3 and ctx.shard % 2 == 1 and len(case["net"]["targets"]) >= 2:
            # forced once per run: an imported target leaves, its ephemeris ends, and it comes back under the same id
            case.update({"imported": "targets", "gap": None, "late": None, "edit": "exact", "extra_agents": 0, "steps": max(case["steps"], 5), "split_engines": False})
            case["leave"] = [case["net"]["targets"][-1]["id"], 2, 4 if ctx.shard % 4 == 1 else None]
        elif i == 4 and ctx.shard % 2 == 0:
            # forced once per run: the imported satellite with id 0 has a gap
            case["net"]["targets"][0]["id"] = 0
            case.update({"imported": "targets", "edit": "gap", "extra_agents": 0, "late": None, "leave": None, "gap": [0, max(1, case["steps"] - 1)]})
        elif i == 2 and ctx.shard % 2 == 0:
            # a large importer database (> 10000 ephemeris rows, mostly of unrelated agents): still read-only
            case.update({"edit": "superset", "extra_agents": 3000, "gap": None, "steps": max(case["steps"], 4)})
            ctx.count("large_importer_cases")
        elif i == 1 and not case["late"] and not case.get("leave") and len(case["net"]["targets"]) >= 2 and case["imported"] in ("targets", "both") and case["gap"] is None:
            case["late"] = [case["net"]["targets"][-1]["id"], 1]  # and a target that joins the importer-driven run late
        ok = eval_case(ctx, case)
        ctx.count("edit_" + case["edit"])
        ctx.case((case["net"]["start"], case["net"]["seed"], case["edit"], case["imported"], case["extra_agents"], str(case["gap"]), case["imported_obs"]),
                 nontrivial=ok and case["edit"] != "exact",
                 sample={"edit": case["edit"], "imported": case["imported"], "extra_agents": case["extra_agents"], "gap": case["gap"], "steps": case["steps"], "imported_obs": case["imported_obs"]} if i % 4 == 0 else None)


def replay(ctx, w):
    eval_case(ctx, w)
