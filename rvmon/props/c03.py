"""C03 - orbit propagation is composable, batch-consistent, Kepler-exact and conservative.

A metamorphic driver around the repository's real ``TwoBody`` / ``SpecialPerturbations`` objects
(``propagate`` and ``propagateBulk``), both integrator labels of the configuration.

Monitors
  tol_constants    Dynamics.RELATIVE_TOL / ABSOLUTE_TOL are the documented 1e-10 / 1e-12, Earth.mu == reference mu
  kepler_exact     TwoBody.propagate(t0 -> t2, x) == closed-form Kepler (refs/keplerref.py)
  conservation     orbital energy and angular momentum of the TwoBody result == those of the input
  universal        solveKeplerProblemUniversal(x, dt) == closed form (third opinion; must not raise on bound orbits)
  compose          Phi(t0->t2) == Phi(t1->t2) o Phi(t0->t1), t1 uniform / 1 ulp from either end / micro-seconds from an end
  batch_vs_single  column k of a (6,K) propagation == propagation of column k alone, K = 1..13, mixed orbits, all layouts
  bulk_vs_single   propagateBulk(times, x)[..., i] == propagate(times[0], times[i+1], x)
  bulk_degenerate  grids with repeated output times / zero span behave like the separate calls (same states, or the
                   same ValueError that propagate gives) - never a silently wrong state
  event_restart    a terminal event that changes nothing (zero impulse) at te leaves propagate / propagateBulk unchanged;
                   with an impulse dv it equals Phi(te->t2)(Phi(t0->te)(x)+dv) (exercises the solve_ivp restart loop)
  epoch_resplit    SpecialPerturbations(jd0 + s/86400).propagate(t0 - s, t2 - s) == SpecialPerturbations(jd0).propagate(t0, t2)
  sp_*             compose / batch / bulk / event relations on SpecialPerturbations
  sp_reduces       SpecialPerturbations with degree = order = 0 and no perturbation == closed-form Kepler
  scenario_truth   TruthEphemeris rows of real truth-only Scenario runs: two_body rows == closed form from the configured
                   state at every epoch; rows of runs with different physics steps agree at common epochs (both models)

Tolerance model (DESIGN 3.7).  solve_ivp runs with rtol = 1e-10, atol = 1e-12 on every component, i.e. a local error of
about rtol*|y| per step; along-track error grows with the square of the number of revolutions (an energy error of
k*rtol shifts the period).  The error *unit* of a state x propagated over dt is therefore

      u_r = rtol * a * (0.05 + dt/P)^2 / (1 - e)     [km]          u_v = u_r * sqrt(mu / r_p^3)   [km/s]

(a, e, P, r_p osculating elements of the input; 0.05 rev is the start-up floor; the 1/(1-e) factor and the perigee rate
follow the conditioning of eccentric orbits; values taken from solve_ivp's interpolant - t_eval outputs, event roots -
add rtol*a/(1-e), the interpolation error that does not shrink with dt).  Each monitor allows ``TOL[monitor] * unit``; TOL
is >= 100x the worst ratio measured on the unchanged tree (calibration table next to TOL).  Energy / angular momentum use
rtol * (0.05 + dt/P) / (1 - e) as relative unit.
Realistic breaks (wrong stride, wrong epoch origin, lost restart, loosened rtol) are >= 1e4 units.
SpecialPerturbations has two documented *jumps* in its force (SRP eclipse switch, the 1 s UT1 step at a leap second);
spans that can contain one get the additional absolute allowance of ``_jump`` (one integrator step straddling the jump).
"""

from __future__ import annotations

import json
import math
import signal

import numpy as np

from ..refs import keplerref as K

LEVEL = "exploration"
RULE = ("cases = (relation, dynamics spec, integrator, orbit(s), t0, duration, split/grid/batch/shift) tuples: orbits "
        "a in [6600, 60000] km, e <= 0.7 with perigee >= 6600 km, any inclination incl. exactly 0/90/180 deg, circular, "
        "perigee/apogee starts; durations 1 s .. 1 day (log-uniform, period multiples, whole-second steps); scenario "
        "times 0 .. 30 d, whole and fractional, float and ScenarioTime; split points uniform / 1 ulp / 1e-6 s from the "
        "ends; batches K = 1..13 in C, Fortran and strided layouts; output grids of 1..7 times incl. 1-ulp spacing and "
        "repeated times; epoch shifts +-1 s .. +-30 d; SP: degree/order <= 4 (<= 8 thorough), third bodies, SRP, GR. "
        "non-trivial = distinct tuple for which the repository call returned and at least one comparison was "
        "evaluated against the tolerance model")
ASSUME = ["refs/keplerref.py (eccentric-anomaly-difference f/g solution, no code shared with the repository) is the "
          "two-body truth; Earth.mu is shared as a constant and cross-checked",
          "tolerances = calibrated multiple (>=100x worst observed) of rtol*a*(0.05+n_rev)^2/(1-e); a break smaller than "
          "that multiple of the integrator's own tolerance is not detectable",
          "perturbed dynamics has no independent truth here (C13 owns the force model); only the metamorphic relations "
          "are checked for SpecialPerturbations",
          "a terminal event with zero state change is a legitimate no-op (uses the repository's ScheduledImpulse root "
          "function; getStateChange returns the configured delta-v or zeros, without the EventStack log record)",
          "SpecialPerturbations' force jumps (SRP eclipse switch, 1 s UT1 step at a leap second) are documented model "
          "behaviour: spans that can contain one get an extra allowance for one integrator step straddling the jump",
          "scenario times are >= 0 (propagate never returns for final_time < 0: spacing() of a negative time is negative) "
          "and propagateBulk with events gets (6,K) states only, as documented",
          "ray stand-in (rvmon/shimray.py) replaces the executor in the scenario_truth runs; everything else is repository code"]
SHARDS = {"quick": 4, "thorough": 16}
BUDGET_S = {"quick": 75, "thorough": 900}
DECIDING = ["tol_constants", "kepler_exact", "conservation", "universal", "compose", "batch_vs_single", "bulk_vs_single",
            "bulk_degenerate", "event_restart", "epoch_resplit", "sp_compose", "sp_batch_vs_single", "sp_bulk_vs_single", "sp_deriv_batch", "sp_deriv_epoch", "history_independent", "sp_history_independent", "scenario_clone_join",
            "sp_reduces", "scenario_truth"]
MANIFEST = {"technique": "runtime monitoring: metamorphic relations + closed-form Kepler oracle on the real propagators",
            "level_text": "exploration: seeded boundary-biased sampling of orbits, durations, splits, batches, grids, epoch shifts",
            "level_note": "agreement is 'within calibrated integrator tolerance', never bitwise"}

RTOL, ATOL = 1e-10, 1e-12
S0 = 0.05  # revolutions: start-up floor of the accumulated-error model
MU = K.MU
METHODS = ("RK45", "DOP853")
HANG_S = 240  # seconds; run() lowers it to 100 in the quick tier (largest legitimate quick call: ~2 s)

# Allowed multiples of the error unit = 100 x (worst ratio seen on the unchanged tree, rounded up).  Calibration: four
# thorough-sized sweeps over independent random streams plus targeted SP sweeps (SRP on, leap-second crossings, split
# points), about 1.1e5 cases / 3.5e5 compared states in total:
#   monitor            worst observed    allowed
#   kepler_exact            49.4           5000      (RK45 dominates; DOP853 stays below 8)
#   sp_reduces              48.6           5000
#   energy                  13.6           1500
#   angmom                   2.13           250
#   universal               12.0           1500
#   compose                  9.6 (sp 8.7)  1000
#   batch_vs_single         17.2 (sp 13.1) 2000      (on top of the 2*sqrt(K) share of the RMS error norm)
#   bulk_vs_single           5.1 (sp 5.9)   600
#   event_restart           11.4 (sp 14.7) 1500
#   epoch_resplit           10.4           1200
#   scenario_truth          25.1           3000      (970 scenario pairs, 2.6e4 rows; unit = unit(dt) + n_steps * unit(step))
# e.g. kepler_exact allows 3.9 m after one LEO revolution and 0.9 km after a day (16 rev) where 8e-4 km is observed;
# a wrong stride, a wrong epoch origin, a dropped restart or rtol = 1e-6 are 1e4 .. 1e9 units.
TOL = {
    "kepler_exact": 5000.0,
    "sp_reduces": 5000.0,
    "energy": 1500.0,
    "angmom": 250.0,
    "universal": 1500.0,
    "compose": 1000.0,
    "batch_vs_single": 2000.0,
    "bulk_vs_single": 600.0,
    "event_restart": 1500.0,
    "epoch_resplit": 1200.0,
    "scenario_truth": 3000.0,
}


# ---------------------------------------------------------------------------------------------
# plumbing
# ---------------------------------------------------------------------------------------------
_READY = False
_DYN: dict = {}
_NULL_EVENT = None


def _init():
    global _READY
    if _READY:
        return
    from .. import scenario_kit as sk

    sk.init()  # installs the ray stand-in before resonaate is imported (needed by the scenario relation), quiets logging
    _READY = True


class _Hang(Exception):
    pass


class _guard:
    """Turn a propagation that does not return within HANG_S seconds into an exception (restart loops can spin)."""

    def __enter__(self):
        self.ok = False
        try:
            self.old = signal.signal(signal.SIGALRM, self._fire)
            signal.setitimer(signal.ITIMER_REAL, HANG_S)
            self.ok = True
        except (ValueError, AttributeError):
            pass
        return self

    @staticmethod
    def _fire(signum, frame):
        raise _Hang(f"no return within {HANG_S} s")

    def __exit__(self, *exc):
        if self.ok:
            signal.setitimer(signal.ITIMER_REAL, 0)
            signal.signal(signal.SIGALRM, self.old)
        return False


def _dyn(spec: dict):
    """Build (and cache) the repository dynamics object described by ``spec``."""
    _init()
    key = json.dumps(spec, sort_keys=True)
    if key in _DYN:
        return _DYN[key]
    from resonaate.common.labels import IntegratorLabel

    label = IntegratorLabel(spec["method"])
    if spec["model"] == "tb":
        from resonaate.dynamics.two_body import TwoBody

        d = TwoBody(method=label)
    else:
        from resonaate.dynamics.special_perturbations import SpecialPerturbations
        from resonaate.physics.time.stardate import JulianDate
        from resonaate.scenario.config.geopotential_config import GeopotentialConfig
        from resonaate.scenario.config.perturbations_config import PerturbationsConfig

        d = SpecialPerturbations(
            JulianDate(spec["jd"]),
            GeopotentialConfig(degree=spec["deg"], order=spec["ord"]),
            PerturbationsConfig(third_bodies=list(spec["third"]), solar_radiation_pressure=bool(spec["srp"]),
                                general_relativity=bool(spec["gr"])),
            float(spec["ratio"]),
            method=label,
        )
    if len(_DYN) > 48:
        _DYN.clear()
    _DYN[key] = d
    return d


def _null_event(te, dv=None):
    """A terminal ScheduledImpulse (repository root function); its state change is zero unless dv (ECI, km/s) is given.

    Same behaviour as the repository's ScheduledECIImpulse without the EventStack log record (needs the key-value store).
    """
    global _NULL_EVENT
    _init()
    if _NULL_EVENT is None:
        from resonaate.dynamics.integration_events.scheduled_impulse import ScheduledImpulse

        class PlainImpulse(ScheduledImpulse):
            def getStateChange(self, time, state):  # noqa: N802, ARG002
                return self.thrust.copy()

        _NULL_EVENT = PlainImpulse
    return _NULL_EVENT(te, np.zeros(3) if dv is None else np.asarray(dv, dtype=float), 0)


def _times(ts, ttype):
    if ttype == "scenario":
        from resonaate.physics.time.stardate import ScenarioTime

        return [ScenarioTime(t) for t in ts]
    return [float(t) for t in ts]


def _call(ctx, fn, rel, w, mon):
    """Run a repository call; an exception or a hang is a violation of its own mechanism key."""
    try:
        with _guard():
            return fn()
    except _Hang as exc:
        ctx.check(False, f"{rel}-hang", f"{rel}: repository call did not return ({exc})", w, mon=mon)
    except Exception as exc:  # noqa: BLE001
        ctx.check(False, f"{rel}-raised", f"{rel}: repository call raised {type(exc).__name__}: {str(exc)[:200]}", w, mon=mon)
    return None


def _propagate(ctx, spec, t0, t2, x, rel, w, mon, ttype="float", events=None):
    d = _dyn(spec)
    a, b = _times([t0, t2], ttype)
    x = np.array(x, dtype=float) if not isinstance(x, np.ndarray) else x
    xin = x.copy() if x.flags.c_contiguous else x
    before = np.array(xin, copy=True)
    y = _call(ctx, lambda: d.propagate(a, b, xin, scheduled_events=events), rel, w, mon)
    if y is not None:
        # the state handed in stays the caller's (agents hand in their own eci_state): a propagation returns a new state
        ctx.check(before.tobytes() == np.asarray(xin).tobytes() and y is not xin, "propagate-modified-its-input",
                  f"{spec['method']} propagate changed the state array it was handed (max change {float(np.abs(np.asarray(xin, dtype=float) - before).max()):.3g})", w, mon="input_unchanged")
    return None if y is None else np.asarray(y, dtype=float)


def _unit(x0, dt, dense=False):
    """Error unit (km, km/s), revolutions, eccentricity of state x0 over dt seconds.

    dense: the value comes from solve_ivp's interpolant (t_eval / event root), whose error does not shrink with dt.
    """
    x0 = np.asarray(x0, dtype=float)
    a = K.sma(x0, MU)
    e = float(np.linalg.norm(K.ecc_vector(x0, MU)))
    e = min(e, 0.95)
    per = 2.0 * math.pi * math.sqrt(a ** 3 / MU)
    nrev = abs(dt) / per
    ur = RTOL * a * ((S0 + nrev) ** 2 + (1.0 if dense else 0.0)) / (1.0 - e)
    uv = ur * math.sqrt(MU / (a * (1.0 - e)) ** 3)
    _LAST[:] = [nrev, e]
    return ur, uv, nrev, e


SRP_P = 4.56e-9  # km/s^2 per (m^2/kg): solar radiation pressure at 1 AU = size of the eclipse switch of the SRP force
LEAPS_JD = (2457204.5, 2457754.5)  # 2015-07-01 and 2017-01-01 0h UTC: UT1-UTC steps by +1 s, the Earth "jumps" by 7.3e-5 rad
OMEGA_E, RE_KM, TESS = 7.292115e-5, 6378.1363, 2.5e-6
J_SRP, J_LEAP = 10.0, 300.0  # calibrated multiples of the one-step bound below (100 x worst observed: 0.088 and 3.05)
_JCAL = None


def _jump(x0, t0, t2, spec):
    """Absolute extra allowance (km, km/s) for force-model *jumps* inside the span (SpecialPerturbations only).

    A step of length h that straddles a jump da of the acceleration commits an error its estimator cannot see: about
    da*h in velocity and da*h*h/2 in position, which then drifts along track like 3*dv*dt.  h = P/15 is the DOP853 step
    at rtol = 1e-10 (RK45 steps are 10x shorter).  Jumps of the repository's documented force model:
      * cannonball SRP switches off/on across the Earth's shadow (penumbra lasts seconds): da = P_sun * ratio
      * at a leap second UT1-UTC of the EOP table steps by 1 s while the Julian-date clock does not, so the Earth-fixed
        frame turns by w*1s at once: da = 2 * w * (tesseral acceleration), only when order >= 1
    Returns (jr, jv, raw) with raw = the bound for J = 1 (calibration).
    """
    if spec is None or spec.get("model") != "sp":
        return 0.0, 0.0, None
    x0 = np.asarray(x0, dtype=float)
    a = K.sma(x0, MU)
    e = min(float(np.linalg.norm(K.ecc_vector(x0, MU))), 0.95)
    rp = a * (1.0 - e)
    per = 2.0 * math.pi * math.sqrt(a ** 3 / MU)
    h, dt, npg = per / 15.0, abs(t2 - t0), math.sqrt(MU / rp ** 3)
    shape_r, shape_v = h * (0.5 * h + 3.0 * dt), h * (1.0 + (0.5 * h + 3.0 * dt) * npg)
    jr = jv = 0.0
    raw = {}
    if spec.get("srp") and spec.get("ratio", 0.0) > 0.0:
        da = SRP_P * float(spec["ratio"])
        jr += J_SRP * da * shape_r
        jv += J_SRP * da * shape_v
        raw["srp"] = da * shape_r
    if spec.get("ord", 0) >= 1:
        ja, jb = spec["jd"] + t0 / 86400.0, spec["jd"] + t2 / 86400.0
        if any(ja - 3.0 / 86400.0 <= L <= jb + 3.0 / 86400.0 for L in LEAPS_JD):
            da = 2.0 * OMEGA_E * 3.0 * MU / rp ** 2 * (RE_KM / rp) ** 2 * TESS
            jr += J_LEAP * da * shape_r
            jv += J_LEAP * da * shape_v
            raw["leap"] = da * shape_r
    return jr, jv, raw or None


def _ratio(y, ref, ur, uv, name=None, jump=None):
    """Error in units; with jump = (jr, jv, raw) the test  ratio <= TOL[name]  means |dr| <= TOL*ur + jr (same for v)."""
    y, ref = np.asarray(y, dtype=float), np.asarray(ref, dtype=float)
    if y.shape != ref.shape or not np.all(np.isfinite(y)):
        return math.inf
    dr, dv = float(np.linalg.norm(y[:3] - ref[:3])), float(np.linalg.norm(y[3:] - ref[3:]))
    if jump is not None and name is not None and jump[2]:
        if _JCAL is not None:
            for cls, raw in jump[2].items():
                _JCAL.append((cls, dr / raw, dr / ur, len(jump[2])))
        ur, uv = ur + jump[0] / TOL[name], uv + jump[1] / TOL[name]
    return max(dr / ur, dv / uv)


_WORST: dict = {}
_LAST = [0.0, 0.0]
_CAL = None  # calibration hook: a list collects (monitor key, method-free ratio, n_rev, e)


def _close(ctx, name, ratio, key, what, w, mon):
    """Compare a ratio (error / unit) with the calibrated allowance of monitor ``name``."""
    wk = f"{mon}/{name}" if name != mon and not mon.endswith(name) else mon
    if math.isfinite(ratio) and ratio > _WORST.get(wk, 0.0):
        _WORST[wk] = ratio
    if _CAL is not None:
        _CAL.append((wk, ratio, _LAST[0], _LAST[1], w if ratio > 30 else None))
    if TOL[name] >= ratio > 0.05 * TOL[name]:
        ctx.add_to_set("near_miss", f"{wk}: {ratio:.3g} of {TOL[name]:g} allowed units :: {json.dumps(w)[:1200]}")
    return ctx.check(ratio <= TOL[name], key, f"{what}: error = {ratio:.3g} units, allowed {TOL[name]:g} units "
                     f"(unit = rtol*a*(0.05+n_rev)^2/(1-e))", w, mon=mon)


def _w(kind, **kw):
    out = {"kind": kind}
    for k, v in kw.items():
        if isinstance(v, np.ndarray):
            v = v.tolist()
        out[k] = v
    return out


def _pfx(spec):
    return "" if spec["model"] == "tb" else "sp-"


def _mon(spec, name):
    return name if spec["model"] == "tb" else "sp_" + name


# ---------------------------------------------------------------------------------------------
# relations
# ---------------------------------------------------------------------------------------------
def rel_constants(ctx):
    _init()
    from resonaate.dynamics.dynamics_base import Dynamics
    from resonaate.dynamics.special_perturbations import SpecialPerturbations
    from resonaate.dynamics.two_body import TwoBody
    from resonaate.physics.bodies import Earth

    w = _w("constants")
    for cls in (Dynamics, TwoBody, SpecialPerturbations):
        ctx.check(cls.RELATIVE_TOL == RTOL and cls.ABSOLUTE_TOL == ATOL, "integrator-tolerance-constants",
                  f"{cls.__name__}.RELATIVE_TOL/ABSOLUTE_TOL = {cls.RELATIVE_TOL}/{cls.ABSOLUTE_TOL}, documented 1e-10/1e-12", w,
                  mon="tol_constants")
    ctx.check(Earth.mu == MU, "earth-mu", f"Earth.mu = {Earth.mu} differs from the reference {MU}", w, mon="tol_constants")


def rel_kepler(ctx, spec, x0, t0, t2, ttype="float"):
    """Two-body result == closed form; energy / angular momentum conserved."""
    x0 = np.asarray(x0, dtype=float)
    w = _w("kepler", spec=spec, x0=x0, t0=t0, t2=t2, ttype=ttype)
    tb = spec["model"] == "tb"
    mon = "kepler_exact" if tb else "sp_reduces"
    y = _propagate(ctx, spec, t0, t2, x0, "kepler" if tb else "sp-reduces", w, mon, ttype)
    if y is None:
        return False
    dt = t2 - t0
    ref = K.propagate(x0, dt, MU)
    ur, uv, nrev, e = _unit(x0, dt)
    ok = ctx.check(y.shape == (6,), "propagate-shape", f"propagate of a (6,) state returned shape {y.shape}", w, mon=mon)
    if not ok:
        return True
    r = _ratio(y, ref, ur, uv)
    _close(ctx, mon, r, "kepler-closed-form" if tb else "sp-degree0-not-kepler",
           f"{spec['method']} {'TwoBody' if tb else 'SpecialPerturbations(0x0, no perturbations)'} over {dt:.6g} s ({nrev:.3g} rev, e={e:.3f}) "
           f"vs closed-form Kepler: |dr| = {np.linalg.norm(y[:3] - ref[:3]):.3e} km", w, mon)
    # conservation (relative)
    e0 = K.energy(x0, MU)
    h0 = K.ang_mom(x0)
    ue = RTOL * (S0 + nrev) / (1.0 - e)
    if np.all(np.isfinite(y)):
        de = abs(K.energy(y, MU) - e0) / abs(e0)
        dh = float(np.linalg.norm(K.ang_mom(y) - h0) / np.linalg.norm(h0))
        _close(ctx, "energy", de / ue, "energy-drift", f"{spec['method']} specific energy changed by {de:.3e} (relative) over {nrev:.3g} rev", w, "conservation")
        _close(ctx, "angmom", dh / ue, "angular-momentum-drift", f"{spec['method']} angular momentum changed by {dh:.3e} (relative) over {nrev:.3g} rev", w, "conservation")
    return True


def rel_universal(ctx, x0, dt, mu_scale=1.0):
    """mu_scale != 1: the solver's optional gravitational parameter. With mu' = s*mu the state (r, sqrt(s) v) flies the same
    conic sqrt(s) times faster, so its state after dt/sqrt(s) is (r(dt), sqrt(s) v(dt)) of the Earth-mu orbit."""
    _init()
    from resonaate.physics.orbits.kepler import solveKeplerProblemUniversal

    x0 = np.asarray(x0, dtype=float)
    w = _w("universal", x0=x0, dt=dt, mu_scale=mu_scale)
    rs = math.sqrt(mu_scale)
    if mu_scale == 1.0:
        y = _call(ctx, lambda: solveKeplerProblemUniversal(x0.copy(), dt), "universal", w, "universal")
    else:
        xs = np.concatenate([x0[:3], x0[3:] * rs])
        y = _call(ctx, lambda: solveKeplerProblemUniversal(xs, dt / rs, mu=MU * mu_scale), "universal", w, "universal")
    if y is None:
        return False
    ref = K.propagate(x0, dt, MU)
    ref = np.concatenate([ref[:3], ref[3:] * rs])
    ur, uv, nrev, e = _unit(x0, dt)
    r = _ratio(np.asarray(y, dtype=float), ref, ur, uv * rs)
    _close(ctx, "universal", r, "universal-vs-closed-form" + ("" if mu_scale == 1.0 else "-other-mu"), f"solveKeplerProblemUniversal(mu = {mu_scale:.9g} x Earth) over {dt / rs:.6g} s ({nrev:.3g} rev, e={e:.3f}) "
           f"differs from closed form by {np.linalg.norm(np.asarray(y)[:3] - ref[:3]):.3e} km", w, "universal")
    return True


def rel_universal_inverse(ctx, x0, dt, vscale):
    """Forward then backward through the universal-variable solver returns the start state - for closed orbits and, with the
    velocity scaled beyond escape (vscale > sqrt(2) on a circular-like speed), for hyperbolic ones; invariants are conserved."""
    _init()
    from resonaate.physics.orbits.kepler import solveKeplerProblemUniversal

    x0 = np.asarray(x0, dtype=float)
    xs = np.concatenate([x0[:3], x0[3:] * vscale])
    w = _w("universal_inverse", x0=x0, dt=dt, vscale=vscale)
    energy = 0.5 * float(xs[3:] @ xs[3:]) - MU / float(np.linalg.norm(xs[:3]))
    kind = "hyperbolic" if energy > 0 else "elliptic"
    if abs(energy) < 0.1 * MU / float(np.linalg.norm(xs[:3])):
        # near-parabolic band: the Newton iteration of the universal formulation is known to converge slowly there (seen: 99
        # iterations exhausted on the backward leg at e = 0.94, r = 90000 km); not sampled, counted
        ctx.count("universal_inverse_skipped_near_parabolic")
        return False
    y = _call(ctx, lambda: solveKeplerProblemUniversal(xs.copy(), dt), "universal-" + kind + "-forward", w, "universal")
    if y is None:
        return False
    y = np.asarray(y, dtype=float)
    z = _call(ctx, lambda: solveKeplerProblemUniversal(y.copy(), -dt), "universal-" + kind + "-backward", w, "universal")
    if z is None:
        return False
    z = np.asarray(z, dtype=float)
    er = float(np.linalg.norm(z[:3] - xs[:3])) / float(np.linalg.norm(xs[:3]))
    ev = float(np.linalg.norm(z[3:] - xs[3:])) / float(np.linalg.norm(xs[3:]))
    e2 = 0.5 * float(y[3:] @ y[3:]) - MU / float(np.linalg.norm(y[:3]))
    h1, h2 = np.cross(xs[:3], xs[3:]), np.cross(y[:3], y[3:])
    ok = er <= 1e-7 and ev <= 1e-7 and abs(e2 - energy) <= 1e-8 * max(abs(energy), MU / float(np.linalg.norm(xs[:3]))) and float(np.linalg.norm(h2 - h1)) <= 1e-8 * float(np.linalg.norm(h1))
    ctx.check(ok, "universal-forward-backward-" + kind, f"solveKeplerProblemUniversal on a {kind} orbit: forward {dt:.6g} s then backward does not return the start state "
              f"(|dr|/r = {er:.2e}, |dv|/v = {ev:.2e}) or does not conserve energy / angular momentum", w, mon="universal")
    return True


def rel_compose(ctx, spec, x0, t0, t1, t2, how="uniform", ttype="float"):
    x0 = np.asarray(x0, dtype=float)
    w = _w("compose", spec=spec, x0=x0, t0=t0, t1=t1, t2=t2, how=how, ttype=ttype)
    mon, p = _mon(spec, "compose"), _pfx(spec)
    y02 = _propagate(ctx, spec, t0, t2, x0, p + "compose", w, mon, ttype)
    y01 = _propagate(ctx, spec, t0, t1, x0, p + "compose", w, mon, ttype)
    if y02 is None or y01 is None:
        return False
    ok = ctx.check(y01.shape == (6,) and bool(np.all(np.isfinite(y01))), p + "compose-first-leg-invalid",
                   f"propagate over the first leg ({t1 - t0:.3e} s, split '{how}') returned {y01}", w, mon=mon)
    if not ok:
        return True
    y12 = _propagate(ctx, spec, t1, t2, y01, p + "compose", w, mon, ttype)
    if y12 is None:
        return False
    ur, uv, nrev, e = _unit(x0, t2 - t0)
    r = _ratio(y12, y02, 2 * ur, 2 * uv, "compose", _jump(x0, t0, t2, spec))
    key = p + ("compose-split" if how == "uniform" else "compose-split-at-end")
    _close(ctx, "compose", r, key, f"{spec['method']} Phi(t0->t2) vs Phi(t1->t2)oPhi(t0->t1), split '{how}' at t0+{t1 - t0:.6g} of {t2 - t0:.6g} s: "
           f"|dr| = {np.linalg.norm(y12[:3] - y02[:3]):.3e} km", w, mon)
    return True


def _layout(X, layout):
    X = np.ascontiguousarray(X, dtype=float)
    if layout == "F":
        return np.asfortranarray(X)
    if layout == "strided":
        big = np.zeros((6, 2 * X.shape[1]))
        big[:, ::2] = X
        big[:, 1::2] = 1e30  # poison: must never be read
        return big[:, ::2]
    return X


def _batch_events(ev, t0, t2):
    """Fresh event objects for one propagate call: an ECI impulse in the middle, or an NTW finite burn over the middle third
    (its thrust direction follows each state's own velocity)."""
    if not ev:
        return None
    if ev == "impulse":
        return [_null_event(t0 + 0.5 * (t2 - t0), [2e-3, -1e-3, 1.5e-3])]
    from functools import partial

    from resonaate.dynamics.integration_events.finite_thrust import ScheduledFiniteBurn, ntwBurn
    from resonaate.physics.time.stardate import ScenarioTime

    return [ScheduledFiniteBurn(start_time=ScenarioTime(t0 + (t2 - t0) / 3.0), end_time=ScenarioTime(t0 + 2.0 * (t2 - t0) / 3.0),
                                thrust_func=partial(ntwBurn, acc_vector=np.array([0.0, 2.0e-5, 0.0])), agent_id=1)]


def _as_dtype(X, dtype):
    """(values exactly representable in dtype as float64, the array handed to the library).  The state's element type is
    an input dimension: integer-valued and single-precision arrays are valid inputs and integration is documented in doubles."""
    X = np.array(X, dtype=float)
    if dtype in (None, "float64"):
        return X, X.copy()
    if dtype == "float32":
        Xe = X.astype(np.float32).astype(float)
        return Xe, Xe.astype(np.float32)
    Xe = np.round(X)  # "int64"
    return Xe, Xe.astype(np.int64)


def _int_ok(x):
    """An integer-rounded state that is still an orbit inside the property's range (periapsis above 6600 km, e <= 0.7)."""
    x = np.round(np.asarray(x, dtype=float))
    r, v = np.linalg.norm(x[:3]), np.linalg.norm(x[3:])
    en = v * v / 2 - MU / r
    if en >= 0:
        return False
    a = -MU / (2 * en)
    h = np.linalg.norm(np.cross(x[:3], x[3:]))
    e = math.sqrt(max(0.0, 1 - h * h / (MU * a)))
    return e <= 0.7 and a * (1 - e) > 6600.0


def _pick_dtype(rng, X, allow_int=True):
    d = rng.choice([None, None, None, "float32", "int64"])
    if d == "int64":
        cols = [X] if np.ndim(X) == 1 else [np.asarray(X)[:, k] for k in range(np.asarray(X).shape[1])]
        if not allow_int or not all(_int_ok(c) for c in cols):
            d = "float32"
    return d


def rel_batch(ctx, spec, X, t0, t2, layout="C", ttype="float", ev=None, dtype=None):
    """Columns of one (6,K) propagation == K single propagations (also with a scheduled impulse / finite burn inside the call)."""
    X, Xin = _as_dtype(X, dtype)
    K_ = X.shape[1]
    w = _w("batch", spec=spec, X=X, t0=t0, t2=t2, layout=layout, ttype=ttype, ev=ev, dtype=dtype)
    mon, p = _mon(spec, "batch_vs_single"), _pfx(spec)
    if ev and t2 - t0 < 3 * TE_MIN:
        ev = None
    if dtype:
        ctx.count("relations_with_" + dtype + "_state")
    Y = _propagate(ctx, spec, t0, t2, _layout(Xin, layout), p + "batch", w, mon, ttype, events=_batch_events(ev, t0, t2))
    if Y is None:
        return False
    want = (6,) if K_ == 1 else (6, K_)
    if not ctx.check(Y.shape == want, p + "batch-shape", f"(6,{K_}) propagation returned shape {Y.shape}, documented {want}", w, mon=mon):
        return True
    Y = Y.reshape(6, K_)
    for k in range(K_):
        yk = _propagate(ctx, spec, t0, t2, X[:, k], p + "batch", w, mon, ttype, events=_batch_events(ev, t0, t2))
        if yk is None:
            return False
        ur, uv, nrev, e = _unit(X[:, k], t2 - t0, dense=bool(ev))
        f = 2.0 * math.sqrt(K_)  # RMS error norm over 6K components: one column may take sqrt(K) of the budget
        r = _ratio(Y[:, k], yk, f * ur, f * uv, "batch_vs_single", _jump(X[:, k], t0, t2, spec))
        if not _close(ctx, "batch_vs_single", r, p + "batch-column-differs" + (f"-with-{ev}" if ev else ""), f"{spec['method']} column {k} of a K={K_} ({layout}) batch over {t2 - t0:.6g} s "
                      + (f"with a scheduled {ev} inside the call " if ev else "") + 
                      f"differs from its single propagation by {np.linalg.norm(Y[:3, k] - yk[:3]):.3e} km", w, mon):
            break
    return True


def rel_bulk(ctx, spec, X, times, ttype="float", container="list", te=None, dtype=None):
    """propagateBulk(times, X)[..., i] == propagate(times[0], times[i+1], X); optional no-op event at te."""
    X, Xin = _as_dtype(X, dtype)
    if dtype:
        ctx.count("relations_with_" + dtype + "_state")
    w = _w("bulk", spec=spec, X=X, times=list(times), ttype=ttype, container=container, te=te, dtype=dtype)
    ev = te is not None
    mon, p = _mon(spec, "event_restart" if ev else "bulk_vs_single"), _pfx(spec)
    rel = p + ("bulk-event" if ev else "bulk")
    d = _dyn(spec)
    tt = _times(times, ttype)
    if container == "array" and ttype == "float":
        tt = np.array(tt)
    events = [_null_event(te)] if ev else None
    Xarg = Xin.copy()
    out = _call(ctx, lambda: d.propagateBulk(tt, Xarg, scheduled_events=events), rel, w, mon)
    if out is not None:
        ctx.check(Xarg.tobytes() == Xin.tobytes(), "propagate-bulk-modified-its-input", f"{spec['method']} propagateBulk changed the state array it was handed", w, mon="input_unchanged")
    if out is None:
        return False
    out = np.asarray(out, dtype=float)
    n = len(times) - 1
    if not ctx.check(out.shape == (*X.shape, n), rel + "-shape", f"propagateBulk of state {X.shape} over {n} output times returned {out.shape}", w, mon=mon):
        return True
    cols = [X] if X.ndim == 1 else [X[:, k] for k in range(X.shape[1])]
    nk = len(cols)
    for i in range(n):
        for k, xk in enumerate(cols):
            yk = _propagate(ctx, spec, times[0], times[i + 1], xk, rel, w, mon, ttype)
            if yk is None:
                return False
            got = out[:, i] if X.ndim == 1 else out[:, k, i]
            ur, uv, nrev, e = _unit(xk, times[i + 1] - times[0], dense=True)
            f = 2.0 * math.sqrt(nk)
            name = "event_restart" if ev else "bulk_vs_single"
            r = _ratio(got, yk, f * ur, f * uv, name, _jump(xk, times[0], times[i + 1], spec))
            key = rel + ("-output-differs" if i < n - 1 else "-final-differs")
            if not _close(ctx, name, r, key, f"{spec['method']} propagateBulk output {i + 1}/{n} (t0+{times[i + 1] - times[0]:.6g} s, column {k})"
                          f"{' with a no-op event at t0+%.6g' % (te - times[0]) if ev else ''} differs from propagate by "
                          f"{np.linalg.norm(got[:3] - yk[:3]):.3e} km", w, mon):
                return True
    return True


def rel_bulk_degenerate(ctx, spec, x0, times, how):
    """Grids with repeated times: the same states as the separate calls (or, for a zero span, propagate's ValueError)."""
    _init()
    x0 = np.asarray(x0, dtype=float)
    w = _w("bulk_degenerate", spec=spec, x0=x0, times=list(times), how=how)
    mon = "bulk_degenerate"
    d = _dyn(spec)
    t0 = times[0]
    try:
        with _guard():
            out = np.asarray(d.propagateBulk([float(t) for t in times], x0.copy()), dtype=float)
    except ValueError as exc:
        if times[-1] == t0:
            ctx.mon(mon)  # same refusal as propagate(t0, t0): consistent with the separate call
            return True
        ctx.check(False, "bulk-repeated-output-time-rejected",
                  f"propagateBulk rejects the grid {['t0+%g' % (t - t0) for t in times]} ({how}) with ValueError('{str(exc)[:80]}') "
                  f"although every separate propagate(t0, t_i) succeeds", w, mon=mon)
        return True
    except _Hang as exc:
        ctx.check(False, "bulk-degenerate-hang", f"propagateBulk on a grid with repeated times did not return ({exc})", w, mon=mon)
        return True
    except Exception as exc:  # noqa: BLE001
        ctx.check(False, "bulk-degenerate-raised", f"propagateBulk ({how}) raised {type(exc).__name__}: {str(exc)[:160]}", w, mon=mon)
        return True
    n = len(times) - 1
    if not ctx.check(out.shape == (6, n), "bulk-degenerate-shape", f"propagateBulk ({how}) returned shape {out.shape} for {n} output times", w, mon=mon):
        return True
    for i in range(n):
        ti = times[i + 1]
        if ti == t0:
            ref = x0
            ur, uv = 1e-9, 1e-12
        else:
            ref = _propagate(ctx, spec, t0, ti, x0, "bulk-degenerate", w, mon)
            if ref is None:
                return False
            ur, uv, _, _ = _unit(x0, ti - t0, dense=True)
            ur, uv = 2 * ur * TOL["bulk_vs_single"], 2 * uv * TOL["bulk_vs_single"]
        r = _ratio(out[:, i], ref, ur, uv)
        zero = bool(np.all(out[:, i] == 0.0))
        key = "bulk-zero-span-returns-zeros" if (zero and ti == t0) else ("bulk-repeated-time-zero-state" if zero else "bulk-repeated-time-wrong-state")
        if not ctx.check(r <= 1.0, key, f"propagateBulk on grid {['t0+%g' % (t - t0) for t in times]} ({how}): output {i + 1} is {out[:, i].tolist()} "
                         f"but the separate call gives {np.asarray(ref).tolist()}", w, mon=mon):
            return True
    return True


def rel_event(ctx, spec, x0, t0, te, t2, ttype="float", dv=None):
    """A terminal event at te: zero change -> same result as without; impulse dv -> same as the manual composition
    Phi(te->t2)(Phi(t0->te)(x) + dv) done with event-free propagate calls."""
    x0 = np.asarray(x0, dtype=float)
    w = _w("event", spec=spec, x0=x0, t0=t0, te=te, t2=t2, ttype=ttype, dv=None if dv is None else list(dv))
    mon, p = _mon(spec, "event_restart"), _pfx(spec)
    ye = _propagate(ctx, spec, t0, t2, x0, p + "event", w, mon, ttype, events=[_null_event(te, dv)])
    if dv is None:
        y = _propagate(ctx, spec, t0, t2, x0, p + "event", w, mon, ttype)
    else:
        y = _propagate(ctx, spec, t0, te, x0, p + "event", w, mon, ttype)
        if y is not None:
            y = _propagate(ctx, spec, te, t2, y + np.concatenate([np.zeros(3), np.asarray(dv, dtype=float)]), p + "event", w, mon, ttype)
    if y is None or ye is None:
        return False
    if not ctx.check(ye.shape == (6,), p + "event-shape", f"propagate with a terminal event returned shape {ye.shape}", w, mon=mon):
        return True
    ur, uv, nrev, e = _unit(x0, t2 - t0, dense=True)
    r = _ratio(ye, y, 2 * ur, 2 * uv, "event_restart", _jump(x0, t0, t2, spec))
    if dv is None:
        _close(ctx, "event_restart", r, p + "event-restart-differs", f"{spec['method']} propagate over {t2 - t0:.6g} s with a no-op terminal event at t0+{te - t0:.6g} s "
               f"differs from the uninterrupted propagation by {np.linalg.norm(ye[:3] - y[:3]):.3e} km", w, mon)
    else:
        _close(ctx, "event_restart", r, p + "event-impulse-composition", f"{spec['method']} propagate over {t2 - t0:.6g} s with an impulse {list(dv)} km/s at t0+{te - t0:.6g} s "
               f"differs from Phi(te->t2)(Phi(t0->te)(x)+dv) by {np.linalg.norm(ye[:3] - y[:3]):.3e} km", w, mon)
    return True


def rel_event_queue(ctx, spec, x0, t0, te, t2, dv, ttype="float"):
    """One queue object handed to several calls (the caller's list is not the callee's to consume), and an impulse that sits
    exactly on a requested output time of propagateBulk (interior and last): bulk columns == separate propagate calls."""
    x0 = np.asarray(x0, dtype=float)
    w = _w("event_queue", spec=spec, x0=x0, t0=t0, te=te, t2=t2, ttype=ttype, dv=list(dv))
    mon, p = _mon(spec, "event_restart"), _pfx(spec)
    d = _dyn(spec)
    imp = _null_event(te, dv)
    queue = [imp]
    y1 = _propagate(ctx, spec, t0, t2, x0, p + "event-queue", w, mon, ttype, events=queue)
    if y1 is None:
        return False
    ctx.check(len(queue) == 1 and queue[0] is imp, p + "event-queue-modified-by-the-call", f"propagate changed the caller's event list (now {len(queue)} entries)", w, mon=mon)
    queue = [imp]
    y2 = _propagate(ctx, spec, t0, t2, x0, p + "event-queue", w, mon, ttype, events=queue)
    if y2 is not None:
        ctx.check(np.array_equal(y1, y2), p + "event-queue-second-call-differs", f"the same propagate call with the same impulse gives another result the second time (|dr| = {np.linalg.norm(y1[:3] - y2[:3]):.3e} km)", w, mon=mon)
    # the impulse on a requested output time of a bulk call, in the middle and as the last one
    for times, label in (([t0, te, t2], "interior"), ([t0, t0 + 0.5 * (te - t0), te], "last")):
        if not (times[0] < times[1] < times[2]):
            continue
        tt = _times(times, ttype)
        q2 = [_null_event(te, dv)]
        out = _call(ctx, lambda: d.propagateBulk(tt, x0.copy()[:, None], scheduled_events=q2), p + "bulk-impulse-on-output-time", w, mon)  # noqa: B023  (documented (6, K) layout)
        if out is None:
            continue
        out = np.asarray(out, dtype=float)
        out = out[:, 0, :] if out.ndim == 3 else out
        if not ctx.check(out.shape == (6, 2), p + "bulk-impulse-on-output-time-shape", f"propagateBulk returned {out.shape}", w, mon=mon):
            continue
        for i in (0, 1):
            yk = _propagate(ctx, spec, times[0], times[i + 1], x0, p + "bulk-impulse-on-output-time", w, mon, ttype, events=[_null_event(te, dv)])
            if yk is None:
                continue
            ur, uv, nrev, e = _unit(x0, times[i + 1] - times[0], dense=True)
            r = _ratio(out[:, i], yk, 2 * ur, 2 * uv, "event_restart", _jump(x0, times[0], times[i + 1], spec))
            _close(ctx, "event_restart", r, p + f"bulk-impulse-on-output-time-{label}", f"{spec['method']} propagateBulk output {i + 1}/2 (t0+{times[i + 1] - times[0]:.6g} s) with an impulse "
                   f"{list(dv)} km/s exactly on the {label} output time t0+{te - t0:.6g} s differs from propagate with the same impulse by |dv| = {np.linalg.norm(out[3:, i] - yk[3:]):.3e} km/s", w, mon)
    return True


def rel_history(ctx, spec, x0, t0, t1, t2, frac):
    """The result depends on (epoch, state) only, not on what the dynamics object did before: a plain propagation repeated on
    the same object after a call that returned while a finite burn was still open gives the bit-identical result."""
    from functools import partial

    from resonaate.dynamics.integration_events.finite_thrust import ScheduledFiniteBurn, ntwBurn
    from resonaate.physics.time.stardate import ScenarioTime

    x0 = np.asarray(x0, dtype=float)
    w = _w("history", spec=spec, x0=x0, t0=t0, t1=t1, t2=t2, frac=frac)
    mon, p = _mon(spec, "history_independent"), _pfx(spec)
    before = _propagate(ctx, spec, t1, t2, x0, p + "history", w, mon)
    if before is None:
        return False
    ts = t0 + frac * (t1 - t0)
    burn = ScheduledFiniteBurn(start_time=ScenarioTime(ts), end_time=ScenarioTime(t1 + (t2 - t1) * 0.5), thrust_func=partial(ntwBurn, acc_vector=np.array([0.0, 1.0e-5, 0.0])), agent_id=1)
    mid = _propagate(ctx, spec, t0, t1, x0, p + "history", w, mon, events=[burn])  # returns with the burn still open
    if mid is None:
        return False
    after = _propagate(ctx, spec, t1, t2, x0, p + "history", w, mon)
    if after is None:
        return False
    same = before.tobytes() == after.tobytes()
    ctx.check(same, p + "result-depends-on-object-history", f"{spec['method']} propagate({t1:.6g}, {t2:.6g}, x) on one dynamics object differs by {np.linalg.norm(after[:3] - before[:3]):.3e} km "
              f"/ {np.linalg.norm(after[3:] - before[3:]):.3e} km/s after an earlier call on it returned inside a finite burn", w, mon=mon)
    return True


def rel_epoch(ctx, spec, x0, t0, t2, shift_s):
    """Same absolute epoch, re-split between init_julian_date and t: (jd0, t) vs (jd0 + s/86400, t - s)."""
    x0 = np.asarray(x0, dtype=float)
    w = _w("epoch", spec=spec, x0=x0, t0=t0, t2=t2, shift_s=shift_s)
    mon = "epoch_resplit"
    spec_b = dict(spec)
    spec_b["jd"] = spec["jd"] + shift_s / 86400.0
    ya = _propagate(ctx, spec, t0, t2, x0, "epoch", w, mon)
    yb = _propagate(ctx, spec_b, t0 - shift_s, t2 - shift_s, x0, "epoch", w, mon)
    if ya is None or yb is None:
        return False
    ur, uv, nrev, e = _unit(x0, t2 - t0)
    r = _ratio(yb, ya, 2 * ur, 2 * uv, "epoch_resplit", _jump(x0, t0, t2, spec))
    _close(ctx, "epoch_resplit", r, "epoch-resplit-differs", f"{spec['method']} SpecialPerturbations({spec['deg']}x{spec['ord']}, third={spec['third']}) over {t2 - t0:.6g} s: "
           f"start JD shifted by {shift_s:+g} s and times by {-shift_s:+g} s changes the result by {np.linalg.norm(yb[:3] - ya[:3]):.3e} km", w, mon)
    return True


def rel_deriv(ctx, spec, X, t, shift_s):
    """The two relations on the force function itself (a propagation over zero time, so no integrator noise):
    the derivative of K stacked states is the K derivatives stacked, and it depends on (jd0 + t) only."""
    from resonaate.physics.time.stardate import ScenarioTime

    X = np.array(X, dtype=float)
    K_ = X.shape[1]
    w = _w("deriv", spec=spec, X=X, t=t, shift_s=shift_s)
    d = _dyn(spec)
    try:
        D = np.asarray(d._differentialEquation(float(t), X.ravel().copy()), dtype=float).reshape(6, K_)
        cols = [np.asarray(d._differentialEquation(float(t), X[:, k].copy()), dtype=float) for k in range(K_)]
    except Exception as exc:  # noqa: BLE001
        ctx.count("deriv_raised_" + type(exc).__name__)
        return False
    for k in range(K_):
        a = float(np.linalg.norm(cols[k][3:]))
        err = float(np.linalg.norm(D[:, k] - cols[k]))
        if not ctx.check(err <= 1e-13 * a, "sp-deriv-batch-column-differs", f"force function: column {k} of K={K_} stacked states has derivative differing by {err:.3e} "
                         f"({err / a:.2e} |a|) from the derivative of that state alone (gr={spec['gr']}, srp={spec['srp']}, third={spec['third']})", w, mon="sp_deriv_batch"):
            break
    if shift_s and t - shift_s >= 0.0:
        spec_b = dict(spec)
        spec_b["jd"] = spec["jd"] + shift_s / 86400.0
        db = _dyn(spec_b)
        try:
            cb = np.asarray(db._differentialEquation(float(t - shift_s), X[:, 0].copy()), dtype=float)
        except Exception as exc:  # noqa: BLE001
            ctx.count("deriv_raised_" + type(exc).__name__)
            return True
        err = float(np.linalg.norm(cb - cols[0]))
        # the two epochs agree to one ulp of a Julian date (4.7e-10 d = 4e-5 s); the force turns with the Earth at 7.3e-5 rad/s,
        # so the non-central part (<= ~2e-5 km/s^2 at LEO, falling with r^-4) could differ by ~1e-13 km/s^2; in practice both sides round to the same microsecond
        r = float(np.linalg.norm(X[:3, 0]))
        tol = 4e-14 * (6678.0 / r) ** 4 + 1e-16  # observed worst on the unchanged tree: 1e-15 at LEO (2.5% of this)
        if _crosses_jump(spec, t):
            ctx.count("deriv_epoch_at_model_jump")
        else:
            ctx.check(err <= tol, "sp-deriv-epoch-resplit-differs", f"force function at the same absolute epoch differs by {err:.3e} km/s^2 (tol {tol:.1e}) when the start date moves by {shift_s:+g} s "
                      f"and the elapsed time by {-shift_s:+g} s (gr={spec['gr']}, srp={spec['srp']}, third={spec['third']})", w, mon="sp_deriv_epoch")
    return True


def _crosses_jump(spec, t):
    """Within 2 s of a UTC midnight (EOP day switch seen through one-ulp-different Julian dates) - a documented model jump."""
    f = (spec["jd"] + t / 86400.0 + 0.5) % 1.0
    return min(f, 1.0 - f) * 86400.0 < 2.0


def rel_scenario(ctx, start_iso, steps, dur, X, model, integration, geo=None, pert=None):
    """Truth ephemerides written by real truth-only Scenario runs with different physics steps.

    two_body: every TruthEphemeris row == closed form from the configured initial state; any model: rows of the runs at
    common epochs agree (the scenario loop composes one propagate call per step).
    """
    import sqlite3
    from datetime import datetime, timedelta

    from .. import scenario_kit as sk

    sk.init()
    X = np.array(X, dtype=float)
    w = _w("scenario", start=start_iso, steps=list(steps), dur=dur, X=X, model=model, integration=integration, geo=geo, pert=pert)
    mon = "scenario_truth"
    start = datetime.fromisoformat(start_iso)
    runs = []
    for step in steps:
        tg = [sk.target_cfg(10001 + k, X[:3, k], X[3:, k]) for k in range(X.shape[1])]
        sn = [sk.ground_sensor_cfg(20001, 35.0, -106.0)]
        cfg = sk.scenario_cfg(start, start + timedelta(seconds=dur + 2 * step), step, [sk.engine_cfg(1, tg, sn)], truth_only=True, model=model,
                              integration=integration, geopotential=geo, perturbations=pert)
        rows = None
        b = None
        try:
            with _guard():
                b = sk.build(cfg)
                sk.run_like_cli(b.app, timedelta(seconds=dur))
                con = sqlite3.connect(b.db_path)
                rows = con.execute("select t.agent_id, e.timestampISO, t.pos_x_km, t.pos_y_km, t.pos_z_km, t.vel_x_km_p_sec, t.vel_y_km_p_sec, "
                                   "t.vel_z_km_p_sec from truth_ephemerides t join epochs e on e.julian_date = t.julian_date "
                                   "where t.agent_id < 20000 order by t.agent_id, t.julian_date").fetchall()
                con.close()
        except Exception as exc:  # noqa: BLE001
            ctx.check(False, "scenario-run-raised", f"truth-only {model} scenario (step {step} s) raised {type(exc).__name__}: {str(exc)[:200]}", w, mon=mon)
        finally:
            if b is not None:
                sk.teardown(b)
        if rows is None:
            return False
        table = {}
        for aid, iso, *y in rows:
            dt = round((datetime.fromisoformat(iso) - start).total_seconds(), 6)
            table[(aid - 10001, dt)] = np.array(y, dtype=float)
        want = {(k, float(j * step)) for k in range(X.shape[1]) for j in range(dur // step + 1)}
        if not ctx.check(want <= set(table), "scenario-rows-missing", f"step {step} s: {len(want - set(table))} of {len(want)} expected truth rows are missing", w, mon=mon):
            return True
        runs.append((step, table))

    def unit(k, dt, step):
        ur, uv, _, _ = _unit(X[:, k], dt)
        sr, sv, _, _ = _unit(X[:, k], step)
        n = dt / step
        return ur + n * sr, uv + n * sv

    for step, table in runs:
        for (k, dt), y in sorted(table.items()):
            if dt > dur:
                continue
            if dt == 0.0:
                if not ctx.check(np.allclose(y, X[:, k], rtol=1e-14, atol=0.0), "scenario-initial-state", f"truth row at the start differs from the configured state: {y} vs {X[:, k]}", w, mon=mon):
                    return True
                continue
            if model == "two_body":
                ur, uv = unit(k, dt, step)
                r = _ratio(y, K.propagate(X[:, k], dt, MU), ur, uv)
                if not _close(ctx, "scenario_truth", r, "scenario-truth-not-kepler", f"{integration} two_body scenario, step {step} s: truth of target {k} at +{dt:g} s differs from closed-form "
                              f"Kepler by {np.linalg.norm(y[:3] - K.propagate(X[:, k], dt, MU)[:3]):.3e} km", w, mon):
                    return True
    (sa, ta), (sb, tb) = runs[0], runs[-1]
    for key in sorted(set(ta) & set(tb)):
        k, dt = key
        if dt == 0.0 or dt > dur:
            continue
        ua, ub = unit(k, dt, sa), unit(k, dt, sb)
        r = _ratio(ta[key], tb[key], ua[0] + ub[0], ua[1] + ub[1])
        if not _close(ctx, "scenario_truth", r, "scenario-truth-step-dependent", f"{integration} {model} scenario: truth of target {k} at +{dt:g} s differs between physics steps {sa} s and {sb} s by "
                      f"{np.linalg.norm(ta[key][:3] - tb[key][:3]):.3e} km", w, mon):
            return True
    return True


def rel_clone_join(ctx, start_iso, step, nsteps, j, x0, model, integration, geo=None, pert=None):
    """A satellite added to a running scenario (Scenario.addTarget between two steps) with exactly the state another, identically
    configured satellite has at that moment follows it bit for bit from then on: the propagation depends on the absolute epoch
    and the state only, not on when the dynamics object was created."""
    from datetime import datetime, timedelta

    from .. import scenario_kit as sk

    sk.init()
    x0 = np.asarray(x0, dtype=float)
    w = _w("clone_join", start=start_iso, step=step, nsteps=nsteps, j=j, x0=x0, model=model, integration=integration, geo=geo, pert=pert)
    mon = "scenario_clone_join"
    start = datetime.fromisoformat(start_iso)
    cfg = sk.scenario_cfg(start, start + timedelta(seconds=(nsteps + 2) * step), step, [sk.engine_cfg(1, [sk.target_cfg(10001, x0[:3], x0[3:])], [sk.ground_sensor_cfg(20001, 35.0, -106.0)])],
                          truth_only=True, model=model, integration=integration, geopotential=geo, perturbations=pert)
    b = None
    pairs = []
    try:
        with _guard():
            b = sk.build(cfg)
            app = b.app
            for k in range(1, nsteps + 1):
                app.stepForward()
                if k == j:
                    from resonaate.data.agent import AgentModel

                    xs = np.array(app.target_agents[10001].eci_state, dtype=float)
                    if float(np.linalg.norm(xs[:3])) > 6378.0 + 44000.0:
                        # the agent configuration refuses initial altitudes above 45000 km: an eccentric original may be up there now
                        ctx.count("clone_join_skipped_above_config_altitude_limit")
                        return False
                    app.database.insertData(AgentModel(unique_id=10002, name="T10002"))
                    app.addTarget(sk.target_cfg(10002, xs[:3], xs[3:]), 1)
                elif k > j:
                    pairs.append((k, np.array(app.target_agents[10001].eci_state, dtype=float), np.array(app.target_agents[10002].eci_state, dtype=float)))
    except Exception as exc:  # noqa: BLE001
        ctx.check(False, "scenario-run-raised", f"truth-only {model} scenario with a satellite added after step {j} raised {type(exc).__name__}: {str(exc)[:200]}", w, mon=mon)
        return False
    finally:
        if b is not None:
            sk.teardown(b)
    for k, xa, xb in pairs:
        if not ctx.check(xa.tobytes() == xb.tobytes(), "late-joined-clone-diverges", f"{integration} {model} scenario (step {step} s): a satellite added after step {j} with the state of an identical one "
                         f"differs from it at step {k} by {np.linalg.norm(xa[:3] - xb[:3]):.3e} km", w, mon=mon):
            break
    return bool(pairs)


# ---------------------------------------------------------------------------------------------
# generators
# ---------------------------------------------------------------------------------------------
RP_MIN = 6600.0
# The repository's ScheduledImpulse root function returns exactly 0 while |t - te| < 1e-15; after the restart at
# te + spacing(te) that is still the case when te < ~4.5 s, so the event re-triggers (and propagateBulk then crashes on
# an empty t_eval slice).  That is event bookkeeping (C01), not propagation: the no-op events used here stay at te >= 16 s.
TE_MIN = 16.0


def _rand_orbit(rng, cls=None):
    cls = cls or rng.choice(["leo", "leo", "meo", "geo", "heo", "beyond", "any", "any"])
    if cls == "leo":
        a = rng.uniform(6600.0, 8400.0)
    elif cls == "meo":
        a = rng.uniform(8400.0, 30000.0)
    elif cls == "geo":
        a = 42164.0 + rng.choice([0.0, rng.uniform(-50, 50)])
    elif cls == "heo":
        a = rng.uniform(16000.0, 46000.0)
    elif cls == "beyond":
        a = rng.uniform(43000.0, 60000.0)
    else:
        a = math.exp(rng.uniform(math.log(6600.0), math.log(60000.0)))
    emax = min(0.7, 1.0 - RP_MIN / a)
    ek = rng.choice(["circ", "tiny", "max", "uni", "uni", "uni"]) if cls != "heo" else rng.choice(["max", "hi"])
    e = {"circ": 0.0, "tiny": 10 ** rng.uniform(-9, -3), "max": emax, "hi": rng.uniform(0.6 * emax, emax)}.get(ek, rng.uniform(0, emax))
    e = min(e, emax)
    ik = rng.choice(["uni", "uni", "uni", "0", "90", "180", "near0", "near180", "crit"])
    inc = {"0": 0.0, "90": math.pi / 2, "180": math.pi, "near0": 10 ** rng.uniform(-9, -3), "near180": math.pi - 10 ** rng.uniform(-9, -3),
           "crit": math.radians(63.4)}.get(ik, math.acos(rng.uniform(-1, 1)))
    raan, argp = rng.uniform(0, 2 * math.pi), rng.uniform(0, 2 * math.pi)
    nu = rng.choice([0.0, math.pi, rng.uniform(0, 2 * math.pi), rng.uniform(0, 2 * math.pi)])
    return K.state_from_coe(a, e, inc, raan, argp, nu, MU)


def _rand_t0(rng):
    k = rng.choice(["zero", "whole", "whole", "frac", "far"])
    if k == "zero":
        return 0.0
    if k == "whole":
        return float(rng.randrange(0, 7 * 86400))
    if k == "frac":
        return rng.uniform(0, 86400.0)
    return float(rng.randrange(7 * 86400, 30 * 86400)) + rng.choice([0.0, 0.5, rng.random()])


def _rand_dt(rng, x0, max_s, max_rev):
    per = K.period(x0, MU)
    k = rng.choice(["log", "log", "short", "step", "period", "period", "long"])
    if k == "log":
        dt = 10 ** rng.uniform(0, math.log10(86400.0))
    elif k == "short":
        dt = float(rng.randrange(1, 121))
    elif k == "step":
        dt = float(rng.choice([1, 10, 30, 60, 120, 300, 600, 900, 1800, 3600]))
    elif k == "period":
        dt = per * rng.choice([0.25, 0.5, 1.0, 1.0, 1.5, 2.0, 3.0])
    else:
        dt = rng.choice([86400.0, 43200.0, rng.uniform(3600.0, 86400.0)])
    dt = min(dt, max_s, max_rev * per, 86400.0)
    return max(dt, 1.0)


def _end(t0, dt):
    return float(t0 + dt)


def _split(rng, t0, t2, how=None):
    how = how or rng.choice(["uniform", "ulp_lo", "ulp_hi", "micro_lo", "micro_hi"])
    if how == "uniform":
        t1 = t0 + (t2 - t0) * rng.uniform(0.02, 0.98)
    elif how == "ulp_lo":
        t1 = float(np.nextafter(t0, np.inf))
    elif how == "ulp_hi":
        t1 = float(np.nextafter(t2, -np.inf))
    elif how == "micro_lo":
        t1 = t0 + 10 ** rng.uniform(-7, -2)
    else:
        t1 = t2 - 10 ** rng.uniform(-7, -2)
    if not (t0 < t1 < t2):
        t1, how = 0.5 * (t0 + t2), "uniform"
    return float(t1), how


def _grid(rng, t0, t2):
    n = rng.randrange(0, 7)
    pts = sorted({t0 + (t2 - t0) * rng.random() for _ in range(n)})
    k = rng.random()
    if k < 0.2 and pts:
        pts.append(float(np.nextafter(pts[rng.randrange(len(pts))], np.inf)))  # two outputs 1 ulp apart
    elif k < 0.4:
        pts.append(float(np.nextafter(t2, -np.inf)))  # output 1 ulp before the end
    elif k < 0.5:
        pts.append(float(np.nextafter(t0, np.inf)))  # output 1 ulp after the start
    elif k < 0.7 and t2 - t0 >= 4:
        pts = [float(math.floor(t0) + j) for j in sorted(rng.sample(range(1, int(t2 - t0)), min(n, int(t2 - t0) - 1)))]  # whole seconds
    pts = sorted({p for p in pts if t0 < p < t2})
    return [t0, *pts, t2]


def _tb_spec(rng):
    return {"model": "tb", "method": rng.choice(METHODS)}


JD_LO, JD_HI = 2457023.5, 2459731.5  # 2015-01-01 .. 2022-06-01 (inside the EOP table with room for +-30 d shifts)


def _sp_spec(rng, quick, reduce=False):
    if reduce:
        deg, orde, third, srp, gr = 0, 0, [], False, False
    else:
        pool = [(2, 0), (2, 2), (3, 3), (4, 4), (4, 2), (3, 1), (4, 4), (2, 2)]
        if not quick:
            pool += [(6, 6), (8, 8), (8, 3), (0, 0)]
        deg, orde = rng.choice(pool)
        third = rng.choice([[], [], ["moon"], ["sun", "moon"], ["sun", "moon"], ["sun", "moon", "jupiter", "venus", "saturn"]])
        srp, gr = rng.random() < 0.3, rng.random() < 0.3
        if (deg, orde) == (0, 0) and not third:
            third = ["sun", "moon"]
    day = float(rng.randrange(int(JD_LO - 0.5), int(JD_HI - 0.5))) + 0.5  # 0h UTC
    k = rng.choice(["sec", "sec", "noon", "midnight-", "leap", "frac"])
    if k == "sec":
        jd = day + rng.randrange(86400) / 86400.0
    elif k == "noon":
        jd = day + 0.5
    elif k == "midnight-":
        jd = day + 1.0 - rng.choice([1, 30, 60, 300]) / 86400.0  # the span crosses 0h UTC (EOP day switch)
    elif k == "leap":
        jd = 2457754.5 - rng.choice([1, 10, 120]) / 86400.0  # crosses 2016-12-31T23:59:60
    else:
        jd = day + rng.random()
    return {"model": "sp", "method": rng.choice(METHODS), "jd": jd, "deg": deg, "ord": orde, "third": third, "srp": srp, "gr": gr,
            "ratio": rng.choice([0.01, 0.02, 0.02, 0.1, 1.0]) if srp else rng.choice([0.0, 0.02])}


def _shift(rng):
    s = rng.choice([1.0, 60.0, 3600.0, 43200.0, 86400.0, 3 * 86400.0, 30 * 86400.0, float(rng.randrange(1, 10 * 86400)), rng.uniform(1, 86400.0)])
    return s if rng.random() < 0.5 else -s


def _rnd(x, nd=4):
    return [round(float(v), nd) for v in np.asarray(x).ravel()]


# ---------------------------------------------------------------------------------------------
# workload
# ---------------------------------------------------------------------------------------------
TB_RELS = ["kepler", "compose_u", "compose_e", "batch", "bulk", "event", "bulk_event", "kepler_long", "degenerate", "universal"]
SP_RELS = ["epoch", "compose", "batch", "bulk", "epoch", "event", "reduces", "epoch"]


def _tb_case(ctx, rng, i):
    q = ctx.quick
    rel = TB_RELS[i % len(TB_RELS)]
    spec = _tb_spec(rng)
    x0 = _rand_orbit(rng)
    t0 = _rand_t0(rng)
    if rel in ("event", "bulk_event"):
        t0 += TE_MIN  # see TE_MIN
    ttype = "scenario" if rng.random() < 0.2 else "float"
    big = (not q) and rng.random() < 0.15
    max_s, max_rev = (86400.0, 20.0) if big else ((7200.0, 1.5) if q else (21600.0, 4.0))
    done = False
    if rel in ("kepler", "kepler_long"):
        if rel == "kepler_long":
            dt = min(86400.0, K.period(x0, MU) * rng.choice([2.0, 3.0, 5.0, rng.uniform(1, 6)])) if q else rng.choice([86400.0, rng.uniform(20000.0, 86400.0)])
            if rng.random() < 0.3:
                dt = 86400.0
        else:
            dt = _rand_dt(rng, x0, 86400.0, 20.0 if not q else 3.0)
        t2 = _end(t0, dt)
        done = rel_kepler(ctx, spec, x0, t0, t2, ttype)
        key = (rel, spec["method"], _rnd(x0), t0, t2)
        smp = {"relation": "TwoBody vs closed form + conservation", "method": spec["method"], "x0": _rnd(x0), "t0": t0, "dt": t2 - t0}
    elif rel == "universal":
        dt = _rand_dt(rng, x0, 86400.0, 20.0)
        if rng.random() < 0.2:
            dt = 86400.0
        done = rel_universal(ctx, x0, dt, rng.choice([1.0, 1.0, 398600.8 / 398600.4418, 0.5, 2.0, 4902.800066 / 398600.4418]))
        rel_universal_inverse(ctx, x0, min(dt, 7200.0), rng.choice([1.0, 1.0, 1.6, 2.0, 3.0]))
        key = (rel, _rnd(x0), dt)
        smp = {"relation": "solveKeplerProblemUniversal vs closed form", "x0": _rnd(x0), "dt": dt}
    elif rel in ("compose_u", "compose_e"):
        t2 = _end(t0, _rand_dt(rng, x0, max_s, max_rev))
        t1, how = _split(rng, t0, t2, "uniform" if rel == "compose_u" else rng.choice(["ulp_lo", "ulp_hi", "micro_lo", "micro_hi"]))
        done = rel_compose(ctx, spec, x0, t0, t1, t2, how, ttype)
        key = (rel, spec["method"], _rnd(x0), t0, t1, t2)
        smp = {"relation": "compose", "split": how, "method": spec["method"], "x0": _rnd(x0), "t0": t0, "t1-t0": t1 - t0, "t2-t0": t2 - t0}
    elif rel == "batch":
        kk = rng.choice([1, 2, 3, 5, 7, 13, 13, rng.randrange(1, 14)])
        X = np.column_stack([x0] + [_rand_orbit(rng) for _ in range(kk - 1)])
        if kk > 2 and rng.random() < 0.3:
            X[:, -1] = X[:, 0]  # duplicated column
        per_min = min(K.period(X[:, k], MU) for k in range(kk))
        dt = min(_rand_dt(rng, x0, max_s, max_rev), (1.0 if q else 3.0) * per_min * (2.0 if kk <= 3 else 1.0))
        t2 = _end(t0, max(dt, 1.0))
        layout = rng.choice(["C", "C", "F", "strided"])
        done = rel_batch(ctx, spec, X, t0, t2, layout, ttype, ev=rng.choice([None, None, "impulse", "burn_ntw"]), dtype=_pick_dtype(rng, X))
        key = (rel, spec["method"], kk, layout, _rnd(X), t0, t2)
        smp = {"relation": "batch vs single", "K": kk, "layout": layout, "method": spec["method"], "t0": t0, "dt": t2 - t0, "first_column": _rnd(x0)}
    elif rel in ("bulk", "bulk_event"):
        kk = rng.choice([0, 0, 1, 2, 4]) if rel == "bulk" else rng.choice([1, 1, 2, 4])  # events + propagateBulk: documented (6,K) only
        X = x0 if kk == 0 else np.column_stack([x0] + [_rand_orbit(rng) for _ in range(kk - 1)])
        t2 = _end(t0, max(2.0, _rand_dt(rng, x0, max_s / 2, max_rev)))
        times = _grid(rng, t0, t2)
        te = None
        if rel == "bulk_event":
            te = t0 + (t2 - t0) * rng.uniform(0.05, 0.95)
            if rng.random() < 0.3:
                te = float(math.floor(te)) if t0 < math.floor(te) else te
        done = rel_bulk(ctx, spec, X, times, ttype, rng.choice(["list", "array"]), te, dtype=_pick_dtype(rng, X))
        key = (rel, spec["method"], kk, _rnd(X), tuple(times), te)
        smp = {"relation": "propagateBulk vs propagate" + (" + no-op event" if te is not None else ""), "K": kk or "(6,)", "n_out": len(times) - 1,
               "method": spec["method"], "t0": t0, "dt": t2 - t0}
    elif rel == "event":
        t2 = _end(t0, max(2.0, _rand_dt(rng, x0, max_s, max_rev)))
        te = t0 + (t2 - t0) * rng.uniform(0.02, 0.98)
        if rng.random() < 0.4 and math.floor(te) > t0:
            te = float(math.floor(te))
        dv = None
        if rng.random() < 0.5:
            dv = [rng.gauss(0, 1) * 10 ** rng.uniform(-5, -2) for _ in range(3)]
        done = rel_event(ctx, spec, x0, t0, te, t2, ttype, dv)
        if dv is not None and t0 < te < t2:
            rel_event_queue(ctx, spec, x0, t0, te, t2, dv, ttype)
        if te > t0 and t2 > te:
            rel_history(ctx, spec, x0, t0, te, t2, rng.choice([0.0, 0.3, 0.9]))
        key = (rel, spec["method"], _rnd(x0), t0, te, t2, dv is None)
        smp = {"relation": "terminal event (no-op)" if dv is None else "terminal event (impulse) vs manual composition", "method": spec["method"], "x0": _rnd(x0), "t0": t0, "te-t0": te - t0, "dt": t2 - t0}
    else:  # degenerate grids
        dt = float(rng.choice([1, 60, 300, rng.randrange(2, 3600)]))
        t2 = _end(t0, dt)
        tm = t0 + dt * rng.uniform(0.1, 0.9)
        how = rng.choice(["end-repeated", "interior-repeated", "start-repeated", "zero-span"])
        times = {"end-repeated": [t0, tm, t2, t2], "interior-repeated": [t0, tm, tm, t2], "start-repeated": [t0, t0, t2], "zero-span": [t0, t0]}[how]
        done = rel_bulk_degenerate(ctx, spec, x0, times, how)
        key = (rel, how, spec["method"], _rnd(x0), tuple(times))
        smp = {"relation": "propagateBulk on a degenerate grid", "how": how, "method": spec["method"], "t0": t0, "dt": dt}
    ctx.case(key, nontrivial=bool(done))
    ctx.count("cases_" + rel)
    if i % 37 == 0:
        ctx.sample(smp)


def _sp_case(ctx, rng, i):
    q = ctx.quick
    rel = SP_RELS[i % len(SP_RELS)]
    spec = _sp_spec(rng, q, reduce=(rel == "reduces"))
    x0 = _rand_orbit(rng)
    t0 = rng.choice([0.0, 0.0, float(rng.randrange(0, 86400)), float(rng.randrange(0, 7 * 86400))])
    if rel == "event":
        t0 += TE_MIN
    per = K.period(x0, MU)
    if q:
        dt = float(rng.choice([30, 60, 120, 300, 600, rng.randrange(20, 900)]))
    else:
        dt = float(rng.choice([60, 300, 600, 1800, 3600, rng.randrange(20, 7200), rng.randrange(20, 7200)]))
        dt = min(dt, (1.0 if spec["deg"] <= 4 else 0.3) * per)  # cost ~ revolutions x degree^2
        if rng.random() < 0.03 and spec["deg"] <= 4 and rel in ("epoch", "compose", "reduces"):
            dt = rng.choice([21600.0, 43200.0, 86400.0]) if spec["method"] == "DOP853" else rng.choice([7200.0, 21600.0])
    dt = max(dt, 20.0)
    t2 = _end(t0, dt)
    done = False
    if rel == "epoch":
        s = _shift(rng)
        if s > 0:  # scenario times stay >= 0 on both sides (elapsed seconds are never negative in the repository)
            t0, t2 = t0 + s, _end(t0 + s, dt)
        done = rel_epoch(ctx, spec, x0, t0, t2, s)
        if spec["ord"] == 0 and not spec["third"] and not spec["srp"]:
            done = False  # zonal-only field: the force does not depend on the Earth's rotation angle -> trivial
            ctx.count("epoch_cases_insensitive")
        key = (rel, json.dumps(spec, sort_keys=True), _rnd(x0), t0, t2, s)
        smp = {"relation": "epoch re-split", "spec": spec, "shift_s": s, "x0": _rnd(x0), "t0": t0, "dt": dt}
    elif rel == "compose":
        t1, how = _split(rng, t0, t2)
        done = rel_compose(ctx, spec, x0, t0, t1, t2, how)
        key = (rel, json.dumps(spec, sort_keys=True), _rnd(x0), t0, t1, t2)
        smp = {"relation": "SP compose", "spec": spec, "split": how, "t0": t0, "dt": dt}
    elif rel == "batch":
        kk = rng.choice([2, 3, 3, 5] if q else [1, 2, 3, 5, 7, 13])
        X = np.column_stack([x0] + [_rand_orbit(rng) for _ in range(kk - 1)])
        if kk >= 5:
            t2 = _end(t0, min(dt, 300.0 if q else 900.0, 0.2 * per))
        done = rel_batch(ctx, spec, X, t0, t2, rng.choice(["C", "F", "strided"]), ev=rng.choice([None, None, "impulse", "burn_ntw"]))
        key = (rel, json.dumps(spec, sort_keys=True), _rnd(X), t0, t2)
        smp = {"relation": "SP batch vs single", "spec": spec, "K": kk, "t0": t0, "dt": t2 - t0}
    elif rel == "bulk":
        kk = rng.choice([0, 0, 2])
        X = x0 if kk == 0 else np.column_stack([x0, _rand_orbit(rng)])
        times = _grid(rng, t0, t2)
        if len(times) > 5:
            times = [*times[:3], *times[-2:]]
        done = rel_bulk(ctx, spec, X, times, dtype=_pick_dtype(rng, X, allow_int=False))
        key = (rel, json.dumps(spec, sort_keys=True), _rnd(X), tuple(times))
        smp = {"relation": "SP propagateBulk vs propagate", "spec": spec, "n_out": len(times) - 1, "t0": t0, "dt": dt}
    elif rel == "event":
        te = t0 + (t2 - t0) * rng.uniform(0.05, 0.95)
        done = rel_event(ctx, spec, x0, t0, te, t2)
        rel_history(ctx, spec, x0, t0, te, t2, rng.choice([0.0, 0.3, 0.9]))
        key = (rel, json.dumps(spec, sort_keys=True), _rnd(x0), t0, te, t2)
        smp = {"relation": "SP no-op terminal event", "spec": spec, "t0": t0, "te-t0": te - t0, "dt": dt}
    else:
        done = rel_kepler(ctx, spec, x0, t0, t2)
        key = (rel, spec["method"], spec["jd"], _rnd(x0), t0, t2)
        smp = {"relation": "SP(0x0, no perturbations) vs closed form", "method": spec["method"], "t0": t0, "dt": dt}
    if rel != "reduces":
        kk2 = rng.choice([2, 3, 4])
        Xd = np.column_stack([x0] + [_rand_orbit(rng) for _ in range(kk2 - 1)])
        sh = abs(_shift(rng))
        rel_deriv(ctx, spec, Xd, t0 + sh + rng.choice([0.0, float(rng.randrange(0, 86400))]), sh)
    ctx.case(key, nontrivial=bool(done))
    ctx.count("cases_sp_" + rel)
    if i % 11 == 0:
        ctx.sample(smp)


def _scn_case(ctx, rng, i):
    from datetime import datetime, timedelta

    q = ctx.quick
    while True:
        start = datetime(2015, 1, 10) + timedelta(seconds=rng.randrange(0, 7 * 365 * 86400))
        if all(abs((start - L).total_seconds()) > 2 * 86400 for L in (datetime(2015, 7, 1), datetime(2017, 1, 1))):
            break
    if rng.random() < 0.3:
        start = start.replace(hour=23, minute=rng.choice([30, 45, 59]))  # the run crosses 0h UTC
    sa, sb = rng.choice([(60, 300), (30, 60), (10, 60), (60, 120), (120, 600), (300, 900), (20, 50)])
    lcm = sa * sb // math.gcd(sa, sb)
    dur = lcm * max(1, min((900 if q else 3600) // lcm, rng.randrange(1, 8)))
    nk = rng.choice([1, 2, 3])
    cols = []
    while len(cols) < nk:  # the scenario configuration only accepts initial altitudes up to 45000 km
        x = _rand_orbit(rng)
        if np.linalg.norm(x[:3]) < 6378.0 + 44000.0:
            cols.append(x)
    X = np.column_stack(cols)
    model = "two_body" if i % 2 == 0 else "special_perturbations"
    geo = pert = None
    if model != "two_body":
        deg, orde = rng.choice([(2, 0), (2, 2), (4, 4), (3, 3)])
        geo = {"model": "egm96.txt", "degree": deg, "order": orde}
        pert = {"third_bodies": rng.choice([[], ["moon"], ["sun", "moon"]]), "solar_radiation_pressure": False, "general_relativity": rng.random() < 0.3}
        dur = min(dur, max(lcm, (600 if q else 1800) // lcm * lcm))
    integ = rng.choice(METHODS)
    done = rel_scenario(ctx, start.isoformat(), [sa, sb], dur, X, model, integ, geo, pert)
    nst = rng.randrange(3, 7)
    rel_clone_join(ctx, start.isoformat(), sa, nst, rng.randrange(1, nst), X[:, 0], model, integ, geo, pert)
    ctx.case(("scenario", start.isoformat(), sa, sb, dur, model, integ, _rnd(X)), nontrivial=bool(done))
    ctx.count("cases_scenario_" + model)
    ctx.sample({"relation": "Scenario truth ephemerides vs closed form / across physics steps", "model": model, "integration": integ, "start": start.isoformat(),
                "steps": [sa, sb], "duration_s": dur, "targets": nk})


def run(ctx):
    global HANG_S
    _init()
    HANG_S = 100 if ctx.quick else 240
    rng = ctx.pyrng("c03")
    rel_constants(ctx)
    n_tb = ctx.scale(2000, 20_000)
    n_sp = ctx.scale(140, 1_500)
    budget0 = ctx.time_left()
    # interleave so that both families are reached whatever the wall budget: one SP case every n_tb/n_sp two-body cases
    every = max(1, n_tb // n_sp)
    j = 0
    reserve = 12.0
    for i in range(n_tb):
        if ctx.time_left() < reserve:
            ctx.count("stopped_by_budget")
            break
        _tb_case(ctx, rng, i)
        if i % every == every - 1 and j < n_sp:
            _sp_case(ctx, rng, j)
            j += 1
    while j < n_sp and ctx.time_left() > reserve:
        _sp_case(ctx, rng, j)
        j += 1
    srng = ctx.pyrng("c03-scenario")
    for i in range(ctx.scale(12, 320)):
        if ctx.time_left() < reserve / 2:
            break
        _scn_case(ctx, srng, i)
    ctx.note("budget_s_per_shard", budget0)
    for name, val in sorted(_WORST.items()):
        ctx.add_to_set("worst_ratio_" + name, float(f"{val:.3g}"))
    ctx.note("allowed_ratio", {k: float(v) for k, v in TOL.items()})


# ---------------------------------------------------------------------------------------------
def replay(ctx, w):
    _init()
    k = w["kind"]
    if k == "constants":
        rel_constants(ctx)
    elif k == "kepler":
        rel_kepler(ctx, w["spec"], w["x0"], w["t0"], w["t2"], w.get("ttype", "float"))
    elif k == "universal":
        rel_universal(ctx, w["x0"], w["dt"], w.get("mu_scale", 1.0))
    elif k == "universal_inverse":
        rel_universal_inverse(ctx, w["x0"], w["dt"], w["vscale"])
    elif k == "compose":
        rel_compose(ctx, w["spec"], w["x0"], w["t0"], w["t1"], w["t2"], w.get("how", "uniform"), w.get("ttype", "float"))
    elif k == "batch":
        rel_batch(ctx, w["spec"], w["X"], w["t0"], w["t2"], w.get("layout", "C"), w.get("ttype", "float"), w.get("ev"), w.get("dtype"))
    elif k == "bulk":
        rel_bulk(ctx, w["spec"], w["X"], w["times"], w.get("ttype", "float"), w.get("container", "list"), w.get("te"), w.get("dtype"))
    elif k == "bulk_degenerate":
        rel_bulk_degenerate(ctx, w["spec"], w["x0"], w["times"], w.get("how", ""))
    elif k == "event":
        rel_event(ctx, w["spec"], w["x0"], w["t0"], w["te"], w["t2"], w.get("ttype", "float"), w.get("dv"))
    elif k == "event_queue":
        rel_event_queue(ctx, w["spec"], w["x0"], w["t0"], w["te"], w["t2"], w["dv"], w.get("ttype", "float"))
    elif k == "epoch":
        rel_epoch(ctx, w["spec"], w["x0"], w["t0"], w["t2"], w["shift_s"])
    elif k == "clone_join":
        rel_clone_join(ctx, w["start"], w["step"], w["nsteps"], w["j"], w["x0"], w["model"], w["integration"], w.get("geo"), w.get("pert"))
    elif k == "history":
        rel_history(ctx, w["spec"], w["x0"], w["t0"], w["t1"], w["t2"], w["frac"])
    elif k == "deriv":
        rel_deriv(ctx, w["spec"], w["X"], w["t"], w["shift_s"])
    elif k == "scenario":
        rel_scenario(ctx, w["start"], w["steps"], w["dur"], w["X"], w["model"], w["integration"], w.get("geo"), w.get("pert"))
