"""Stand-alone runner that executes a scenario on the REAL Ray executor (no stand-in) and dumps
driver-visible, noise-free products (truth states per step, step-1 visibility matrix) as JSON.
Used to cross-validate the ray stand-in: python -m rvmon.realray_run cfg.json nsteps out.json
"""

from __future__ import annotations

import json
import logging
import os
import sys
import tempfile


def main():
    cfg_path, nsteps, out = sys.argv[1], int(sys.argv[2]), sys.argv[3]
    src = os.environ.get("RESONAATE_SRC", "/repo/src")
    sys.path.insert(0, src)
    lg = logging.getLogger("resonaate")
    lg.addHandler(logging.NullHandler())
    lg.setLevel(logging.CRITICAL + 10)
    lg.propagate = False
    import numpy as np
    import ray

    from resonaate.common.behavioral_config import BehavioralConfig
    from resonaate.scenario import buildScenarioFromConfigDict

    BehavioralConfig.getConfig().debugging.ParallelDebugMode = True
    ray.init(num_cpus=2, include_dashboard=False, logging_level=logging.ERROR, log_to_driver=False)
    cfg = json.load(open(cfg_path))
    tmp = tempfile.mkdtemp(prefix="rvmon-real-")
    app = buildScenarioFromConfigDict(cfg, internal_db_path=os.path.join(tmp, "out.sqlite3"))
    traj = {}
    first = {}
    for k in range(1, nsteps + 1):
        app.stepForward()
        for i, a in list(app.target_agents.items()) + list(app.sensor_agents.items()):
            traj[f"{int(i)}:{k}"] = np.asarray(a.eci_state, dtype=float).tobytes().hex()
        if k == 1:
            for eid, e in app.tasking_engines.items():
                first[str(eid)] = {"visibility": np.asarray(e.visibility_matrix, dtype=bool).astype(int).tolist()}
    json.dump({"traj": traj, "first": first}, open(out, "w"))
    ray.shutdown()
    import shutil

    shutil.rmtree(tmp, ignore_errors=True)


if __name__ == "__main__":
    main()
